"""C29 -- batch parameter expansion is an exact cartesian product."""
import collections
import contextlib
import io
import json
import random
import types

from harness import coqio as q

ID = "C29"
COQ_REQUIRE = ["M_Batch"]
COQ_CASE_TYPE = "M_Batch.case"
COQ_CHECK = "M_Batch.check_case"
OBLIGATIONS = ["sorted_is_sorted_permutation", "expansion_complete", "expansion_values_complete",
               "expansion_keys_sorted", "expansion_length", "expansion_nodup",
               "expansion_deterministic", "options_render_once", "options_leaves_fixed",
               "options_injective"]
N_QUICK, N_THOROUGH = 400, 8000
SHARD = 100
RULE = ("seeded random YAML-like parameter definitions: 0-4 parameters per level with names from a "
        "pool whose lexical order differs from insertion order (upper/lower case, prefixes, digits), "
        "each a scalar (str/int/bool/None/float/tuple), a list of 0-4 scalars with repeated values "
        "allowed, or a sub-dict (one level mostly, sometimes two, sometimes empty); every case runs "
        "regularize_parameters -> parameters_configuration -> build_option_for_parameters on each "
        "combination, plus the same chain on a copy with permuted dict insertion and list order; "
        "non-trivial = at least 2 combinations or a nested parameter; distinct = distinct case JSON")
MODELLED = ("regularize_parameters, parameters_configuration (any nesting depth), "
            "build_option_for_parameters/build_option_string (nesting <= 1; deeper f-string repr not "
            "modelled) are modelled; completeness/soundness of the expansion, sorted keys, length = "
            "product, no duplicates for distinct values, independence of insertion order and option "
            "rendering are theorems about the model (Prop_C29.v); str() of non-int scalars and the "
            "tie to batch.py rest on this differential run; estimate_batch and run_batch/"
            "build_final_command glue are only checked by the oracle (estimate = number of "
            "combinations; simulate mode prints one 'pydcop <command> <options>' line per combination)")
META = dict(
    level_text=("Proof (Coq) that in the model of pydcop/commands/batch.py the expansion of a batch "
                "parameter definition (nested to any depth) is exactly the set of choice functions "
                "(one value per leaf parameter, keys in sorted order), has length equal to the product "
                "of the value counts, has no repetition when the values are distinct, does not depend "
                "on dict insertion order or on the order of the value lists, and that the option "
                "string of a combination is the blank-joined list of one '--name value' (or "
                "'--name sub:value') piece per chosen leaf, in order; the model is tied to batch.py by a "
                "differential run on generated definitions on every check."),
    level_note=("Trusted: Coq kernel/vm_compute, the hand-written model M_Batch.v, the harness. "
                "Python's str() on non-int scalars is an input of the model. Keys are strings; "
                "dict keys are unique (NoDup hypothesis where needed). Option rendering for a "
                "definition nested deeper than one level (Python repr of a dict) is not modelled."),
    technique="Coq proof over executable Gallina model + differential correspondence run",
    design_ref="DESIGN.md §5 C29",
)

NAMES = ["a", "B", "ab", "a_b", "algo_params", "p1", "p10", "p2", "Z", "algo", "b", "aa", "A"]
SUBNAMES = ["x", "X", "stop_cycle", "variant", "p", "p_", "damping", "w", "a"]
STRS = ["1", "10", "2", "abc", "", "A", "a", "0.5", "B", "b a", "x:y", "-1", "True"]


# ---------------------------------------------------------------- generator
def _scalar(rng):
    r = rng.random()
    if r < 0.55:
        return {"t": "str", "v": rng.choice(STRS)}
    if r < 0.8:
        return {"t": "int", "v": rng.choice([0, 1, 2, 5, 10, 100, -3, 7, 12345678901234567890])}
    if r < 0.86:
        return {"t": "bool", "v": rng.random() < 0.5}
    if r < 0.9:
        return {"t": "none"}
    if r < 0.97:
        return {"t": "float", "v": rng.choice(["0.5", "1.0", "1e-05", "2.25", "-0.1", "100.0", "0.1234561", "0.1234562",
                                                "1234567.0", "1e+16", "0.30000000000000004", "1234567.5"])}
    return {"t": "tuple", "v": [rng.randint(0, 3) for _ in range(rng.randint(0, 2))]}


def _value(rng, depth, tier):
    r = rng.random()
    if r < 0.2:
        return {"s": _scalar(rng)}
    if r < 0.75 or depth >= 2:
        n = rng.choice([0, 1, 1, 2, 2, 3, 3, 4]) if rng.random() < 0.9 else 1
        if rng.random() < 0.25 and n >= 2:    # repeated values
            pool = [_scalar(rng) for _ in range(2)]
            return {"l": [rng.choice(pool) for _ in range(n)]}
        return {"l": [_scalar(rng) for _ in range(n)]}
    return {"d": _dict(rng, depth + 1, tier, SUBNAMES)}


def _dict(rng, depth, tier, pool):
    if depth == 0:
        n = rng.choice([0, 1, 1, 2, 2, 2, 3, 3, 4])
    else:
        n = rng.choice([0, 1, 1, 2, 2, 3])
    names = rng.sample(pool, n)
    return [[k, _value(rng, depth, tier)] for k in names]


def _count(d):
    t = 1
    for _, v in d:
        if "d" in v:
            t *= _count(v["d"])
        elif "l" in v:
            t *= len(v["l"])
    return t


def gen(rng, n, tier):
    cases = []
    while len(cases) < n:
        d = _dict(rng, 0, tier, NAMES)
        if _count(d) > 96:
            continue
        cases.append(dict(yaml=d, perm_seed=rng.randint(0, 10 ** 6)))
    return cases


# ---------------------------------------------------------------- building the python objects
def _py_scalar(x):
    t = x["t"]
    if t == "none":
        return None
    if t == "float":
        return float(x["v"])
    if t == "tuple":
        return tuple(x["v"])
    return x["v"]


def _py(d, prng=None):
    """the python dict; with prng: same content, permuted insertion order and list order"""
    items = list(d)
    if prng is not None:
        prng.shuffle(items)
    out = {}
    for k, v in items:
        if "d" in v:
            out[k] = _py(v["d"], prng)
        elif "l" in v:
            l = [_py_scalar(x) for x in v["l"]]
            if prng is not None:
                prng.shuffle(l)
            out[k] = l
        else:
            out[k] = _py_scalar(v["s"])
    return out


def _reg_json(r):
    return [[k, ({"d": _reg_json(v)} if isinstance(v, dict) else {"l": list(v)})] for k, v in r.items()]


def _comb_json(c):
    return [[k, ({"d": _comb_json(v)} if isinstance(v, dict) else v)] for k, v in c.items()]


def run_impl(case):
    from pydcop.commands import batch as B
    obj = _py(case["yaml"])
    try:
        reg = B.regularize_parameters(obj)
        conf = B.parameters_configuration(reg)
        opts = [B.build_option_for_parameters(c) for c in conf]
        est = B.estimate_batch({"command_options": obj})
    except Exception as e:
        return dict(error=type(e).__name__)
    out = dict(reg=_reg_json(reg), conf=[_comb_json(c) for c in conf], opts=opts, est=est)
    # the glue: run_batch in simulate mode prints one command line per combination
    buf = io.StringIO()
    saved = getattr(B, "pbar", None)
    B.pbar = types.SimpleNamespace(update=lambda n: None)
    try:
        with contextlib.redirect_stdout(buf):
            B.run_batch({"command": "solve", "command_options": _py(case["yaml"])}, {}, {}, None, simulate=True)
        out["lines"] = buf.getvalue().split("\n")[:-1]
    except Exception as e:
        out["lines"] = dict(error=type(e).__name__)
    finally:
        B.pbar = saved
    # same definition, other insertion order / list order
    obj2 = _py(case["yaml"], random.Random(case["perm_seed"]))
    try:
        conf2 = B.parameters_configuration(B.regularize_parameters(obj2))
        out["conf_perm"] = [_comb_json(c) for c in conf2]
    except Exception as e:
        out["conf_perm"] = dict(error=type(e).__name__)
    return out


# ---------------------------------------------------------------- independent oracle
def _str(x):
    """what a leaf value must look like on the command line"""
    t = x["t"]
    if t == "str":
        return x["v"]
    if t == "none":
        return "None"
    if t == "bool":
        return "True" if x["v"] else "False"
    if t == "int":
        return "%d" % x["v"]
    if t == "float":
        return repr(float(x["v"]))
    return repr(tuple(x["v"]))


def _leaf_values(v):
    return [_str(v["s"])] if "s" in v else [_str(x) for x in v["l"]]


def _expected(d):
    """brute force: all choice functions, in the lexicographic order of (sorted names, sorted values)"""
    res = [[]]
    for k, v in sorted(d, key=lambda kv: kv[0]):
        alts = [{"d": c} for c in _expected(v["d"])] if "d" in v else sorted(_leaf_values(v))
        res = [c + [[k, a]] for c in res for a in alts]
    return res


def _has_empty_dict(d, top=True):
    if not d:
        return True
    return any("d" in v and _has_empty_dict(v["d"], False) for _, v in d)


def _depth(d):
    return max([0] + [1 + _depth(v["d"]) for _, v in d if "d" in v])


def _expected_option(c, bare_empty=False):
    """one '--name value' / '--name sub:value' piece per chosen leaf, in order, blank separated.
    An empty value may be rendered as '--name ' (what the code does) or as the bare flag '--name'
    (what build_option_string's unreachable branch intends): the property does not choose."""
    toks = []
    for k, v in c:
        if isinstance(v, dict):
            for sk, sv in v["d"]:
                toks.append("--%s %s:%s" % (k, sk, sv))
        elif v == "" and bare_empty:
            toks.append("--%s" % k)
        else:
            toks.append("--%s %s" % (k, v))
    return " ".join(toks)


def oracle(case, o):
    d = case["yaml"]
    if "error" in o:
        return "expansion raised %s" % o["error"]
    exp = _expected(d)
    got = o["conf"]
    if len(got) != _count(d):
        return "%d combinations, product of the value counts is %d" % (len(got), _count(d))
    cg = collections.Counter(json.dumps(c) for c in got)
    ce = collections.Counter(json.dumps(c) for c in exp)
    if cg != ce:
        missing = [c for c in ce if cg[c] < ce[c]]
        extra = [c for c in cg if cg[c] > ce[c]]
        return "combinations differ from the cartesian product: missing %s extra %s" % (missing[:2], extra[:2])
    if got != exp:
        return "combinations not in the sorted-name / sorted-value order"
    if o["conf_perm"] != got:
        return "expansion depends on dict insertion order or list order"
    if o["est"] != len(got) and d:
        return "estimate_batch = %r but %d combinations" % (o["est"], len(got))
    exp_lines = ["pydcop solve" + (" " + s if s else "") for s in o["opts"]]
    if _depth(d) <= 1 and o["lines"] != exp_lines:     # deeper: a dict repr's braces reach str.format
        return "run_batch(simulate) printed %r, expected one line per combination %r" % (o["lines"][:3], exp_lines[:3])
    if _depth(d) <= 1:
        for c, s in zip(got, o["opts"]):
            if s != _expected_option(c) and s != _expected_option(c, True):
                return "options of %r rendered as %r" % (c, s)
    return None


def classify(case, o, msg):
    return None


# ---------------------------------------------------------------- Gallina
def _scalar_term(x):
    t = x["t"]
    if t == "str":
        return "SStr %s" % q.s(x["v"])
    if t == "int":
        return "SInt %s" % q.z(x["v"])
    if t == "bool":
        return "SBool %s" % q.b(x["v"])
    if t == "none":
        return "SNone"
    return "SOther %s" % q.s(str(_py_scalar(x)))     # str() of floats / tuples: input of the model


def _yval_term(v):
    if "s" in v:
        return "YScalar (%s)" % _scalar_term(v["s"])
    if "l" in v:
        return "YList %s" % q.lst([_scalar_term(x) for x in v["l"]])
    return "YDict %s" % _ydict_term(v["d"])


def _ydict_term(d):
    return q.lst([q.pair(q.s(k), _yval_term(v)) for k, v in d])


def _strict_s(x):
    """observed leaves must be real str objects (q.s would silently str() an int)"""
    if not isinstance(x, str):
        raise TypeError("non-str leaf %r in the implementation's output" % (x,))
    return q.s(x)


def _reg_term(r):
    return q.lst([q.pair(_strict_s(k), ("PDict %s" % _reg_term(v["d"])) if "d" in v
                         else ("PList %s" % q.lst([_strict_s(x) for x in v["l"]])))
                  for k, v in r])


def _comb_term(c):
    return q.lst([q.pair(_strict_s(k), ("CDict %s" % _comb_term(v["d"])) if isinstance(v, dict)
                         else ("CVal %s" % _strict_s(v)))
                  for k, v in c])


def coq_case(case, o):
    if "error" in o:
        return None
    return "mkCase %s %s %s %s" % (_ydict_term(case["yaml"]), _reg_term(o["reg"]),
                                   q.lst([_comb_term(c) for c in o["conf"]]), q.slist(o["opts"]))


def nontrivial(case, o):
    return "conf" in o and (len(o["conf"]) >= 2 or _depth(case["yaml"]) >= 1)


def histogram(cases, obs):
    h = collections.Counter()
    for c, o in zip(cases, obs):
        h["depth=%d" % _depth(c["yaml"])] += 1
        h["params=%d" % len(c["yaml"])] += 1
        if "error" in o:
            h["error:" + o["error"]] += 1
        else:
            n = len(o["conf"])
            h["combos:" + ("0" if n == 0 else "1" if n == 1 else "2-8" if n <= 8 else "9+")] += 1
        if _has_empty_dict(c["yaml"]):
            h["has_empty_dict"] += 1
    return dict(h)


def shrink_candidates(case):
    d = case["yaml"]
    for i in range(len(d)):
        yield dict(case, yaml=d[:i] + d[i + 1:])
    for i, (k, v) in enumerate(d):
        if "l" in v and len(v["l"]) > 1:
            yield dict(case, yaml=d[:i] + [[k, {"l": v["l"][:-1]}]] + d[i + 1:])
        if "d" in v:
            sub = v["d"]
            for j in range(len(sub)):
                yield dict(case, yaml=d[:i] + [[k, {"d": sub[:j] + sub[j + 1:]}]] + d[i + 1:])
