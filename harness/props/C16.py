"""C16 -- computation graphs faithfully mirror the DCOP."""
from harness import coqio as q

ID = "C16"
COQ_REQUIRE = ["M_Graphs"]
COQ_CASE_TYPE = "M_Graphs.case"
COQ_CHECK = "M_Graphs.check_case"
OBLIGATIONS = [
    "chg_nodes", "chg_constraints_exact", "chg_links_exact", "chg_neighbors_iff_share",
    "chg_neighbors_sym", "chg_neighbors_nodup",
    "fg_rejects_iff_duplicate_names", "fg_nodes_one_per_variable_and_constraint", "fg_bipartite",
    "fg_link_iff_scope", "fg_graph_links_iff_scope",
    "og_nodes_as_hypergraph", "ordered_chain", "ordered_next_previous_inverse",
    "ordered_chain_visits_all_once",
]
N_QUICK, N_THOROUGH = 450, 8000
RULE = ("seeded random DCOPs: 0-8 variables drawn from a pool of 14 names whose lexical order differs "
        "from their numeric/natural order, 0-9 constraints of arity 0-4 (matrix, python-function and "
        "expression and conditional relations, the same rule under two names), isolated variables, "
        "plain and cost-table variables, constraints written with the very same Variable "
        "objects or with equal-but-distinct ones (created again / clone()), for each of the three graph modules; built "
        "through a DCOP (dicts set as the YAML loader does, or add_variable/add_constraint) or "
        "through the variables=/constraints= arguments (then also duplicate variables, duplicate "
        "constraint names, constraint/variable name clashes, scopes with variables that are not "
        "nodes); non-trivial = at least 2 nodes and one constraint of arity >= 2; distinct = "
        "distinct case JSON")
MODELLED = ("find_dependent_relations, ComputationNode neighbour derivation from links, the three "
            "build_computation_graph functions, ComputationGraph.links, get_next/get_previous are "
            "modelled; every clause of C16 is a theorem about the model (Prop_C16.v) for all "
            "variable lists and constraint scopes. The run compares, per node: name, node type, "
            "constraint names in order, links in order (type, name, node set / factor, variable / "
            "source, target), neighbour set, get_next/get_previous; per graph: node order, the "
            "links set, KeyError on duplicate computation names. Only checked by the run, not "
            "modelled: Variable.__eq__ beyond the name, density(), simple_repr of nodes (C15).")
META = dict(
    level_text=("Proof (Coq) that in the model of the three computation-graph builders: the "
                "constraints hyper-graph has one node per variable, each node lists exactly the "
                "constraints containing its variable, neighbourhood equals 'shares a constraint' "
                "and is symmetric; the factor graph has one node per variable and per constraint, "
                "is bipartite and links x and f iff x is in the scope of f (and is rejected exactly "
                "when two computations share a name); the ordered graph chains all variables in "
                "sorted order with mutually inverse next/previous links visiting every variable "
                "once -- for all DCOPs of any size. The model is tied to pydcop/computations_graph "
                "by a differential run on generated DCOPs on every check."),
    level_note=("Trusted: Coq kernel/vm_compute, the hand-written model M_Graphs.v, the harness "
                "(name->id map whose numeric order is Python's string order on the generated names). "
                "Variables are identified by name (Variable.__eq__ also compares domain and initial "
                "value). The ordered-graph model identifies nodes by name, so its cases never hold "
                "the same variable twice (impossible for dcop.variables, a dict)."),
    technique="Coq proof over executable Gallina model + differential correspondence run",
    design_ref="DESIGN.md §5 C16",
)

# names whose lexical (Python str) order is not the natural one
VAR_POOL = ["v1", "v10", "v2", "v3", "v21", "x", "X", "a_b", "a", "ab", "v01", "y9", "y10", "_z"]
CON_POOL = ["c1", "c10", "c2", "c3", "C4", "k", "diff_1", "diff_10", "w", "c_a", "f1", "f10"]
ALL_NAMES = sorted(set(VAR_POOL) | set(CON_POOL))
NID = {n: i for i, n in enumerate(ALL_NAMES)}      # numeric order of ids == lexical order of names
GRAPHS = ["hyper", "factor", "ordered"]
RELKINDS = ["matrix", "func", "expr"]      # + "cond" (ConditionalRelation), set by the generator


def gen(rng, n, tier):
    cases = []
    for i in range(n):
        graph = GRAPHS[i % 3] if rng.random() < 0.8 else rng.choice(GRAPHS)
        path = rng.choice(["dcop", "dcop", "add", "explicit"])
        nv = rng.choice([0, 1, 2, 3, 3, 4, 4, 5, 5, 6, 7, 8])
        vs = rng.sample(VAR_POOL, nv)
        nc = rng.randint(0, 9) if nv else rng.randint(0, 1)
        cnames = rng.sample(CON_POOL, min(nc, len(CON_POOL)))
        cons = []
        for cn in cnames:
            ar = rng.choice([0, 1, 1, 2, 2, 2, 2, 3, 3, 4]) if rng.random() < 0.9 else rng.randint(0, 4)
            ar = min(ar, len(vs))
            if ar == 0 and rng.random() < 0.7 and vs:
                ar = 1
            scope = rng.sample(vs, ar)
            cons.append([cn, scope, rng.choice(RELKINDS)])
        # some variables stay isolated on purpose: restrict scopes to a subset now and then
        if vs and rng.random() < 0.3:
            keep = set(rng.sample(vs, max(1, len(vs) - rng.randint(1, 2))))
            for c in cons:
                c[1] = [v for v in c[1] if v in keep]
        if path == "explicit":
            r = rng.random()
            if r < 0.15 and cons:                     # constraint named like a variable / another one
                j = rng.randrange(len(cons))
                cons[j][0] = rng.choice(vs) if (vs and rng.random() < 0.6) else rng.choice(cons)[0]
                cons[j][2] = "matrix"
            elif r < 0.30 and vs and cons:            # scope variable that is not a node
                extra = [x for x in VAR_POOL if x not in vs]
                if extra:
                    c = rng.choice(cons)
                    if len(c[1]) < 4:
                        c[1].append(rng.choice(extra))
            elif r < 0.40 and vs and graph != "ordered":   # the same variable given twice
                vs = vs + [rng.choice(vs)]
        if path == "dcop" and rng.random() < 0.12 and vs and cons:
            # YAML-loader style dicts may hold a constraint on a variable missing from dcop.variables
            extra = [x for x in VAR_POOL if x not in vs]
            c = rng.choice(cons)
            if extra and len(c[1]) < 4:
                c[1].append(rng.choice(extra))
        # how the constraints refer to a variable: the very same Variable object everywhere, or
        # equal-but-distinct objects (created again / clone()) as DCOP.add_constraint accepts
        inst = rng.choice(["shared", "fresh", "fresh", "clone"])
        # variables that carry a cost table (a re-created equal object lists the same costs in
        # another insertion order); some constraints are conditional relations, possibly the same
        # rule installed twice under two names
        costvars = [v for v in dict.fromkeys(vs) if rng.random() < 0.4]
        for c in cons:
            if len(c[1]) >= 2 and c[2] != "matrix" and rng.random() < 0.2:
                c[2] = "cond"
        conds = [c for c in cons if c[2] == "cond"]
        free = [n for n in CON_POOL if n not in [c[0] for c in cons]]
        if conds and free and rng.random() < 0.5:
            twin = rng.choice(conds)
            cons.insert(rng.randint(0, len(cons)), [rng.choice(free), list(twin[1]), "cond"])
        cases.append(dict(graph=graph, path=path, vars=vs, cons=cons, inst=inst, costvars=costvars))
    return cases


# ------------------------------------------------------------------ implementation driver
def _make(case):
    import numpy as np
    from pydcop.dcop.objects import Variable, Domain, VariableWithCostDict
    from pydcop.dcop.relations import (NAryMatrixRelation, NAryFunctionRelation, constraint_from_str,
                                       ConditionalRelation)
    d = Domain("d", "", [0, 1])
    pool = {}
    costvars = set(case.get("costvars", []))

    def new(name, again=False):
        if name in costvars:
            # equal cost tables; the re-created object lists them in another insertion order
            return VariableWithCostDict(name, d, {1: 3, 0: 2} if again else {0: 2, 1: 3})
        return Variable(name, d)

    def var(name):
        if name not in pool:
            pool[name] = new(name)
        return pool[name]
    inst = case.get("inst", "shared")

    def use(name):
        """the Variable object a constraint is written with"""
        if inst == "fresh":
            return new(name, again=True)
        if inst == "clone":
            return var(name).clone()
        return var(name)
    vs = [var(v) for v in case["vars"]]
    cons = []
    for cn, scope, kind in case["cons"]:
        svars = [use(v) for v in scope]
        if kind == "cond" and len(svars) >= 2:
            # rule: if <first variable> then <sum of the others>
            # (sub-relations named after the scope: the same rule under two names has equal parts)
            c = ConditionalRelation(constraint_from_str("if_" + scope[0], scope[0] + " == 1", svars[:1]),
                                    constraint_from_str("then_" + "_".join(scope[1:]), " + ".join(scope[1:]), svars[1:]),
                                    name=cn)
        elif kind == "expr" and svars:
            c = constraint_from_str(cn, " + ".join(scope), svars)
        elif kind == "func" and svars:
            c = NAryFunctionRelation(lambda **kw: 0, svars, name=cn, f_kwargs=True)
        else:
            c = NAryMatrixRelation(svars, np.zeros([2] * len(svars)), name=cn)
        cons.append(c)
    return vs, cons


def _link(l):
    cls = type(l).__name__
    if cls == "ConstraintLink":
        return ["C", NID[l.name], sorted(NID[n] for n in l.nodes), l.type]
    if cls == "FactorGraphLink":
        return ["F", NID[l.factor_node], NID[l.variable_node], l.type, sorted(NID[n] for n in l.nodes)]
    if cls == "OrderLink":
        return ["O", l.type, NID[l.source], NID[l.target], sorted(NID[n] for n in l.nodes)]
    return ["?", cls]


def run_impl(case):
    import importlib
    from pydcop.dcop.dcop import DCOP
    modname = {"hyper": "constraints_hypergraph", "factor": "factor_graph", "ordered": "ordered_graph"}[case["graph"]]
    gm = importlib.import_module("pydcop.computations_graph." + modname)
    vs, cons = _make(case)
    inp = None
    try:
        if case["path"] == "explicit":
            inp = dict(vars=[v.name for v in vs],
                       cons=[[c.name, [v.name for v in c.dimensions]] for c in cons])
            cg = gm.build_computation_graph(None, variables=vs, constraints=cons)
        else:
            dcop = DCOP("t", "min")
            if case["path"] == "dcop":
                dcop.variables = {v.name: v for v in vs}
                dcop._constraints = {c.name: c for c in cons}
            else:
                for v in vs:
                    dcop.add_variable(v)
                for c in cons:
                    dcop.add_constraint(c)
            # the DCOP handed to the builder, as the builder reads it
            inp = dict(vars=list(dcop.variables),
                       cons=[[c.name, [v.name for v in c.dimensions]] for c in dcop.constraints.values()])
            cg = gm.build_computation_graph(dcop)
    except KeyError as e:
        return dict(error="KeyError", input=inp)
    except Exception as e:
        return dict(error=type(e).__name__, msg=str(e)[:200], input=inp)
    nodes = []
    for n in cg.nodes:
        if case["graph"] == "factor" and n.type == "VariableComputation":
            cnames = list(n.constraints_names)
        else:
            cnames = [c.name for c in n.constraints]
        o = dict(name=n.name, type=n.type, cls=type(n).__name__, constraints=cnames,
                 links=[_link(l) for l in n.links], neighbors=list(n.neighbors),
                 next=None, prev=None)
        if case["graph"] == "ordered":
            o["next"], o["prev"] = n.get_next(), n.get_previous()
        # graph-level accessors must agree with the node (first node of that name)
        first = cg.computation(n.name)
        o["acc_ok"] = (list(cg.neighbors(n.name)) == list(first.neighbors)
                       and list(cg.links_for_node(n.name)) == list(first.links))
        nodes.append(o)
    return dict(nodes=nodes, node_names=cg.node_names(), links=[_link(l) for l in cg.links],
                gtype=cg.type, input=inp)


# ------------------------------------------------------------------ independent oracle
def _eff(case, o):
    """the DCOP the builder was given: variable names in order, constraints (name, scope).
    Scope ORDER is read from the constraint objects (constraint_from_str orders the dimensions
    of an expression relation itself); everything else must be what the generator asked for."""
    vs = list(case["vars"])
    cons = [(c[0], list(c[1])) for c in case["cons"]]
    if case["path"] in ("dcop", "add"):
        seen = {}
        for cn, sc in cons:
            seen[cn] = sc
        cons = list(seen.items())
    inp = o.get("input") if isinstance(o, dict) else None
    if inp is None:
        return vs, cons, "driver did not record the builder's input"
    if inp["vars"] != vs or [c[0] for c in inp["cons"]] != [c[0] for c in cons] or \
            any(sorted(a[1]) != sorted(b[1]) for a, b in zip(inp["cons"], cons)):
        return vs, cons, "driver built a different DCOP than generated: %r" % (inp,)
    return vs, [(c[0], list(c[1])) for c in inp["cons"]], None


def oracle(case, o):
    vs, cons, bad = _eff(case, o)
    if bad:
        return bad
    g = case["graph"]
    allnames = vs + [c[0] for c in cons]
    if "error" in o:
        if g == "factor" and o["error"] == "KeyError" and len(set(allnames)) != len(allnames):
            return None        # two computations with one name: documented rejection
        return "build_computation_graph raised %s %s" % (o["error"], o.get("msg", ""))
    if g == "factor" and len(set(allnames)) != len(allnames):
        return "factor graph accepted duplicate computation names %r" % allnames
    nodes = o["nodes"]
    names = [n["name"] for n in nodes]
    if o["node_names"] != names:
        return "node_names() differs from nodes"
    for n in nodes:
        if not n["acc_ok"]:
            return "graph accessors disagree with node %s" % n["name"]
        if len(set(n["neighbors"])) != len(n["neighbors"]):
            return "duplicate neighbour in node %s: %r" % (n["name"], n["neighbors"])
        if n["name"] in n["neighbors"]:
            return "node %s is its own neighbour" % n["name"]
    if g in ("hyper", "ordered"):
        if names != vs:
            return "nodes %r, expected one per variable %r" % (names, vs)
        for n in nodes:
            v = n["name"]
            exp = sorted(cn for cn, sc in cons if v in sc)
            if sorted(n["constraints"]) != exp:
                return "node %s lists constraints %r, those containing it are %r" % (v, n["constraints"], exp)
            share = set(w for cn, sc in cons if v in sc for w in sc if w != v)
            if set(n["neighbors"]) != share:
                return "node %s neighbours %r, variables sharing a constraint %r" % (v, sorted(n["neighbors"]), sorted(share))
            cl = sorted((l[1], l[2]) for l in n["links"] if l[0] == "C")
            expl = sorted((NID[cn], sorted(set(NID[w] for w in sc))) for cn, sc in cons if v in sc)
            if cl != expl:
                return "node %s constraint links %r, expected %r" % (v, cl, expl)
        byname = {n["name"]: n for n in nodes}
        for a in nodes:
            for b in a["neighbors"]:
                if b in byname and a["name"] not in byname[b]["neighbors"]:
                    return "neighbourhood not symmetric: %s -> %s" % (a["name"], b)
    if g == "ordered":
        order = sorted(vs)                     # Python str order = the 'lexical order' of the property
        byname = {n["name"]: n for n in nodes}
        for i, v in enumerate(order):
            n = byname[v]
            en = order[i + 1] if i + 1 < len(order) else None
            ep = order[i - 1] if i > 0 else None
            if n["next"] != en or n["prev"] != ep:
                return "node %s next/previous = %r/%r, lexical chain gives %r/%r" % (v, n["next"], n["prev"], en, ep)
            ol = [l for l in n["links"] if l[0] == "O"]
            if len(ol) != (en is not None) + (ep is not None):
                return "node %s has %d order links" % (v, len(ol))
            for l in ol:
                if l[2] != NID[v] or l[3] != NID[en if l[1] == "next" else ep]:
                    return "node %s order link %r inconsistent" % (v, l)
        # walk the chain from the first: visits every variable exactly once
        if order:
            seen, cur = [], order[0]
            while cur is not None and len(seen) <= len(order):
                seen.append(cur)
                cur = byname[cur]["next"]
            if seen != order:
                return "next-chain visits %r, expected %r" % (seen, order)
            for n in nodes:
                if n["next"] is not None and byname[n["next"]]["prev"] != n["name"]:
                    return "previous(next(%s)) != %s" % (n["name"], n["name"])
                if n["prev"] is not None and byname[n["prev"]]["next"] != n["name"]:
                    return "next(previous(%s)) != %s" % (n["name"], n["name"])
    if g == "factor":
        if names != allnames:
            return "nodes %r, expected variables then constraints %r" % (names, allnames)
        byname = {n["name"]: n for n in nodes}
        cnames = set(c[0] for c in cons)
        for n in nodes:
            isvar = n["name"] in vs
            if (n["type"] == "VariableComputation") != isvar:
                return "node %s has type %s" % (n["name"], n["type"])
            for m in n["neighbors"]:
                if isvar and m not in cnames:
                    return "variable node %s linked to non-factor %s" % (n["name"], m)
                if not isvar and m in cnames:
                    return "factor node %s linked to factor %s" % (n["name"], m)
            for l in n["links"]:
                if l[0] != "F" or (l[1] not in [NID[c] for c in cnames]):
                    return "node %s has a link that is not factor-variable: %r" % (n["name"], l)
        for cn, sc in cons:
            for x in set(vs) | set(sc):
                inscope = x in sc
                if (x in byname[cn]["neighbors"]) != inscope:
                    return "factor %s / variable %s: factor side linked=%r, in scope=%r" % (cn, x, not inscope, inscope)
                if x in byname and (cn in byname[x]["neighbors"]) != inscope:
                    return "factor %s / variable %s: variable side linked=%r, in scope=%r" % (cn, x, not inscope, inscope)
        pairs = set((NID[cn], NID[x]) for cn, sc in cons for x in sc)
        got = sorted((l[1], l[2]) for l in o["links"])
        if got != sorted(pairs):
            return "graph links %r, expected one per (factor, scope variable) %r" % (got, sorted(pairs))
    return None


# ------------------------------------------------------------------ Gallina printer
def _link_term(l):
    if l[0] == "C":
        return "(CLink %s %s)" % (q.z(l[1]), q.zlist(l[2]))
    if l[0] == "F":
        return "(FLink %s %s)" % (q.z(l[1]), q.z(l[2]))
    if l[0] == "O":
        if l[1] not in ("next", "previous"):
            raise ValueError("order link type %r" % l[1])
        return "(OLink %s %s %s)" % (q.b(l[1] == "next"), q.z(l[2]), q.z(l[3]))
    raise ValueError("unknown link class %r" % (l,))


KIND = {"VariableComputationNode": "VarNode", "VariableComputation": "VarNode",
        "FactorComputation": "FactorNode"}


def coq_case(case, o):
    g = {"hyper": "GHyper", "factor": "GFactor", "ordered": "GOrdered"}[case["graph"]]
    vs, cons, bad = _eff(case, o)
    if bad:
        raise ValueError(bad)
    cs = q.lst(["(mkC %s %s)" % (q.z(NID[cn]), q.zlist([NID[v] for v in sc])) for cn, sc in cons])
    if "error" in o:
        if o["error"] != "KeyError":
            return None
        obs = "None"
    else:
        exp_type = "VariableComputationNode" if case["graph"] != "factor" else None
        nodes = []
        for n in o["nodes"]:
            if exp_type and n["type"] != exp_type:
                raise ValueError("node type %r" % n["type"])
            nodes.append("(mkObs %s %s %s %s %s %s %s)" % (
                q.z(NID[n["name"]]), KIND[n["type"]], q.zlist([NID[c] for c in n["constraints"]]),
                q.lst([_link_term(l) for l in n["links"]]),
                q.zlist(sorted(NID[x] for x in n["neighbors"])),
                q.opt(n["next"], lambda x: q.z(NID[x])), q.opt(n["prev"], lambda x: q.z(NID[x]))))
        obs = "(Some (%s, %s))" % (q.lst(nodes), q.lst([_link_term(l) for l in o["links"]]))
    return "mkCase %s %s %s %s" % (g, q.zlist([NID[v] for v in vs]), cs, obs)


def nontrivial(case, o):
    return len(case["vars"]) >= 2 and any(len(c[1]) >= 2 for c in case["cons"])


def histogram(cases, obs):
    h = {}
    for c, o in zip(cases, obs):
        k = "%s/%s" % (c["graph"], c["path"])
        h[k] = h.get(k, 0) + 1
        h["inst=" + c.get("inst", "shared")] = h.get("inst=" + c.get("inst", "shared"), 0) + 1
        if isinstance(o, dict) and "error" in o:
            h["error/" + o["error"]] = h.get("error/" + o["error"], 0) + 1
        h["nvars=%d" % len(c["vars"])] = h.get("nvars=%d" % len(c["vars"]), 0) + 1
        ar = max([len(x[1]) for x in c["cons"]] or [0])
        h["max_arity=%d" % ar] = h.get("max_arity=%d" % ar, 0) + 1
    return h


def classify(case, o, msg):
    return None


def shrink_candidates(c):
    for j in range(len(c["cons"])):
        d = dict(c); d["cons"] = c["cons"][:j] + c["cons"][j + 1:]; yield d
    for j in range(len(c["vars"])):
        v = c["vars"][j]
        d = dict(c); d["vars"] = c["vars"][:j] + c["vars"][j + 1:]
        d["cons"] = [[cn, [x for x in sc if x != v], k] for cn, sc, k in c["cons"]]
        yield d
    for j, (cn, sc, k) in enumerate(c["cons"]):
        for x in sc:
            d = dict(c); d["cons"] = list(c["cons"]); d["cons"][j] = [cn, [y for y in sc if y != x], k]
            yield d
