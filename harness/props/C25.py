"""C25 -- replica placement (UCSReplication) terminates and keeps replicas safe."""
import itertools

from harness import coqio as q

ID = "C25"
COQ_REQUIRE = ["Net", "M_Ucs"]
COQ_CASE_TYPE = "M_Ucs.case"
COQ_CHECK = "M_Ucs.check_case"
OBLIGATIONS = ["max_footprint_spec", "accept_safe", "accept_safe_level", "capacity_safe",
               "placement_inv_partial", "done_report_inv", "replica_hosts_inv", "ucs_token_conserved_partial", "ucs_token_unique",
               "ucs_token_invariant", "ucs_replicated_once", "ucs_no_raise", "ucs_progress", "ucs_quiescent_all_done",
               "ucs_holders_inv", "placement_inv", "ucs_token_variant", "ucs_token_initial_measure", "ucs_terminates", "ucs_eventually_done"]
N_QUICK, N_THOROUGH = 300, 4000
PARALLEL = 8
SHARD = 60
ORCH = -5
HOSTING = -1
K_TARGET = 3     # UCSReplication.__init__ default, never overridden by ResilientAgent

RULE = ("random deployments of 2-6 agents with 0-2 active computations each (mostly 1-2), random symmetric "
        "computation graphs (8% asymmetric), integer footprints/capacities (tight to loose), hosting costs and "
        "route costs (90% symmetric as the YAML loader enforces, 10% asymmetric for the assertion branches; 3% of "
        "the symmetric ones with a negative default route = known finding C25-negative-route-assert), plus a 7% "
        "stream with capacity 0 / capacity below the agent's own footprint on 1..all agents (outside wf: model "
        "validation + oracle), plus a 7% ORACLE-ONLY stream (not modelled) of 3-5 agent chains with decimal / non-dyadic float route and hosting "
        "costs (0.1-multiples, thirds) run to quiescence, "
        "replication level k in 1..3; real ResilientAgent + UCSReplication + Discovery objects of all agents in "
        "one process, driven thread-free by per-channel-FIFO schedules from 5 policies (at most one message is "
        "ever held by a not-yet-started computation); 75% of the runs go to quiescence, 25% are cut at a random "
        "step to compare in-flight tokens. non-trivial = at least one replica accepted; distinct = distinct case JSON")
MODELLED = ("UCSReplication.replicate/on_replicate_request/on_replicate_answer/_visit_path/_send_request/"
            "_send_answer/computation_replicated/_can_host/_max_footprint/_remaining_capacity/"
            "replication_neighbors/_add_hosting_path, ReplicationTracker, path_utils (remove_path, "
            "cheapest_path_to, affordable_path_from incl. the mutation-while-iterating skip), the asserts of "
            "UCSReplicateMessage, AgentDef.route/hosting_cost are modelled and compared event by event, state "
            "by state and token by token. Agent arrival/removal events are not modelled. Theorems: acceptance "
            "test / capacity safety / placement (at most k hosts, no holder outside the recorded set) / token "
            "uniqueness, conservation and variant / bound on the number of handled messages; under symmetric "
            "non-negative costs and unique computation names: no handler raises, nothing pending is ever lost, "
            "quiescent => every agent done, every run can be continued until every agent is done. The oracle "
            "re-checks all of it on the real objects.")
META = dict(
    level_text=("Proof (Coq), for every well-formed deployment (any number of agents/computations, any costs, "
                "k >= 1) and EVERY schedule of starts and per-channel-FIFO deliveries of the UCS replication "
                "model: _max_footprint is exactly the maximum over sets of at most k_target-1 owners of the total "
                "footprint held for them; every acceptance leaves remaining capacity >= new footprint + that worst "
                "case (hence also for the requested k <= 3), and in every reachable state every agent can activate "
                "the replicas of any k_target-1 owners; the hosts a replication reports are distinct, at most k, "
                "never an owner of the computation, and each holds/has registered the replica; at most one "
                "request/answer token per computation is ever in flight and a handler never silently drops or "
                "duplicates it; in every reachable state the hosts recorded in _replica_hosts[c] are at most k and no "
                "other agent holds a replica of c (unique computation names). Termination: a structural variant "
                "of the token ((4n+1)*(2*#unvisited + #hosting entries) + position) strictly decreases at every hop "
                "with NO hypothesis on costs (the budget itself is not monotone), so in EVERY schedule agents "
                "handle at most Omega = sum_d (1 + #comps(d)*((4n+1)*2n+2n)) messages. Under the guards 'route "
                "costs between agents symmetric, route and hosting costs >= 0, computation names unique' (forced "
                "by the proofs; a negative route cost is the recorded finding C25-negative-route-assert): no "
                "handler of any run raises, an agent that has not reported done has its order or a token of one "
                "of its computations in flight (or a node is not started), every quiescent run ends with every "
                "agent done, and every run can be continued by finitely many actions until every agent has "
                "reported done. "
                "The model is tied to dist_ucs_hostingcosts.py/path_utils.py/agents.py by replaying the same "
                "schedules on the real ResilientAgent/UCSReplication/Discovery objects and comparing every "
                "event, final state and in-flight token."),
    level_note=("full for the model (placement in state form; liveness under the stated guards). Trusted: Coq kernel/vm_compute, M_Ucs.v + Net.v as a rendering of the Python code, the "
                "thread-free netdriver and the stand-in orchestrator/hosted computations. Agent arrival/removal "
                "during replication is not modelled. k_target is the constructor default 3 (never set by "
                "ResilientAgent), so the acceptance test is the property's for k <= 3 only."),
    technique="Coq invariant proofs over an executable network model + schedule-replay correspondence",
    design_ref="DESIGN.md §5 C25",
)


def an(i):
    return "a%02d" % i


def cn(i):
    return "c%02d" % i


def rn(i):
    return "_replication_" + an(i)


# ------------------------------------------------------------------ generator
_FLOAT_COSTS = [0.1, 0.2, 0.3, 0.4, 0.6, 0.7, 0.9, 1.1, 1 / 3, 2 / 3, 4 / 3, 0.05, 0.15, 1.7, 2.3]


def _gen_float(rng):
    """oracle-only stream: small deployments whose route / hosting costs are decimal or non-dyadic floats
    (partial sums not exactly representable), ample to medium capacity, always run to quiescence"""
    na = rng.choice([3, 3, 3, 4, 4, 5])
    agents = []
    cid = 0
    for i in range(na):
        comps = []
        for _c in range(1 if rng.random() < 0.75 else 2):
            comps.append([cid, rng.choice([1, 2, 3, 5, 0.5, 1.5, 2.5]), []])
            cid += 1
        agents.append(dict(comps=comps))
    allc = [(i, c[0]) for i, a in enumerate(agents) for c in a["comps"]]
    ncomp = len(allc)
    links = {c: set() for _, c in allc}
    shape = rng.choice(["line", "line", "random"])
    for x in range(ncomp - 1):                      # a chain, so that replicas have to travel 2+ hops
        links[x].add(x + 1)
        links[x + 1].add(x)
    if shape == "random":
        for x in range(ncomp):
            for y in range(x + 2, ncomp):
                if rng.random() < 0.3:
                    links[x].add(y)
                    links[y].add(x)
    for a in agents:
        for c in a["comps"]:
            l = sorted(links[c[0]])
            rng.shuffle(l)
            c[2] = l
    droute = rng.choice(_FLOAT_COSTS + [1])
    mat = [[droute] * na for _ in range(na)]
    for i in range(na):
        for j in range(i + 1, na):
            if rng.random() < 0.8:
                mat[i][j] = mat[j][i] = rng.choice(_FLOAT_COSTS)
    for i, a in enumerate(agents):
        a["droute"] = droute
        a["routes"] = {str(j): mat[i][j] for j in range(na) if j != i and mat[i][j] != droute}
        a["dhost"] = rng.choice([0, 0, 0.1, 0.2, 1 / 3, 0.7])
        a["hosting"] = {str(c): rng.choice(_FLOAT_COSTS + [0]) for _, c in allc if rng.random() < 0.4}
        own = sum(c[1] for c in a["comps"])
        a["cap"] = own + rng.choice([3, 6, 10, 20, 40, 40])
    return dict(agents=agents, k=rng.randint(1, 3), sym=True, graph_sym=True, seed=rng.randrange(10 ** 9),
                full=True, steps=1500, float=True)


def gen(rng, n, tier):
    cases = []
    for _ in range(n):
        if rng.random() < 0.07:
            cases.append(_gen_float(rng))
            continue
        na = rng.choice([2, 3, 3, 4, 4, 5, 5, 6])
        agents = []
        cid = 0
        for i in range(na):
            r = rng.random()
            nc = 0 if r < 0.04 else (1 if r < 0.55 else 2)
            comps = []
            for _c in range(nc):
                comps.append([cid, rng.randint(1, 10), []])
                cid += 1
            agents.append(dict(comps=comps))
        allc = [(i, c[0]) for i, a in enumerate(agents) for c in a["comps"]]
        ncomp = len(allc)
        p = rng.choice([0.25, 0.4, 0.6, 0.9])
        links = {c: set() for _, c in allc}
        for x in range(ncomp):
            for y in range(x + 1, ncomp):
                if rng.random() < p or (y == x + 1 and rng.random() < 0.8):
                    links[x].add(y)
                    links[y].add(x)
        graph_sym = True
        if rng.random() < 0.08 and ncomp >= 2:
            x = rng.randrange(ncomp)
            if links[x]:
                links[x].discard(rng.choice(sorted(links[x])))
                graph_sym = False
        for a in agents:
            for c in a["comps"]:
                l = sorted(links[c[0]])
                rng.shuffle(l)
                c[2] = l
        droute = rng.randint(0, 6)
        sym = rng.random() < 0.9
        if sym and rng.random() < 0.03:
            droute = -rng.randint(1, 3)      # loadable (the YAML loader only checks symmetry): finding C25-negative-route-assert
        mat = [[droute] * na for _ in range(na)]
        for i in range(na):
            for j in range(i + 1, na):
                if rng.random() < 0.7:
                    mat[i][j] = mat[j][i] = rng.randint(0, 9)
                    if not sym and rng.random() < 0.5:
                        mat[j][i] = rng.randint(0, 9)
        tight = rng.choice(["tight", "mid", "loose"])
        for i, a in enumerate(agents):
            a["droute"] = droute
            a["routes"] = {str(j): mat[i][j] for j in range(na) if j != i and mat[i][j] != droute}
            a["dhost"] = rng.randint(0, 8)
            a["hosting"] = {str(c): rng.randint(0, 12) for _, c in allc if rng.random() < 0.4}
            own = sum(c[1] for c in a["comps"])
            slack = {"tight": rng.randint(0, 12), "mid": rng.randint(0, 30), "loose": rng.randint(20, 80)}[tight]
            a["cap"] = own + slack
        if rng.random() < 0.07:
            # outside the wf hypothesis of the theorems (own computations fit the capacity): capacity 0, or a
            # capacity below the agent's own footprint (negative remaining capacity); model-validation + oracle
            for i in rng.sample(range(na), rng.choice([1, 1, 2, na])):
                own = sum(c[1] for c in agents[i]["comps"])
                agents[i]["cap"] = 0 if (own == 0 or rng.random() < 0.6) else own - rng.randint(1, own)
        full = rng.random() < 0.75
        cases.append(dict(agents=agents, k=rng.randint(1, 3), sym=sym, graph_sym=graph_sym,
                          seed=rng.randrange(10 ** 9), full=full,
                          steps=4000 if full else rng.randint(3, 60)))
    return cases


# ------------------------------------------------------------------ implementation driver
def _policy_pick(rng, acts, policy, last, starve):
    if policy == "drain" and last is not None and last in acts and rng.random() < 0.9:
        return last
    if policy == "newest":
        d = [a for a in acts if a[0] == "D"]
        if d and rng.random() < 0.8:
            return rng.choice(d[-2:])
    if policy == "startlate":
        d = [a for a in acts if a[0] == "D"]
        if d and rng.random() < 0.85:
            return rng.choice(d)
    if policy == "starve":
        o = [a for a in acts if a[-1] != starve]
        if o and rng.random() < 0.95:
            return rng.choice(o)
    return rng.choice(acts)


def run_impl(c):
    import logging
    import random
    logging.disable(logging.CRITICAL)
    from pydcop.infrastructure.agents import ResilientAgent
    from pydcop.infrastructure.communication import InProcessCommunicationLayer
    from pydcop.infrastructure.computations import MessagePassingComputation, Message
    from pydcop.dcop.objects import AgentDef
    from pydcop.algorithms import ComputationDef, AlgorithmDef
    from pydcop.computations_graph.objects import ComputationNode
    from pydcop.replication.dist_ucs_hostingcosts import UCSReplication
    from harness.pydrv.netdriver import NetDriver

    # per-process state of the class (a fresh process per deployment is what the runtime has)
    if isinstance(getattr(UCSReplication, "memoize_footprint", None), dict):
        UCSReplication.memoize_footprint.clear()

    class Hosted(MessagePassingComputation):
        def __init__(self, name, fp, nbrs):
            super().__init__(name)
            self.computation_def = ComputationDef(ComputationNode(name, "verif", neighbors=list(nbrs)),
                                                  AlgorithmDef("dsa", {}))
            self._fp = fp

        def footprint(self):
            return self._fp

    class Orchestrator(MessagePassingComputation):
        def __init__(self, targets, k):
            super().__init__("orch")
            self._targets = targets
            self._k = k

        def on_start(self):
            for t in self._targets:
                self.post_msg(t, Message("verif_replicate", self._k))

    spec = c["agents"]
    na = len(spec)
    owner = {cc[0]: i for i, a in enumerate(spec) for cc in a["comps"]}
    agents = {}
    for i, a in enumerate(spec):
        ad = AgentDef(an(i), default_route=a["droute"], routes={an(int(j)): v for j, v in a["routes"].items()},
                      default_hosting_cost=a["dhost"],
                      hosting_costs={cn(int(cc)): v for cc, v in a["hosting"].items()}, capacity=a["cap"])
        agents[i] = ResilientAgent(an(i), InProcessCommunicationLayer(), ad, replication="dist_ucs_hostingcosts")
    for i, ag in agents.items():
        for j in agents:
            if i != j:
                ag.discovery.register_agent(an(j), "addr_" + an(j), publish=False)
        for cc, o in owner.items():
            if o != i:
                ag.discovery.register_computation(cn(cc), an(o), publish=False)
    for i, a in enumerate(spec):
        for cc, fp, nb in a["comps"]:
            agents[i].add_computation(Hosted(cn(cc), fp, [cn(x) for x in nb]))

    log = []
    rejects = [0]
    comps = {}
    for i, ag in agents.items():
        rc = ag.replication_comp
        comps[rc.name] = rc

        def accept(origin, comp_def, footprint, _rc=rc, _o=rc._accept_replica, _i=i):
            log.append(["accept", _i, int(comp_def.name[1:]), int(origin[1:]), footprint,
                        [[int(k[1:]), int(v[0][1:]), v[1]] for k, v in _rc._hosted_replicas.items()]])
            return _o(origin, comp_def, footprint)
        rc._accept_replica = accept

        def replicated(computation, hosts, _o=rc.computation_replicated, _i=i):
            log.append(["repl", _i, int(computation[1:]), [int(h[1:]) for h in hosts]])
            return _o(computation, hosts)
        rc.computation_replicated = replicated

        def done(hosts, _o=rc.replication_done, _i=i):
            log.append(["done", _i, sorted([int(k[1:]), sorted(int(h[1:]) for h in v)] for k, v in hosts.items())])
            return _o(hosts)
        rc.replication_done = done

        def can_host(agent, computation, footprint, _rc=rc, _o=rc._can_host):
            r = _o(agent, computation, footprint)
            if not r and computation not in _rc._hosted_replicas:
                rejects[0] += 1
            return r
        rc._can_host = can_host
        rc._msg_handlers["verif_replicate"] = (lambda s, m, t, _ag=ag: _ag.replicate(m.content))
    comps["orch"] = Orchestrator([rn(i) for i in range(na)], c["k"])
    drv = NetDriver(comps)
    kinds = {"AssertionError": 1, "IndexError": 2, "ValueError": 3, "KeyError": 4}
    rng = random.Random(c["seed"])
    policy = rng.choice(["uniform", "uniform", "drain", "newest", "startlate", "starve"])
    starve = rng.choice(sorted(comps))
    early_orch = rng.random() < 0.3
    held = {n_: 0 for n_ in comps}
    last = None
    steps = 0
    while steps < c["steps"]:
        acts = []
        for a in drv.enabled():
            if a[0] == "D" and a[2] not in drv.started:
                if held[a[2]] >= 1:
                    continue        # keep at most one held message per not-yet-started node
            if a[0] == "S" and a[1] == "orch" and not early_orch and len(drv.started) < na:
                continue            # usually the orchestrator asks for replication once agents run
            acts.append(a)
        if not acts:
            break
        a = _policy_pick(rng, acts, policy, last, starve)
        last = a
        if a[0] == "D" and a[2] not in drv.started:
            held[a[2]] += 1
        ne = len(drv.events)
        drv.do(a)
        for e in drv.events[ne:]:
            if e[0] == "raise":
                log.append(["raise", ORCH if e[1] == "orch" else int(e[1][-2:]), kinds.get(e[2], 0), e[2] + ": " + e[3]])
        steps += 1
    quiescent = not drv.enabled()

    def tok(m):
        if m.type == "verif_replicate":
            return ["replicate", m.content]
        return [m.rep_msg_type, m.budget, m.spent, [_pid(x) for x in m.rq_path],
                [[cost, [_pid(x) for x in p]] for cost, p in m.paths], [_pid(x) for x in m.visited],
                int(m.computation_def.name[1:]), m.footprint, m.replica_count, [_pid(x) for x in m.hosts]]
    inflight = []
    for (s, d), ql in sorted(drv.chans.items()):
        inflight.append([_nid(s), _nid(d), [tok(m) for m in ql]])
    st = []
    for i, ag in agents.items():
        rc = ag.replication_comp
        st.append(dict(
            hosted=[[int(k[1:]), int(v[0][1:]), v[1]] for k, v in rc._hosted_replicas.items()],
            rhosts=sorted([int(k[1:]), sorted(int(h[1:]) for h in v)] for k, v in rc._replica_hosts.items()),
            inprog=[[int(k[1:]), v] for k, v in rc._replication_in_progress.replicating.items()],
            pending=sorted([int(k[0][1:]), int(k[1][1:])] for k in rc._pending_requests),
            replicas=sorted(int(k[1:]) for k in rc.replicas),
            discovery=sorted(int(k[1:]) for k, v in ag.discovery._replicas_data.items() if an(i) in v),
            remaining=rc._remaining_capacity(),
            running=rc.is_running))
    return dict(log=log, sched=[[a[0]] + [_nid(x) for x in a[1:]] for a in drv.schedule], state=st,
                inflight=inflight, quiescent=quiescent, steps=steps, policy=policy, rejects=rejects[0])


def _pid(x):
    return HOSTING if x == "__hosting__" else int(x[1:])


def _nid(name):
    return ORCH if name == "orch" else int(name[-2:])


# ------------------------------------------------------------------ oracle (independent statement of C25)
def _worst(hosted, m):
    """max over sets of at most m owners of the total footprint of the replicas held for them"""
    owners = sorted({o for _, o, _ in hosted})
    best = 0
    for r in range(0, min(m, len(owners)) + 1):
        for sel in itertools.combinations(owners, r):
            best = max(best, sum(f for _, o, f in hosted if o in sel))
    return best


def oracle(c, o):
    spec = c["agents"]
    na = len(spec)
    k = c["k"]
    from fractions import Fraction as _F
    X = _F if c.get("float") else (lambda v: v)      # float stream: exact arithmetic on the actual floats
    fp = {cc[0]: cc[1] for a in spec for cc in a["comps"]}
    owner = {cc[0]: i for i, a in enumerate(spec) for cc in a["comps"]}
    remaining = {i: X(a["cap"]) - sum(X(cc[1]) for cc in a["comps"]) for i, a in enumerate(spec)}
    hyp = c["sym"]          # route costs symmetric (what a DCOP definition guarantees)
    raises = [e for e in o["log"] if e[0] == "raise"]
    if raises and hyp:
        return "handler raised %s at agent %s" % (raises[0][3], raises[0][1])
    # --- acceptance test
    for e in o["log"]:
        if e[0] != "accept":
            continue
        _, h, comp, own, f, before = e
        if comp in [b[0] for b in before]:
            return "agent %d accepted a second replica of c%02d" % (h, comp)
        if own != owner.get(comp) or f != fp.get(comp):
            return "agent %d recorded replica c%02d with owner %s footprint %s" % (h, comp, own, f)
        need = X(f) + _worst([[b[0], b[1], X(b[2])] for b in before], k - 1)
        if remaining[h] < need:
            return ("agent %d accepted c%02d (footprint %s) with remaining capacity %s < %s = footprint + "
                    "worst case for %d owners of %s" % (h, comp, f, remaining[h], need, k - 1, before))
        if h == own:
            return "owner %d accepted a replica of its own computation c%02d" % (h, comp)
    # --- placement
    hosters = {}
    for i, st in enumerate(o["state"]):
        for comp, own, f in st["hosted"]:
            hosters.setdefault(comp, []).append(i)
            if comp not in st["discovery"]:
                return "agent %d holds a replica of c%02d that its discovery does not record" % (i, comp)
            if comp not in st["replicas"]:
                return "agent %d holds a replica of c%02d without its definition" % (i, comp)
        if sorted(st["discovery"]) != sorted(x[0] for x in st["hosted"]):
            return "agent %d: discovery replica registrations %s != hosted %s" % (i, st["discovery"], st["hosted"])
    for comp, hs in hosters.items():
        if len(hs) > k:
            return "c%02d has %d replicas > k=%d" % (comp, len(hs), k)
        if owner[comp] in hs:
            return "c%02d has a replica on its owner" % comp
    for e in o["log"]:
        if e[0] == "repl":
            _, i, comp, hs = e
            if len(set(hs)) != len(hs):
                return "c%02d reported on duplicate hosts %s" % (comp, hs)
            if owner.get(comp) != i:
                return "agent %d reported replication of c%02d which it does not own" % (i, comp)
            if sorted(hs) != sorted(hosters.get(comp, [])):
                return "c%02d reported on %s but held by %s" % (comp, hs, hosters.get(comp, []))
    dones = {}
    for e in o["log"]:
        if e[0] == "done":
            if e[1] in dones:
                return "agent %d reported replication done twice" % e[1]
            dones[e[1]] = e[2]
            for comp, hs in e[2]:
                if owner.get(comp) != e[1] or len(hs) > k or e[1] in hs:
                    return "agent %d done report %s breaks owner/k" % (e[1], e[2])
                if sorted(hs) != sorted(hosters.get(comp, [])):
                    return "agent %d reports c%02d on %s, held by %s" % (e[1], comp, hs, hosters.get(comp, []))
    # --- termination
    if c["full"] and hyp:
        if not o["quiescent"]:
            return "replication still exchanging messages after %d deliveries" % o["steps"]
        for i in range(na):
            if i not in dones:
                return "agent %d never reported replication done (quiescent network)" % i
        for i, st in enumerate(o["state"]):
            if st["inprog"] and _has_neighbors(spec, owner, i):
                return "agent %d still has replications in progress %s" % (i, st["inprog"])
    return None


def _has_neighbors(spec, owner, i):
    own = {cc[0] for cc in spec[i]["comps"]}
    return any(nb not in own for cc in spec[i]["comps"] for nb in cc[2])


# ------------------------------------------------------------------ Gallina
def _cfg(c):
    ags = []
    for a in c["agents"]:
        comps = q.lst(["(%s, %s, %s)" % (q.z(cc[0]), q.z(cc[1]), q.zlist(cc[2])) for cc in a["comps"]])
        ags.append("mkA %s %s %s %s %s %s" % (q.z(a["cap"]), comps, q.z(a["droute"]),
                                              q.zzdict([(int(j), v) for j, v in a["routes"].items()]),
                                              q.z(a["dhost"]),
                                              q.zzdict([(int(j), v) for j, v in a["hosting"].items()])))
    return "(mkCfg %s %s %s)" % (q.lst(ags), q.z(c["k"]), q.z(K_TARGET))


def _hosted(l):
    return q.lst(["(%s, (%s, %s))" % (q.z(x[0]), q.z(x[1]), q.z(x[2])) for x in l])


def _rh(l):
    return q.lst([q.pair(q.z(x[0]), q.zlist(x[1])) for x in l])


def _msg(m):
    if m[0] == "replicate":
        return "MReplicate %s" % q.z(m[1])
    t = "(mkTok %s %s %s %s %s %s %s %s %s)" % (
        q.z(m[1]), q.z(m[2]), q.zlist(m[3]), q.lst([q.pair(q.z(cst), q.zlist(p)) for cst, p in m[4]]),
        q.zlist(m[5]), q.z(m[6]), q.z(m[7]), q.z(m[8]), q.zlist(m[9]))
    return ("MRequest " if m[0] == "replicate_request" else "MAnswer ") + t


def coq_case(c, o):
    if c.get("float"):
        return None          # float costs: not modelled (the model has integer costs), oracle only
    for e in o["log"]:
        if e[0] == "raise" and e[2] == 0:
            return None
    sched = q.lst(["Start %s" % q.z(a[1]) if a[0] == "S" else "Deliver %s %s" % (q.z(a[1]), q.z(a[2]))
                   for a in o["sched"]])
    evs = []
    for e in o["log"]:
        if e[0] == "accept":
            evs.append("EvAccept %s %s %s %s %s" % (q.z(e[1]), q.z(e[2]), q.z(e[3]), q.z(e[4]), _hosted(e[5])))
        elif e[0] == "repl":
            evs.append("EvRepl %s %s %s" % (q.z(e[1]), q.z(e[2]), q.zlist(e[3])))
        elif e[0] == "done":
            evs.append("EvDone %s %s" % (q.z(e[1]), _rh(e[2])))
        else:
            evs.append("EvRaise %s %s" % (q.z(e[1]), q.z(e[2])))
    st = o["state"]
    hosted = q.lst([q.pair(q.z(i), _hosted(s["hosted"])) for i, s in enumerate(st)])
    rhosts = q.lst([q.pair(q.z(i), _rh(s["rhosts"])) for i, s in enumerate(st)])
    inprog = q.lst([q.pair(q.z(i), q.zzdict([(x[0], x[1]) for x in s["inprog"]])) for i, s in enumerate(st)])
    pending = q.lst([q.pair(q.z(i), q.zzdict([(x[0], x[1]) for x in s["pending"]])) for i, s in enumerate(st)])
    infl = q.lst(["(%s, %s, %s)" % (q.z(s), q.z(d), q.lst([_msg(m) for m in l])) for s, d, l in o["inflight"]])
    return "mkCase %s %s %s %s %s %s %s %s" % (_cfg(c), sched, q.lst(evs), hosted, rhosts, inprog, pending, infl)


def nontrivial(c, o):
    return any(e[0] == "accept" for e in o.get("log", []))


def histogram(cases, obs):
    h = {"full_runs": 0, "cut_runs": 0, "asym_routes": 0, "asym_graph": 0, "accepts": 0, "rejects_capacity": 0,
         "raises": 0, "done_reports": 0, "max_steps": 0, "under_replicated": 0, "k1": 0, "k2": 0, "k3": 0,
         "deliveries": 0}
    for c, o in zip(cases, obs):
        if "log" not in o:
            continue
        h["full_runs" if c["full"] else "cut_runs"] += 1
        h["asym_routes"] += 0 if c["sym"] else 1
        h["asym_graph"] += 0 if c["graph_sym"] else 1
        h["k%d" % c["k"]] += 1
        h["max_steps"] = max(h["max_steps"], o["steps"])
        h["deliveries"] += o["steps"]
        h["rejects_capacity"] += o.get("rejects", 0)
        for e in o["log"]:
            if e[0] == "accept":
                h["accepts"] += 1
            elif e[0] == "raise":
                h["raises"] += 1
            elif e[0] == "done":
                h["done_reports"] += 1
                h["under_replicated"] += sum(1 for _, hs in e[2] if len(hs) < c["k"])
    return h


def _neg_route(c):
    return any(a["droute"] < 0 or any(v < 0 for v in a["routes"].values()) for a in c["agents"])


def classify(c, o, msg):
    # a negative route cost (accepted by the YAML loader, symmetric) makes budget/spent negative:
    # UCSReplicateMessage.__init__ asserts, the handler dies and the token of that computation is lost
    if c["sym"] and _neg_route(c) and isinstance(msg, str) and msg.startswith("handler raised AssertionError"):
        return "C25-negative-route-assert"
    return None


def shrink_candidates(c):
    import copy
    # drop the last agent (and links to its computations), lower k, shorten
    if len(c["agents"]) > 2:
        d = copy.deepcopy(c)
        gone = {cc[0] for cc in d["agents"][-1]["comps"]}
        d["agents"].pop()
        n = len(d["agents"])
        for a in d["agents"]:
            a["routes"] = {j: v for j, v in a["routes"].items() if int(j) < n}
            a["hosting"] = {j: v for j, v in a["hosting"].items() if int(j) not in gone}
            for cc in a["comps"]:
                cc[2] = [x for x in cc[2] if x not in gone]
        yield d
    if c["k"] > 1:
        d = copy.deepcopy(c)
        d["k"] -= 1
        yield d
    for i, a in enumerate(c["agents"]):
        for j, cc in enumerate(a["comps"]):
            if len(cc[2]) > 1:
                d = copy.deepcopy(c)
                x = d["agents"][i]["comps"][j][2].pop()
                for b in d["agents"]:
                    for c2 in b["comps"]:
                        if c2[0] == x and cc[0] in c2[2]:
                            c2[2].remove(cc[0])
                yield d

