"""C24 -- optimal (ILP) distribution methods return cost-minimal distributions."""
import itertools
from harness import coqio as q
from harness.props import _dist_common as dc
from harness.props import _ilp_rows as ir

ID = "C24"
COQ_REQUIRE = ["M_Dist", "M_Ilp", "M_IlpRows"]
COQ_CASE_TYPE = "M_IlpRows.case"
COQ_CHECK = "M_IlpRows.check_case"
OBLIGATIONS = ["oilp_feasible_iff_hard_rules", "fgdp_feasible_iff_hard_rules", "oilp_objective_is_cost",
               "fgdp_objective_is_cost", "oilp_optimal_is_min_cost", "fgdp_optimal_is_min_cost",
               "oilp_parallel_links_refuted", "fgdp_asymmetric_refuted",
               "oilp_rows_force_product", "oilp_rows_feasible_iff", "oilp_rows_encode_sat",
               "oilp_rows_objective_is_obj", "oilp_rows_optimal_is_min_cost",
               "fgdp_rows_force_product", "fgdp_rows_feasible_iff", "fgdp_rows_encode_sat",
               "fgdp_rows_objective_is_obj", "fgdp_rows_optimal_is_min_cost",
               "oilp_guardsb_sound", "fgdp_guardsb_sound"]
RULE = ("seeded random tiny instances (<= 5 computations, <= 3 agents; real graph builders; oilp_cgdp on all "
        "four graph models, ilp_fgdp on factor graphs), arbitrary footprints/capacities/hosting costs (incl. "
        "zeros = pinning, default 0)/routes, symmetric communication loads in 75% of the cases; the real "
        "distribute() runs with CBC substituted for GLPK; the PuLP problem is captured at solve() and evaluated "
        "at every distribution of the instance (<= 81, evenly sampled above); distribution_cost is called on each; "
        "30% of the cases give agents a route entry for their own name (full route matrix; the route to itself "
        "stays 0); 25% of the multi-agent cases are preceded, in the same process, by a warm-up distribute() on a "
        "problem with the same names in which everything is pinned on the first agent (second use must leave no "
        "trace); harness/corpus/C24.json holds hand-made cases (self-route, pinned footprint above capacity, warm-up); "
        "non-trivial = >= 2 computations and >= 2 agents; distinct = distinct case JSON")
MODELLED = ("theorems: ILP feasibility at an integral point = the hard rules; objective = distribution_cost "
            "(oilp: when no ordered pair of computations is shared by two links; fgdp: symmetric loads, up to a "
            "constant); hence an optimal ILP solution is cost-minimal (solver = oracle); both guards are shown "
            "necessary by refutation witnesses. Row level (M_IlpRows, theorems *_rows_*): the constraint rows and "
            "objective coefficients both methods post are modelled one record per row; proved for all instances: "
            "the rows force every beta/alpha to the product of its x/f variables, a 0/1 vector satisfies the rows "
            "iff its x part is the indicator of a distribution meeting the hard rules (+ products), the linear "
            "objective at such a vector is the integral-point objective, hence a rows-optimal solver answer "
            "decodes to a cost-minimal distribution. Correspondence (not theorems): the modelled rows/objective "
            "equal the captured PuLP problem row by row (coefficient sets, sense, rhs; objective coefficients as "
            "exact integers); the semantic evaluation of the captured problem at each distribution equals the "
            "model's; distribution_cost equals the model's on each distribution; the theorem guards hold on every "
            "generated instance; the oracle checks rows vs hard rules at every distribution and compares the "
            "returned distribution with brute-force enumeration.")
META = dict(
    level_text=("Proof (Coq) that, in the model of oilp_cgdp and ilp_fgdp (hard rules, both distribution_cost "
                "functions, ILP objective at integral points incl. the per-pair de-duplication of beta variables), "
                "an optimal solution of the ILP is cost-minimal among all distributions satisfying the method's "
                "hard rules, for all instances meeting the stated guards (no pair of computations shared by two "
                "links / symmetric loads), with the solver as an explicit oracle; without the guards the statement "
                "is refuted (two known findings). The model is tied to /repo on every check by evaluating the real "
                "PuLP problem and the real distribution_cost at every distribution of generated tiny instances, by a "
                "row-by-row comparison of the modelled constraint rows and objective with the captured problem, and "
                "by a brute-force optimality oracle on the returned distribution."),
    level_note=("The row-level structure of both ILPs (pinning, capacity, hosted-once, at-least-one and linearisation "
                "rows incl. the pinned-end shortcuts, objective coefficients) is modelled row by row, compared with "
                "the captured PuLP problem on every case, and the reduction rows -> hard rules / products / "
                "objective is proved for all instances (guards: distinct agent names, links join computations of "
                "the graph; ilp_fgdp: factor-graph shape, no conflicting zero hosting costs). Costs are compared exactly as "
                "integers (comm, hosting); 0.8/0.2 weighting as 4*comm+hosting. Trusted: CBC as optimal-solution "
                "oracle (GLPK is absent), PuLP, Coq kernel/vm_compute, M_Ilp.v, harness."),
    technique="Coq proof over executable Gallina model + semantic comparison of the captured ILP + brute-force oracle",
    design_ref="DESIGN.md §5 C24",
)
TRUSTED = ["PuLP + its bundled CBC substituted for the absent GLPK in the driver process, as optimal-solution oracle"]
N_QUICK, N_THOROUGH = 150, 2500
PARALLEL = 8
SHARD = 25
MAXD = 81


def gen(rng, n, tier):
    cases = []
    for i in range(n):
        method = "oilp_cgdp" if rng.random() < 0.6 else "ilp_fgdp"
        while True:
            c = dc.gen_instance(rng, max_vars=3 if method == "ilp_fgdp" else 4, max_cons=3, max_agents=3,
                                graphs=["factor_graph"] if method == "ilp_fgdp" else dc.GRAPHS,
                                tight=rng.choice(["ample", "ample", "tight", "mixed"]),
                                hosting_style=rng.choice(["positive", "positive", "somezero", "somezero", "mixed", "default0"]))
            if len(dc.comp_names(c)) <= 5:
                break
        c["method"] = method
        c["sym"] = rng.random() < 0.75
        if c["sym"]:      # symmetric communication loads (what the algorithm modules provide)
            comps = dc.comp_names(c)
            for a in comps:
                for b_ in comps:
                    if a < b_:
                        k1, k2 = "%s|%s" % (a, b_), "%s|%s" % (b_, a)
                        v = c["load"].get(k1, c["load"].get(k2))
                        c["load"].pop(k1, None), c["load"].pop(k2, None)
                        if v is not None:
                            c["load"][k1] = c["load"][k2] = v
        # full route matrix including the diagonal (yaml `routes: {a1: {a1: 5, a2: 1}}`): the route of
        # an agent to itself is 0 whatever the table says
        if rng.random() < 0.3:
            for a in c["agents"]:
                if rng.random() < 0.7:
                    a["routes"][a["name"]] = rng.randint(1, 6)
        # second use in one process: an earlier distribute() on a problem with the same names, in which
        # every computation is pinned on the first agent, must leave no trace in this one
        c["warm"] = len(c["agents"]) >= 2 and rng.random() < 0.25
        cases.append(c)
    return cases


# ------------------------------------------------------------------ evaluating the captured ILP
def _primary(name):
    return name.startswith("x_") or name.startswith("f_")


def eval_ilp(pb, xvals):
    """value of the captured PuLP problem at a 0/1 assignment of its primary (x_/f_) variables:
    (feasible, objective coefficients hit) where auxiliary binaries (b_*/a_*) take the value the
    constraints force (each auxiliary variable only ever shares constraints with primary ones);
    a free auxiliary takes the value that minimises the objective.
    Returns (feasible, [(varname, coef)] of the objective terms that are 'on')."""
    aux_bounds = {}
    for v in pb.variables():
        if not _primary(v.name):
            aux_bounds[v.name] = [0, 1]
    for cons in pb.constraints.values():
        const = cons.constant
        aux = []
        for v, coef in cons.items():
            if _primary(v.name):
                const += coef * xvals[v.name]
            else:
                aux.append((v.name, coef))
        if not aux:
            ok = (const == 0) if cons.sense == 0 else (const <= 0 if cons.sense == -1 else const >= 0)
            if not ok:
                return False, None
            continue
        if len(aux) != 1:
            raise RuntimeError("constraint couples auxiliary variables: %s" % cons)
        name, coef = aux[0]
        lo, hi = aux_bounds[name]
        for val in (0, 1):
            lhs = coef * val + const
            ok = (lhs == 0) if cons.sense == 0 else (lhs <= 0 if cons.sense == -1 else lhs >= 0)
            if not ok:
                if val == 0:
                    lo = max(lo, 1)
                else:
                    hi = min(hi, 0)
        aux_bounds[name] = [lo, hi]
    for name, (lo, hi) in aux_bounds.items():
        if lo > hi:
            return False, None
    on = []
    obj = pb.objective
    for v, coef in obj.items():
        if _primary(v.name):
            if xvals[v.name] == 1:
                on.append((v.name, coef))
        else:
            lo, hi = aux_bounds[v.name]
            val = lo if lo == hi else (0 if coef >= 0 else 1)
            if val == 1:
                on.append((v.name, coef))
    return True, on


def all_dists(comps, agents, limit=MAXD):
    prod = list(itertools.product(range(len(agents)), repeat=len(comps)))
    if len(prod) > limit:
        step = len(prod) / float(limit)
        idx = sorted({int(k * step) for k in range(limit)})
    else:
        idx = list(range(len(prod)))
    return [(i, prod[i]) for i in idx]


def int_coef(coef, ratio):
    """objective coefficient -> the integer k with ratio * k == coef exactly as the code computes it"""
    k = int(round(coef / ratio))
    for kk in (k, k - 1, k + 1):
        if ratio * kk == coef:
            return kk
    raise ValueError("objective coefficient %r is not %r * integer" % (coef, ratio))


def _warm_up(c, cg, cm, cl):
    """an unrelated earlier call of the same method in this process: same computation and agent names,
    every computation pinned (zero hosting cost) on the first agent, ample capacity; its outcome is ignored"""
    from pydcop.dcop.objects import AgentDef
    wa = [AgentDef(a["name"], capacity=10 ** 6, default_hosting_cost=0 if i == 0 else 1, default_route=1)
          for i, a in enumerate(c["agents"])]
    try:
        with dc.patched(c["method"], dc.Rnd(c)) as mod:
            mod.distribute(cg, wa, hints=None, computation_memory=cm, communication_load=cl)
    except Exception:
        pass


def run_impl(c):
    from pydcop.distribution.objects import Distribution
    dcop, cg, agents, hints, cm, cl = dc.build_objects(c)
    view = dc.graph_view(cg)
    rnd = dc.Rnd(c)
    cap = []
    if c.get("warm"):
        _warm_up(c, cg, cm, cl)
    try:
        with dc.patched(c["method"], rnd, capture=cap) as mod:
            dist = mod.distribute(cg, agents, hints=None, computation_memory=cm, communication_load=cl)
        res = dict(mapping=dc.canon_mapping(dist))
        cost = mod.distribution_cost(dist, cg, agents, cm, cl)
        res["cost"] = [cost[1], cost[2]]
    except Exception as e:
        res = dict(error=type(e).__name__, msg=str(e)[:200])
    mod = __import__("pydcop.distribution." + c["method"], fromlist=["x"])
    comps = [n[0] for n in view["nodes"]]
    anames = [a["name"] for a in c["agents"]]
    table = []
    pb = cap[0][0] if cap else None
    names = {v.name for v in pb.variables()} if pb is not None else set()
    for idx, D in all_dists(comps, anames):
        m = {a: [] for a in anames}
        for x, k in zip(comps, D):
            m[anames[k]].append(x)
        dd = Distribution({a: list(l) for a, l in m.items()})
        cst = mod.distribution_cost(dd, cg, agents, cm, cl)
        row = dict(i=idx, cost=[cst[1], cst[2]])
        if pb is not None:
            xv = {}
            consistent = True
            pre = "x_" if c["method"] == "oilp_cgdp" else None
            for x, k in zip(comps, D):
                for j, a in enumerate(anames):
                    p = pre or ("x_" if x[0] == "v" else "f_")
                    nm = "%s%s_%s" % (p, x, a)
                    if nm in names:
                        xv[nm] = 1 if j == k else 0
                    elif c["method"] == "ilp_fgdp":
                        pass
            # ilp_fgdp: a computation without x_/f_ variables is pre-hosted (fixed_dist) on the
            # agent whose hosting cost for it is 0; the ILP cannot express any other placement
            representable = True
            if c["method"] == "ilp_fgdp":
                for x, k in zip(comps, D):
                    if not any(("x_%s_%s" % (x, a)) in names or ("f_%s_%s" % (x, a)) in names for a in anames):
                        if agents[k].hosting_cost(x) != 0:
                            representable = False
            feas, on = eval_ilp(pb, xv) if representable else (False, None)
            row["feas"] = feas
            if feas:
                comm = host = 0
                for nm, coef in on:
                    if c["method"] == "oilp_cgdp":
                        if nm.startswith("x_"):
                            host += int_coef(coef, 1 - 0.8)
                        else:
                            comm += int_coef(coef, 0.8)
                    else:
                        comm += int(coef) if float(coef) == int(coef) else None
                row["obj"] = [comm, host]
        table.append(row)
    fixed = None
    if c["method"] == "ilp_fgdp" and pb is not None:
        # which computations the method pre-hosted (they have no x_/f_ variable)
        fixed = [x for x in comps if not any(("x_%s_%s" % (x, a)) in names or ("f_%s_%s" % (x, a)) in names
                                             for a in anames)]
    ilp = ir.capture(pb, c["method"], comps, anames, view["links"]) if pb is not None else None
    return dict(graph=view, result=res, table=table, captured=pb is not None, fixed=fixed,
                status=cap[0][1] if cap else None, ilp=ilp)


# ------------------------------------------------------------------ oracle: brute force, own cost model
def _agent_tables(c):
    A = c["agents"]
    names = [a["name"] for a in A]

    def hosting(k, comp):
        return A[k]["host"].get(comp, A[k]["dhost"])

    def route(k1, k2):
        if k1 == k2:
            return 0
        return A[k1]["routes"].get(names[k2], A[k1]["droute"])
    return names, hosting, route


def _load(c, a, b_):
    return c["load"].get("%s|%s" % (a, b_), c["dload"])


def spec_cost(c, o, D):
    """the method's cost of distribution D (dict comp -> agent index), from the case data only.
    oilp_cgdp: (comm, hosting), cost = 0.8 comm + 0.2 hosting ; ilp_fgdp: (comm, 0)"""
    names, hosting, route = _agent_tables(c)
    links = o["graph"]["links"]
    node_links = {n[0]: n[2] for n in o["graph"]["nodes"]}
    comm = 0
    for l in links:
        for c1, c2 in itertools.combinations(l, 2):
            if c["method"] == "oilp_cgdp":
                ml = sum(_load(c, c1, c2) for l2 in node_links[c1] if c2 in l2)
                comm += route(D[c1], D[c2]) * ml
            elif D[c1] != D[c2]:
                comm += _load(c, c1, c2)
    if c["method"] == "oilp_cgdp":
        return comm, sum(hosting(D[x], x) for x in D)
    return comm, 0


def hard_rules(c, o, D):
    names, hosting, route = _agent_tables(c)
    comps = [n[0] for n in o["graph"]["nodes"]]
    for k in range(len(names)):
        if sum(c["fp"][x] for x in comps if D[x] == k) > c["agents"][k]["capacity"]:
            return False
    for x in comps:
        for k in range(len(names)):
            if hosting(k, x) == 0 and D[x] != k:
                return False
    if c["method"] == "ilp_fgdp":
        for k in range(len(names)):
            if not any(D[x] == k for x in comps):
                return False
    return True


def scal(c, cost):
    return 4 * cost[0] + cost[1] if c["method"] == "oilp_cgdp" else cost[0]


def brute(c, o):
    comps = [n[0] for n in o["graph"]["nodes"]]
    na = len(c["agents"])
    best, arg = None, None
    for tup in itertools.product(range(na), repeat=len(comps)):
        D = dict(zip(comps, tup))
        if hard_rules(c, o, D):
            v = scal(c, spec_cost(c, o, D))
            if best is None or v < best:
                best, arg = v, D
    return best, arg


def rows_oracle(c, o):
    """row-level reading of the captured problem (see _ilp_rows.row_oracle)"""
    ilp = o.get("ilp")
    if ilp is None or "unmodelled" in ilp:
        return None
    comps = [n[0] for n in o["graph"]["nodes"]]
    anames = [a["name"] for a in c["agents"]]
    _, hosting, _ = _agent_tables(c)
    prod = list(itertools.product(range(len(anames)), repeat=len(comps)))

    def zero_agent(x):
        z = [k for k in range(len(anames)) if hosting(k, x) == 0]
        return z[0] if len(z) == 1 else None
    return ir.row_oracle(c["method"], ilp, comps, anames, [prod[r["i"]] for r in o["table"]],
                         lambda D: hard_rules(c, o, dict(zip(comps, D))), zero_agent)


def oracle(c, o):
    res = o["result"]
    comps = [n[0] for n in o["graph"]["nodes"]]
    names = [a["name"] for a in c["agents"]]
    best, arg = brute(c, o)
    msg = rows_oracle(c, o)
    if msg:
        return msg
    # the real distribution_cost agrees with the stated cost model on every listed distribution
    prod = None
    for row in o["table"]:
        if prod is None:
            prod = list(itertools.product(range(len(names)), repeat=len(comps)))
        D = dict(zip(comps, prod[row["i"]]))
        sc = spec_cost(c, o, D)
        if list(sc) != list(row["cost"]):
            return "distribution_cost of %s is %s, the cost model gives %s" % (D, row["cost"], list(sc))
    if "error" in res:
        if res["error"] == "TimeoutError":
            return None
        if res["error"] != "ImpossibleDistributionException":
            return "%s raised %s (%s)" % (c["method"], res["error"], res.get("msg"))
        if best is not None:
            return "declared impossible but %s satisfies the hard rules (cost %s)" % (arg, best)
        return None
    D = {}
    for a, l in res["mapping"].items():
        for x in l:
            D[x] = names.index(a)
    if sorted(D) != sorted(comps):
        return "returned mapping does not host every computation exactly once"
    if not hard_rules(c, o, D):
        return "returned distribution violates the method's hard rules: %s" % res["mapping"]
    got = scal(c, spec_cost(c, o, D))
    if list(spec_cost(c, o, D)) != list(res["cost"]):
        return "distribution_cost of the returned distribution is %s, cost model gives %s" % (res["cost"], spec_cost(c, o, D))
    if got != best:
        return "not cost-minimal: returned cost %s (x5: %d), but %s has %s (x5: %d)" % (
            res["cost"], got, arg, list(spec_cost(c, o, arg)), best)
    return None


def coq_case(c, o):
    from harness.props.C23 import inst_term
    comps = [n[0] for n in o["graph"]["nodes"]]
    names = [a["name"] for a in c["agents"]]
    G = "(mkG %s %s)" % (inst_term(c, o), q.lst([q.zlist([dc.cid(x) for x in l]) for l in o["graph"]["links"]]))
    prod = list(itertools.product(range(len(names)), repeat=len(comps)))
    rows = []
    for r in o["table"]:
        D = q.lst([q.pair(q.z(dc.cid(x)), q.z(k)) for x, k in zip(comps, prod[r["i"]])])
        feas = q.opt(r.get("feas"), q.b) if "feas" in r else "None"
        obj = "(Some %s)" % q.pair(q.z(r["obj"][0]), q.z(r["obj"][1])) if r.get("obj") else "None"
        rows.append("(mkRow %s %s %s %s)" % (D, q.pair(q.z(r["cost"][0]), q.z(r["cost"][1])), feas, obj))
    base = "(mkCase %s %s %s)" % ("MOilp" if c["method"] == "oilp_cgdp" else "MFgdp", G, q.lst(rows))
    ilp = o.get("ilp")
    if ilp is not None and "unmodelled" in ilp:
        return None
    return "(mkCaseR %s %s)" % (base, ir.obs_term(ilp))


# ------------------------------------------------------------------ known findings
def asym_links(c, o):
    return [l for l in o["graph"]["links"] if len(l) == 2 and _load(c, l[0], l[1]) != _load(c, l[1], l[0])]


def parallel_pairs(c, o):
    seen, dup = set(), []
    for l in o["graph"]["links"]:
        for p in itertools.combinations(l, 2):
            if p in seen:
                dup.append(p)
            seen.add(p)
    return dup


def classify(c, o, msg):
    if not msg.startswith("not cost-minimal"):
        return None
    if c["method"] == "ilp_fgdp" and asym_links(c, o):
        return "C24-ilp-fgdp-asymmetric-load"
    if c["method"] == "oilp_cgdp" and parallel_pairs(c, o):
        return "C24-oilp-parallel-links"
    return None


def nontrivial(c, o):
    return len(o["graph"]["nodes"]) >= 2 and len(c["agents"]) >= 2


def histogram(cases, obs):
    h = {}
    for c, o in zip(cases, obs):
        r = o.get("result", {})
        k = "%s/%s/%s" % (c["method"], c["graph"], "ok" if "mapping" in r else r.get("error", "driver"))
        h[k] = h.get(k, 0) + 1
    return h
