"""C04 -- a cycle with no MGM/MGM2 move means the assignment is 1-opt."""
from harness import coqio as q
from harness.pydrv import localsearch_drv as L

ID = "C04"
COQ_REQUIRE = ["Net", "M_Mgm", "M_Mgm2", "M_Mgm2r"]
COQ_CASE_TYPE = "lcase"
COQ_CHECK = "lcheck"
COQ_PREAMBLE = ("Inductive lcase := CMgm (c : M_Mgm.case) (r : M_Mgm.rcase) "
                "| CMgm2 (c : M_Mgm2.case2) (r : M_Mgm2r.r2case).\n"
                "Definition lcheck (c : lcase) : bool := match c with CMgm x r => M_Mgm.check_case x && "
                "M_Mgm.rcheck_case r | CMgm2 x r => M_Mgm2.check_case2 x && M_Mgm2r.r2check_case r end.")
OBLIGATIONS = ['mgm_no_move_1opt_partial', 'mgm_isolated_1opt', 'mgm_improvable_moves_partial', 'mgm2_no_move_1opt_refuted',
               'mgm_async_no_move_1opt', 'mgm2_no_commit_no_move_1opt_partial', 'mgm2_async_no_commit_no_move_1opt']
N_QUICK, N_THOROUGH = 300, 6000
PARALLEL = 8
SHARD = 40
RULE = ("random DCOPs of 1-6 variables (domains of 1-3 integer values), binary/ternary/unary constraints, duplicate "
        "scopes, isolated variables, own-cost variables in 0/30/60% of the variables, min/max, stop_cycle 2-7, mgm "
        "(break_mode lexic or, 40%, random: identical on the code as it is, whose test compares with the module) "
        "or mgm2 (threshold 0-1, three favor modes); real computations under seeded FIFO schedules from 6 policies, "
        "85% run to quiescence; all algorithm randomness replaced by a logged oracle. The oracle recomputes the "
        "global cost / the per-variable best responses at every cycle boundary of the real run. ~18% of the "
        "cases form an ORACLE-ONLY stream (mgm, not modelled in Coq): decimal / non-dyadic float costs (k/10, k/3, "
        "k/7, own costs 0.1/0.2, near-ties at rounding distance); there the oracle sums the exact rational values "
        "of the floats (no tolerance on sums) and demands: no two constraint-sharing variables move together "
        "(exactly), cost not worse / no unilateral improvement by more than 1e-9 * scale (the implementation's own "
        "float summation can differ from the exact gain by rounding); half of these instances have one "
        "unsatisfiable hard constraint (all entries +inf / -inf: gains inf - inf = nan). 15% of all cases run a "
        "startlate schedule with pause(True)/pause(False) of running computations (a stutter of the model: "
        "Pause/Resume and deliveries to a paused computation are not model actions; everybody is resumed before "
        "the observation); 12% use the names v0, v00, v000.. (every name a substring of the later ones, same "
        "lexical order); 30% of the cost dicts do not cover the whole domain (missing value = cost 0); a handler "
        "call that uses more than 20 s of CPU is reported as a raising handler (HandlerTimeout). "
        "non-trivial = a cycle that moves (C03) / an idle cycle (C04); distinct = distinct case JSON")
MODELLED = ("handler models of mgm.py / mgm2.py compared on full event traces, final states and channels; for MGM "
            "in addition the round-level function mgm_next (about which the theorems are) is iterated from the "
            "observed initial assignment with the observed draws and compared with the assignment at every cycle "
            "boundary of the asynchronous run. Theorems: round-level (all inputs) AND, since the deepening "
            "(P_Mgm3*.v), mgm_async_no_move_1opt about real asynchronous executions at cycle boundaries (the "
            "refinement to mgm_next is proved for every schedule); MGM2: refutation witness of the unguarded "
            "statement, plus (deepening 2, M_Mgm2r.v / P_Mgm2r.v) the ROUND-level function mgm2_next with the "
            "guarded theorem: a round without commitment in which nobody moves leaves a 1-opt assignment. The "
            "refinement of the asynchronous MGM2 handlers to mgm2_next is NOT a theorem: it is checked on every "
            "run (r2check_case: mgm2_next iterated from the observed initial assignment with the observed per-node "
            "draws equals the observed assignment at every cycle boundary of the real execution)")
META = dict(
    level_text=('Partial proof (Coq). Proved for every DCOP, min and max, all draws: if one complete MGM cycle (as a function on assignments) changes no value then no variable can improve the global cost by changing alone (variables without neighbour: by their start-time choice), and conversely an improvable variable forces some change. ALSO proved (deepening, P_Mgm3*.v): the refinement of the asynchronous handler model to the cycle function under EVERY schedule, hence mgm_async_no_move_1opt: if no variable changed its value between a reachable configuration where all computations have completed j cycles and one where they have completed j+1, no variable can improve the global cost alone - the full MGM statement (the refinement is additionally checked on every run by the round-level and full-trace correspondences). MGM2: refuted on the code as it is (theorem mgm2_no_move_1opt_refuted, known finding C04-mgm2-idle-after-commitment). Deepening 2: a round-level MGM2 function (mgm2_next, checked against the cycle-boundary assignments of every real MGM2 run, refinement to the handlers not proved) with the guarded theorem mgm2_no_commit_no_move_1opt_partial: in a round in which no node committed to a coordinated move, if no variable changes its value then no participating variable can improve the global cost alone (all DCOPs, min/max, all draws). Deepening 3 (P_Mgm2pA/B/C.v): the refinement of the asynchronous MGM2 handlers to mgm2_next is now proved for every schedule (Prop_C03.mgm2_refines_rounds / mgm2_payload_invariant), hence mgm2_async_no_commit_no_move_1opt: between any reachable configuration at cycle boundary j and any at boundary j+1, if nobody committed to a coordinated move in that cycle and no variable changed, no variable with a neighbour can improve the global cost alone.'),
    level_note=("Trusted: Coq kernel/vm_compute, M_Mgm.v / M_Mgm2.v + Net.v as renderings of the Python code, the "
                "thread-free netdriver, integer costs inside int32."),
    technique="Coq proof over an executable round-level model + round-level and full-trace correspondence",
    design_ref="DESIGN.md §5 C04",
)
ALGOS = ["mgm", "mgm2"]


def gen(rng, n, tier):
    return L.gen_cycle_cases(rng, n, ALGOS)


def run_impl(c):
    return L.run_case(c)


def oracle(c, o):
    for e in o["events"]:
        if e[0] == "raise":
            return "handler of v%02d raised %s: %s" % (e[1], e[2], e[3])
    m = L.check_1opt(c, o)
    if m is None:
        return None
    return "%s %s: no value changed in cycle %d but v%02d := %d alone takes the global cost from %s to %s" % (
        c["algo"], c["mode"], m["cycle"], m["var"], m["value"], m["before"], m["after"])


def coq_mgm2_rcase(c, o):
    """round-level MGM2 case (M_Mgm2r.r2case): threshold, favor, initial assignment, per-node draws from the
    first cycle on (the draw spent by on_start on the initial value removed), boundary assignments"""
    bs = L.boundaries(c, o)
    n = len(c["vars"])
    p = c["params"]
    head = "M_Mgm2r.mkR2Case %s %s %s" % (
        L.coq_dcop(c), q.z(round(p.get("threshold", 0.5) * 1000)),
        q.z(["unilateral", "no", "coordinated"].index(p.get("favor", "unilateral"))))
    if not bs:
        return head + " [] [] []"
    orcs = []
    for i in range(n):
        dr = list(o["draws"].get(str(i), []))
        if L.neighbours(c, i) and c["vars"][i].get("init") is None:
            dr = dr[1:]
        orcs.append(q.pair(q.z(i), q.zlist(dr)))
    asg = lambda a: q.lst([q.pair(q.z(i), q.z(a[i])) for i in range(n)])
    return head + " %s %s %s" % (asg(bs[0]), q.lst(orcs), q.lst([asg(a) for a in bs[1:]]))


def coq_case(c, o):
    if c.get("float"):
        return None          # oracle-only stream (non-integer costs): not modelled
    if c["algo"] == "mgm":
        return "CMgm (%s) (%s)" % (L.coq_mgm_case(c, o), L.coq_mgm_rcase(c, o))
    if c["algo"] == "mgm2":
        return "CMgm2 (%s) (%s)" % (L.coq_mgm2_case(c, o), coq_mgm2_rcase(c, o))
    return None


def nontrivial(c, o):
    bs = L.boundaries(c, o)
    return any(bs[i] == bs[i + 1] for i in range(len(bs) - 1))


def histogram(cases, obs):
    h = L.cycle_histogram(cases, obs)
    # coverage of the MGM2 round-level correspondence (M_Mgm2r.r2check_case)
    h["mgm2_round_boundaries_replayed"] = 0
    h["mgm2_coordinated_value_changes"] = 0
    for c, o in zip(cases, obs):
        if c["algo"] == "mgm2" and "events" in o:
            h["mgm2_round_boundaries_replayed"] += max(0, len(L.boundaries(c, o)) - 1)
            h["mgm2_coordinated_value_changes"] += sum(1 for e in o["events"] if e[0] == "val" and len(e) > 5)
    return h


def classify(c, o, msg):
    """C04-mgm2-idle-after-commitment: mgm2, the idle cycle is one in which some variable had committed to a
    coordinated move (it sent a go/no-go message in that cycle)"""
    if c["algo"] != "mgm2" or "no value changed in cycle" not in msg:
        return None
    m = L.check_1opt(c, o)
    if m and any(g[1] == m["cycle"] for g in o.get("gos", [])):
        return "C04-mgm2-idle-after-commitment"
    return None
