"""C04 -- a cycle with no MGM/MGM2 move means the assignment is 1-opt."""
from harness import coqio as q
from harness.pydrv import localsearch_drv as L

ID = "C04"
COQ_REQUIRE = ["Net", "M_Mgm", "M_Mgm2"]
COQ_CASE_TYPE = "lcase"
COQ_CHECK = "lcheck"
COQ_PREAMBLE = ("Inductive lcase := CMgm (c : M_Mgm.case) (r : M_Mgm.rcase) | CMgm2 (c : M_Mgm2.case2).\n"
                "Definition lcheck (c : lcase) : bool := match c with CMgm x r => M_Mgm.check_case x && "
                "M_Mgm.rcheck_case r | CMgm2 x => M_Mgm2.check_case2 x end.")
OBLIGATIONS = ['mgm_no_move_1opt_partial', 'mgm_isolated_1opt', 'mgm_improvable_moves_partial']
N_QUICK, N_THOROUGH = 300, 4000
PARALLEL = 8
SHARD = 40
RULE = ""
MODELLED = ""
META = dict(level_text="", level_note="", technique="", design_ref="DESIGN.md §5 C04")
ALGOS = ["mgm", "mgm2"]


def gen(rng, n, tier):
    return L.gen_cycle_cases(rng, n, ALGOS)


def run_impl(c):
    return L.run_case(c)


def oracle(c, o):
    for e in o["events"]:
        if e[0] == "raise":
            return "handler of v%02d raised %s: %s" % (e[1], e[2], e[3])
    m = L.check_1opt(c, o)
    if m is None:
        return None
    return "%s %s: no value changed in cycle %d but v%02d := %d alone takes the global cost from %d to %d" % (
        c["algo"], c["mode"], m["cycle"], m["var"], m["value"], m["before"], m["after"])


def coq_case(c, o):
    if c["algo"] == "mgm":
        return "CMgm (%s) (%s)" % (L.coq_mgm_case(c, o), L.coq_mgm_rcase(c, o))
    if c["algo"] == "mgm2":
        return "CMgm2 (%s)" % L.coq_mgm2_case(c, o)
    return None


def nontrivial(c, o):
    bs = L.boundaries(c, o)
    return any(bs[i] == bs[i + 1] for i in range(len(bs) - 1))


def histogram(cases, obs):
    return L.cycle_histogram(cases, obs)


def classify(c, o, msg):
    """C04-mgm2-idle-after-commitment: mgm2, the idle cycle is one in which some variable had committed to a
    coordinated move (it sent a go/no-go message in that cycle)"""
    if c["algo"] != "mgm2" or "no value changed in cycle" not in msg:
        return None
    m = L.check_1opt(c, o)
    if m and any(g[1] == m["cycle"] for g in o.get("gos", [])):
        return "C04-mgm2-idle-after-commitment"
    return None
