"""C11 -- relations evaluate and slice consistently with their definition.

One harness `case` is a BATCH: {"hs": PYTHONHASHSEED, "subs": [sub-case, ...]}.  run_impl starts a
fresh /venv/bin/python with that hash seed (the iteration order of ExpressionFunction.exp_vars, a
python set of str, depends on it), runs every sub-case against the real relation classes and
returns the observations.  The Gallina case type is `list M_RelKinds.case`.
"""
import json
import os
import subprocess
import sys

from harness import coqio as q

ID = "C11"
COQ_REQUIRE = ["M_RelKinds", "M_RelKinds2"]
COQ_CASE_TYPE = "list M_RelKinds2.case2"
COQ_CHECK = "(forallb M_RelKinds2.check_case2)"
OBLIGATIONS = ["call_forms_agree", "slice_spec", "slice_compose", "matrix_slice_order_irrelevant",
               "expr_value_set_order_irrelevant", "mk_fun_wf", "mk_mat_wf", "cond_slice_true_partial",
               "cond_slice_false_neutral_partial", "cond_false_zeroary_refuted",
               "cond_call_forms_agree", "call_forms_agree_all", "cond_slice_spec", "cond_slice_spec_no_neutral",
               "slice_spec_all", "cond_slice_compose", "slice_compose_all",
               "slice_exceptions_spec", "slice_succeeds_iff", "gv_dict_exceptions_spec", "gv_list_exceptions_spec",
               "call_kw_exceptions_spec", "slice_compose_exceptions", "slice_compose_succeeds",
               "cond_slice_exceptions_spec", "cond_gv_dict_exceptions_spec", "cond_slice_dims_exact"]
N_QUICK, N_THOROUGH = 100, 600         # batches of 10 sub-cases each
PARALLEL = 8
SHARD = 12
SUBS_PER_BATCH = 10
HASH_SEEDS = [0, 1, 2, 3]               # plus one "random" seed drawn per batch by the generator

RULE = ("seeded batches of ~10 sub-cases, each batch run in a fresh python under PYTHONHASHSEED in "
        "{0,1,2,3,random}; a sub-case = one relation of one of the 8 kinds (matrix, expression with "
        "f_kwargs True/False, python def, unary lambda, boolean, zero-ary, neutral, conditional over "
        "two of them) on <= 4 variables with domains of 1-3 ints, variables listed in random order, "
        "0-3 slicing steps on random sub-assignments (dict order shuffled), then all (at most 8 sampled) "
        "completions probed through r(**kw), r(*args), r(dict), get_value_for_assignment(dict|list); "
        "~15% malformed stream (unknown / out-of-domain / too many variables, wrong arity, shape "
        "mismatch), bad slicing steps also on ~6% of the well-formed steps, and ~10% exception-focused "
        "sub-cases (well-formed non-conditional relation keeping its variables, three kinds of malformed "
        "calls: missing / extra / out-of-domain / unknown). Slicing TREES: on valid chains ~50% of the "
        "intermediate relations are probed again AFTER all later slices were taken, and in ~40% a second, "
        "different slice is taken from an intermediate relation and probed (M_RelKinds2: the functional model "
        "predicts that slicing never changes the sliced relation). External definitions: ~30% of the "
        "expression relations are `source.cost(<params>)` over ExpressionFunction(source_file=...) / "
        "constraint_from_external_definition: 2-3 temporary python files define the same function name with "
        "different bodies, one relation is built per file with the same expression text, the relation under test "
        "is a random one of them; one more relation from another file is created before every relation of the "
        "chain is evaluated again (ground truth: the body written to that relation's own file). Caller-owned "
        "tables: ~35% of the matrix relations are built from a numpy ndarray (int8/16/32/64, float64) that the "
        "driver afterwards overwrites (buf[...] = other table, buf *= 2, buf.fill) and reuses for a next relation, "
        "then calls set_value_for_assignment on every relation of the chain, before the relation and the slices "
        "taken BEFORE the rewrite are evaluated again (ground truth: the table at construction time). non-trivial = at least one slicing step or >= 2 variables; distinct = distinct "
        "sub-case JSON")
MODELLED = ("all 8 relation kinds, construction (variable->argument mapping), the five call forms, slice "
            "and dimensions are modelled (M_RelKinds.v). Theorems (all orders of the variable list, all "
            "iteration orders of the expression's variable set): call_forms_agree, slice_spec, "
            "slice_compose, matrix_slice_order_irrelevant, expr_value_set_order_irrelevant for the 6 "
            "non-conditional kinds; conditional relations (P_RelKinds2): cond_call_forms_agree / "
            "call_forms_agree_all (all 8 kinds), cond_slice_spec / slice_spec_all (every partial assignment, "
            "deciding the condition or not, return_neutral=True; cond_slice_spec_no_neutral = every slice but "
            "the known finding), cond_slice_compose / slice_compose_all (nested partially sliced "
            "conditionals included), cond_false_zeroary_refuted; exceptions (P_RelKinds3): which malformed "
            "slice / dict call / list call / keyword call of a non-conditional relation raises which "
            "exception, as equivalences (slice_exceptions_spec, slice_succeeds_iff, gv_dict_exceptions_spec, "
            "gv_list_exceptions_spec, call_kw_exceptions_spec); the oracle restates these equivalences "
            "independently on the implementation; slice_compose_exceptions / slice_compose_succeeds: a second "
            "step fails iff the one-step slice fails, same exception; cond_slice_exceptions_spec / "
            "cond_gv_dict_exceptions_spec: exceptions of a conditional in terms of those of its parts "
            "(P_RelKinds4). Only the correspondence run checks: the list / positional call exceptions of "
            "conditional relations, construction failures")
META = dict(
    level_text=("Proof (Coq) about an executable model of pydcop/dcop/relations.py + "
                "utils/expressionfunction.py: for the matrix, expression, python-function, unary, boolean, "
                "zero-ary and neutral kinds the keyword, positional, dict and list call forms agree; slicing "
                "yields exactly the remaining variables and agrees with the original on every completion, in "
                "one step or several, for every order of the variable list and every iteration order of the "
                "expression's variable set (hash seed). Conditional relations (return_neutral=True): the call "
                "forms agree, and slicing on any partial assignment (deciding the condition or not, nested "
                "partially sliced conditionals included) yields a well-formed relation over exactly the "
                "remaining variables that agrees with the original on every completion, in one step or several; "
                "return_neutral=False: the same except for the slice of the known finding (refutation witness). "
                "For the non-conditional kinds the malformed slices and calls that raise, and the exception "
                "each raises, are characterised by equivalences. The model is "
                "tied to the code by a differential run under several PYTHONHASHSEED values on every check."),
    level_note=("Trusted: Coq kernel/vm_compute, the hand-written model M_RelKinds.v, the harness. "
                "Values are ints; expression bodies use + - * abs; variable names of one relation are "
                "pairwise distinct; a name shared by the condition and the consequence of a conditional "
                "denotes the same Variable; relations are named. Exceptions raised by conditional relations "
                "and by constructors rest on the correspondence run. See design_notes/C11.md."),
    technique="Coq proof over executable Gallina model + differential correspondence run under several hash seeds",
    design_ref="DESIGN.md §5 C11",
)

ERRS = {"ValueError": "EValue", "KeyError": "EKey", "TypeError": "EType", "AttributeError": "EAttr",
        "IndexError": "EIndex", "NameError": "EName"}


def name(i):
    """id -> python identifier; lexical order of the names = numeric order of the ids"""
    return "v%d" % i if i < 10 else "w%d" % (i - 10)


def ident(n):
    return int(n[1:]) + (10 if n[0] == "w" else 0)


# ------------------------------------------------------------------ expressions
def py_expr(e):
    t = e[0]
    if t == "c":
        return "(%d)" % e[1]
    if t == "v":
        return name(e[1])
    if t == "abs":
        return "abs(%s)" % py_expr(e[1])
    return "(%s %s %s)" % (py_expr(e[1]), t, py_expr(e[2]))


def coq_expr(e):
    t = e[0]
    if t == "c":
        return "(EC %s)" % q.z(e[1])
    if t == "v":
        return "(EV %s)" % q.z(e[1])
    if t == "abs":
        return "(EAbs %s)" % coq_expr(e[1])
    return "(%s %s %s)" % ({"+": "EAdd", "-": "ESub", "*": "EMul"}[t], coq_expr(e[1]), coq_expr(e[2]))


def expr_fv(e):
    t = e[0]
    if t == "c":
        return []
    if t == "v":
        return [e[1]]
    out = []
    for a in e[1:]:
        for n in expr_fv(a):
            if n not in out:
                out.append(n)
    return out


def gen_expr(rng, ids):
    """an expression in which every id of `ids` occurs, asymmetric in its variables"""
    coefs = [1, 2, 3, 5, 7, -1, -2]
    terms = []
    for i in ids:
        c = rng.choice(coefs)
        t = ["v", i] if c == 1 else ["*", ["c", c], ["v", i]]
        if rng.random() < 0.15:
            t = ["abs", t]
        terms.append(t)
    if not terms or rng.random() < 0.4:
        terms.append(["c", rng.randint(-3, 9)])
    rng.shuffle(terms)
    e = terms[0]
    for t in terms[1:]:
        op = rng.choice(["+", "-", "+", "-", "*"])
        e = [op, e, t]
    if rng.random() < 0.15:
        e = ["abs", e]
    return e


# ------------------------------------------------------------------ generator
VALUES = [-2, -1, 0, 1, 2, 3, 5]


def gen_bspec(rng, pool, kinds=None, malformed=False):
    k = rng.choice(kinds or ["mat", "mat", "expr", "expr", "expr", "py", "py", "unary", "bool", "zero", "neutral"])
    wf = True
    if k == "zero":
        return dict(k="zero", value=rng.choice([0, 0, 1, 4, -3])), wf
    if k == "bool":
        return dict(k="bool", v=rng.choice(pool)), wf
    if k == "unary":
        p = rng.choice([10, 11, rng.choice(pool)])
        return dict(k="unary", v=rng.choice(pool), param=p, body=gen_expr(rng, [p] if rng.random() < 0.9 else [])), wf
    n = rng.choice([0, 1, 2, 2, 3, 3, 4]) if len(pool) >= 4 else rng.randint(0, len(pool))
    n = min(n, len(pool))
    vs = rng.sample(pool, n)
    if k == "neutral":
        return dict(k="neutral", vars=vs), wf
    if k == "mat":
        spec = dict(k="mat", vars=vs, shape=None, data=None)             # filled by finish_spec (needs domains)
        if rng.random() < 0.35:
            # the table is given as a numpy ndarray OWNED BY THE CALLER, who later rewrites that buffer (and builds
            # another relation from it) before the relation and its earlier slices are evaluated again
            spec["nd"] = dict(dtype=rng.choice(["int8", "int16", "int32", "int64", "float64"]),
                              rewrite=rng.choice(["table", "table", "mul", "fill"]), seed=rng.randint(0, 10 ** 6))
        return spec, wf
    fkw = rng.random() < 0.6
    if fkw:
        params = list(vs)
    else:
        params = [rng.choice([10 + j, v]) for j, v in enumerate(vs)] if rng.random() < 0.5 else \
            [10 + j for j in range(len(vs))]
        if len(set(params)) != len(params):
            params = [10 + j for j in range(len(vs))]
    rng.shuffle(params)
    body = gen_expr(rng, params)
    vs = list(vs)
    rng.shuffle(vs)
    if malformed and vs and rng.random() < 0.5:
        wf = False
        if rng.random() < 0.5:
            vs = vs[:-1]
        else:
            extra = [v for v in pool if v not in vs]
            if extra:
                vs = vs + [rng.choice(extra)]
            else:
                vs = vs[:-1]
    spec = dict(k="fun", fk=("expr" if k == "expr" else "py"), params=params, body=body, vars=vs, fkw=fkw)
    if k == "expr" and rng.random() < 0.3:
        # external definition: the expression is `source.cost(<params>)`, `source` being a python file given to
        # ExpressionFunction(..., source_file=...).  Two or three files define the same function name with
        # different bodies; one relation is built per file, in order, with the SAME expression text; the
        # relation under test is number `which` (its definition is `body`)
        n = rng.choice([2, 2, 3])
        bodies = [gen_expr(rng, params) for _ in range(n)]
        which = rng.randrange(n)
        spec["body"] = bodies[which]
        spec["ext"] = dict(bodies=bodies, which=which,
                           cfed=bool(fkw and wf and rng.random() < 0.4))   # via constraint_from_external_definition
    return spec, wf


def spec_vars(s):
    if s["k"] == "cond":
        out = list(spec_vars(s["c"]))
        for v in spec_vars(s["t"]):
            if v not in out:
                out.append(v)
        return out
    if s["k"] in ("unary", "bool"):
        return [s["v"]]
    if s["k"] == "zero":
        return []
    return list(s["vars"])


def finish_spec(rng, s, doms, malformed):
    """matrix tables need the domains"""
    wf = True
    if s["k"] == "cond":
        a = finish_spec(rng, s["c"], doms, malformed)
        b = finish_spec(rng, s["t"], doms, malformed)
        return a and b
    if s["k"] == "mat":
        shape = [len(doms[str(v)]) for v in s["vars"]]
        if malformed and shape and rng.random() < 0.5:
            wf = False
            i = rng.randrange(len(shape))
            shape[i] = shape[i] + 1
        size = 1
        for d in shape:
            size *= d
        zero_rate = rng.choice([0.0, 0.3, 0.6])
        s["shape"] = shape
        s["data"] = [0 if rng.random() < zero_rate else rng.randint(-20, 99) for _ in range(size)]
    return wf


def gen_sub(rng):
    malformed = rng.random() < 0.15
    # exception-focused sub-case: a well-formed non-conditional relation that keeps variables (at most one
    # small slicing step) probed with three kinds of malformed calls
    focus = (not malformed) and rng.random() < 0.12
    nvars = rng.choice([1, 2, 3, 3, 4, 4])
    pool = rng.sample(range(6), nvars)
    if focus:
        for _ in range(6):
            spec, wf = gen_bspec(rng, pool, ["mat", "mat", "expr", "py", "unary", "bool"], False)
            if len(spec_vars(spec)) >= min(2, nvars):
                break
    elif rng.random() < 0.3:
        c, wf1 = gen_bspec(rng, pool, ["mat", "expr", "py", "unary", "bool", "bool", "zero", "neutral"], malformed)
        t, wf2 = gen_bspec(rng, pool, None, malformed)
        spec = dict(k="cond", c=c, t=t, rn=rng.random() < 0.5)
        wf = wf1 and wf2
    else:
        spec, wf = gen_bspec(rng, pool, None, malformed)
    doms = {}
    for v in spec_vars(spec) + [p for p in pool]:
        if str(v) not in doms:
            doms[str(v)] = rng.sample(VALUES, rng.randint(1, 3))
    wf = finish_spec(rng, spec, doms, malformed) and wf
    names = sorted(spec_vars(spec))
    remaining = list(names)
    rems = [list(names)]        # rems[i] = variables of relation number i of the chain (0 = as built)
    steps = []
    valid = wf
    for _ in range(rng.choice([0, 1]) if focus else rng.choice([0, 1, 1, 2, 2, 3])):
        if (malformed and rng.random() < 0.4) or rng.random() < (0.4 if focus else 0.06):   # bad steps also on well-formed relations
            valid = False
            kind = rng.choice(["unknown", "ood", "ood", "again", "toomany"])
            keys = rng.sample(remaining, rng.randint(0, len(remaining)))
            p = [[v, rng.choice(doms[str(v)])] for v in keys]
            if kind == "unknown":
                p.append([rng.choice([6, 7]), 1])
            elif kind == "ood" and (p or remaining):
                if not p:
                    p = [[rng.choice(remaining), 9]]
                p[0][1] = 9
            elif kind == "again":
                gone = [v for v in names if v not in remaining]
                if gone:
                    p.append([gone[0], doms[str(gone[0])][0]])
            else:
                p = [[v, rng.choice(doms[str(v)])] for v in remaining] + [[6, 0], [7, 0]]
            rng.shuffle(p)
        else:
            size = rng.choice([0, 1]) if focus else rng.choice([0, 1, 1, 1, 2, 2, 3, 4])
            keys = rng.sample(remaining, min(size, len(remaining)))
            p = [[v, rng.choice(doms[str(v)])] for v in keys]
        steps.append(p)
        remaining = [v for v in remaining if v not in [k for k, _ in p]]
        rems.append(list(remaining))
    # completions of the remaining variables
    comps = [[]]
    for v in remaining:
        comps = [c + [[v, x]] for c in comps for x in doms[str(v)]]
    if len(comps) > 8:
        comps = rng.sample(comps, 8)
    probes = []
    for c in comps:
        c = list(c)
        rng.shuffle(c)
        probes.append(dict(c=c, full=True))
    # malformed probes (exception statements): up to 3 different kinds on a malformed sub-case
    for kind in (rng.sample(["missing", "extra", "ood", "unknown"], 3) if malformed or focus
                 else [rng.choice(["missing", "extra", "ood", "unknown"])] if rng.random() < 0.2 else []):
        base = list(rng.choice(comps))
        if kind == "missing" and base:
            base = base[:-1]
        elif kind == "extra":
            base = base + [[rng.choice([6, 7]), 0]]
        elif kind == "ood" and base:
            base = [[base[0][0], 9]] + base[1:]
        else:
            base = [[6, 1]] + base[1:]
        if dict(c=base, full=False) not in probes:
            probes.append(dict(c=base, full=False))
    # slicing TREE (relations must not be changed by slicing them): intermediate relations of the chain are
    # probed again after all the later slices were taken, and a second slice is taken from one of them
    inter, branch = [], []
    ext = [b for b in ([spec.get("c"), spec.get("t")] if spec["k"] == "cond" else [spec])
           if b and (b.get("ext") or b.get("nd"))]
    if valid and (steps or ext):
        def some_comps(rem, k):
            cs = [[]]
            for v in rem:
                cs = [c + [[v, x]] for c in cs for x in doms[str(v)]]
            cs = rng.sample(cs, k) if len(cs) > k else cs
            out = []
            for c in cs:
                c = list(c)
                rng.shuffle(c)
                out.append(dict(c=c, full=True))
            return out
        for i in range(len(steps) + (1 if ext else 0)):
            if ext or rng.random() < 0.5:      # external definitions: every relation of the chain, the last included
                inter.append(dict(i=i, probes=some_comps(rems[i], 2)))
        if steps and rng.random() < 0.4:
            i = rng.randrange(len(steps))
            keys = rng.sample(rems[i], min(rng.choice([1, 1, 2]), len(rems[i])))
            qd = [[v, rng.choice(doms[str(v)])] for v in keys]
            branch.append(dict(i=i, q=qd, probes=some_comps([v for v in rems[i] if v not in keys], 2)))
    return dict(doms=doms, spec=spec, steps=steps, probes=probes, wf=wf, valid=valid, inter=inter, branch=branch)


def gen(rng, n, tier):
    cases = []
    for i in range(n):
        hs = HASH_SEEDS[i % 5] if i % 5 < 4 else rng.randint(4, 2 ** 32 - 1)
        cases.append(dict(hs=hs, subs=[gen_sub(rng) for _ in range(SUBS_PER_BATCH)]))
    return cases


# ------------------------------------------------------------------ implementation driver
def run_impl(case):
    repo = os.environ.get("VERIF_REPO", "/repo")
    env = dict(os.environ)
    env["PYTHONHASHSEED"] = str(case["hs"])
    env["PYTHONPATH"] = repo + os.pathsep + "/verif"
    p = subprocess.run(["/venv/bin/python", "-m", "harness.props.C11"], input=json.dumps(case["subs"]),
                       capture_output=True, text=True, env=env, cwd="/verif", timeout=600)
    if p.returncode != 0:
        raise RuntimeError("driver subprocess failed: " + p.stderr[-800:])
    return json.loads(p.stdout)


def _canon(fn):
    import numpy as np
    try:
        v = fn()
    except Exception as e:  # the implementation's exception, canonicalised to its type name
        return {"err": type(e).__name__}
    if isinstance(v, (bool, int, np.integer, np.bool_)):
        return {"ok": int(v)}
    if isinstance(v, (float, np.floating)) and float(v).is_integer():      # float64 table holding ints
        return {"ok": int(v)}
    return {"err": "Other:" + type(v).__name__}


def _drive_sub(sub):
    holder = {}
    try:
        return _drive_sub0(sub, holder)
    finally:
        if "dir" in holder:
            import shutil
            shutil.rmtree(holder["dir"], ignore_errors=True)


def _drive_sub0(sub, holder):
    from pydcop.dcop.objects import Variable, Domain
    from pydcop.dcop import relations as R
    from pydcop.utils.expressionfunction import ExpressionFunction
    variables = {}

    def V(i):
        if i not in variables:
            variables[i] = Variable(name(i), Domain("d" + name(i), "", list(sub["doms"][str(i)])))
        return variables[i]

    params_obs = {}

    def nest(shape, data):
        if not shape:
            return data[0]
        step = len(data) // shape[0] if shape[0] else 0
        return [nest(shape[1:], data[i * step:(i + 1) * step]) for i in range(shape[0])]

    def build_b(s, tag):
        k = s["k"]
        if k == "zero":
            return R.ZeroAryRelation("z", s["value"])
        if k == "unary":
            f = eval("lambda %s: %s" % (name(s["param"]), py_expr(s["body"])), {})
            return R.UnaryFunctionRelation("u", V(s["v"]), f)
        if k == "bool":
            return R.UnaryBooleanRelation("b", V(s["v"]))
        if k == "neutral":
            return R.NeutralRelation([V(i) for i in s["vars"]], "n")
        if k == "mat" and s.get("nd"):
            import numpy as np
            buf = np.array(nest(s["shape"], s["data"]), dtype=s["nd"]["dtype"])
            rel = R.NAryMatrixRelation([V(i) for i in s["vars"]], buf, "m")
            nd_bufs.append((buf, s))
            return rel
        if k == "mat":
            return R.NAryMatrixRelation([V(i) for i in s["vars"]], nest(s["shape"], s["data"]), "m")
        if s["fk"] == "expr" and s.get("ext"):
            rels = [ext_relation(s, tag, j) for j in range(len(s["ext"]["bodies"]))]
            ext_tags.append((s, tag))
            return rels[s["ext"]["which"]]
        if s["fk"] == "expr":
            f = ExpressionFunction(py_expr(s["body"]))
            params_obs[tag] = [ident(n) for n in f.exp_vars]     # the set's iteration order
        else:
            ns = {}
            exec("def f(%s):\n    return %s\n" % (", ".join(name(p) for p in s["params"]), py_expr(s["body"])), ns)
            f = ns["f"]
        return R.NAryFunctionRelation(f, [V(i) for i in s["vars"]], "f", f_kwargs=s["fkw"])

    ext_tags, keep, nd_bufs = [], [], []

    def ext_relation(s, tag, j):
        """the relation defined by source file number j: def cost(a0, ..): <body j over the params>"""
        import tempfile
        if "dir" not in holder:
            holder["dir"] = tempfile.mkdtemp(prefix="c11src_")
        path = os.path.join(holder["dir"], "src_%s_%d_%d.py" % (tag or "r", j, len(keep)))
        ps = [name(p) for p in s["params"]]
        with open(path, "w") as fh:
            fh.write("def cost(%s):\n" % ", ".join("a%d" % i for i in range(len(ps))))
            if ps:
                fh.write("    %s = %s\n" % (", ".join(ps) + ("," if len(ps) == 1 else ""),
                                            ", ".join("a%d" % i for i in range(len(ps))) + ("," if len(ps) == 1 else "")))
            fh.write("    return %s\n" % py_expr(s["ext"]["bodies"][j]))
        text = "source.cost(%s)" % ", ".join(ps)
        if s["ext"]["cfed"]:
            rel = R.constraint_from_external_definition("f", path, text, [V(i) for i in s["vars"]])
            f = rel.function
        else:
            f = ExpressionFunction(text, source_file=path)
            rel = R.NAryFunctionRelation(f, [V(i) for i in s["vars"]], "f", f_kwargs=s["fkw"])
        params_obs[tag] = [ident(n) for n in f.exp_vars]
        keep.append(rel)
        return rel

    def build():
        s = sub["spec"]
        if s["k"] == "cond":
            return R.ConditionalRelation(build_b(s["c"], "c"), build_b(s["t"], "t"), return_neutral=s["rn"])
        return build_b(s, "")

    obs = dict(params=params_obs, sliced=[], probes=[])
    try:
        r = build()
        obs["built"] = {"ok": [ident(v.name) for v in r.dimensions]}
    except Exception as e:
        obs["built"] = {"err": type(e).__name__}
        return obs
    chain = [r]
    for p in sub["steps"]:
        try:
            r = r.slice({name(k): x for k, x in p})
            obs["sliced"].append({"ok": [ident(v.name) for v in r.dimensions]})
            chain.append(r)
        except Exception as e:
            obs["sliced"].append({"err": type(e).__name__})
            return obs
    obs["probes"] = _probe(R, r, sub["probes"])
    # slicing tree: second slices from intermediate relations, then the intermediate relations again
    obs["branch"], obs["inter"] = [], []
    for b in sub.get("branch", []):
        if b["i"] >= len(chain):
            obs["branch"].append(None)
            continue
        try:
            rb = chain[b["i"]].slice({name(k): x for k, x in b["q"]})
            obs["branch"].append({"sliced": {"ok": [ident(v.name) for v in rb.dimensions]},
                                  "probes": _probe(R, rb, b["probes"])})
        except Exception as e:
            obs["branch"].append({"sliced": {"err": type(e).__name__}, "probes": []})
    # external definitions: one more relation from ANOTHER source file is created before the relations of
    # the chain are evaluated again
    for s_, tag_ in ext_tags:
        ext_relation(s_, tag_, (s_["ext"]["which"] + 1) % len(s_["ext"]["bodies"]))
    # caller-owned ndarray tables: the caller rewrites its buffer and builds the next relation from it
    for buf, s_ in nd_bufs:
        import random as _random
        r2 = _random.Random(s_["nd"]["seed"])
        if s_["nd"]["rewrite"] == "mul":
            buf *= 2
            buf += 1
        elif s_["nd"]["rewrite"] == "fill":
            buf.fill(r2.randint(100, 120))
        else:
            buf[...] = __import__("numpy").array([r2.randint(100, 120) for _ in range(buf.size)]).reshape(buf.shape)
        try:
            keep.append(R.NAryMatrixRelation([V(i) for i in s_["vars"]], buf, "m2"))
        except Exception:
            pass
    # in-library producers stay independent: set_value_for_assignment on a parent / on a slice returns a new
    # relation and changes neither
    if sub["spec"]["k"] == "mat":
        for rel in chain:
            try:
                keep.append(rel.set_value_for_assignment({v.name: v.domain[0] for v in rel.dimensions}, 77))
            except Exception:
                pass
    for it in sub.get("inter", []):
        obs["inter"].append(_probe(R, chain[it["i"]], it["probes"]) if it["i"] < len(chain) else None)
    return obs


def _probe(R, r, probes):
    out = []
    dims = [ident(v.name) for v in r.dimensions]
    dict_call = isinstance(r, (R.NAryFunctionRelation, R.ConditionalRelation))
    for pr in probes:
        c = pr["c"]
        kw = {name(k): x for k, x in c}
        rkw = {name(k): x for k, x in reversed(c)}
        pos = [dict(c)[d] for d in dims if d in dict(c)]
        if not pr["full"] and len(c) and c[0][0] == 6:
            pos = pos + [1]
        forms = [["kw", c, _canon(lambda: r(**kw))],
                 ["pos", pos, _canon(lambda: r(*pos))],
                 ["gvdict", list(reversed(c)), _canon(lambda: r.get_value_for_assignment(rkw))],
                 ["gvlist", pos, _canon(lambda: r.get_value_for_assignment(list(pos)))]]
        if dict_call:
            forms.append(["calldict", c, _canon(lambda: r(dict(kw)))])
        out.append(forms)
    return out


def _main():
    subs = json.loads(sys.stdin.read())
    out = []
    for s in subs:
        try:
            out.append(_drive_sub(s))
        except Exception as e:  # driver-level problem, reported per sub-case
            out.append({"driver_error": "%s: %s" % (type(e).__name__, e)})
    sys.stdout.write(json.dumps(out))


# ------------------------------------------------------------------ oracle (independent of relations.py)
def _eval(e, env):
    return eval(py_expr(e), {"__builtins__": {"abs": abs}}, {name(k): v for k, v in env.items()})


def defval(s, a, doms, params_obs, tag=""):
    """value of the relation described by spec `s` on the total assignment `a`, from its definition"""
    k = s["k"]
    if k == "cond":
        return defval(s["t"], a, doms, params_obs, "t") if defval(s["c"], a, doms, params_obs, "c") else 0
    if k == "zero":
        return s["value"]
    if k == "neutral":
        return 0
    if k == "bool":
        return 1 if a[s["v"]] else 0
    if k == "unary":
        return _eval(s["body"], {s["param"]: a[s["v"]]})
    if k == "mat":
        idx = 0
        for v in s["vars"]:
            d = doms[str(v)]
            idx = idx * len(d) + d.index(a[v])
        return s["data"][idx]
    if s["fkw"]:
        return _eval(s["body"], {v: a[v] for v in s["vars"]})
    params = params_obs[tag] if s["fk"] == "expr" else s["params"]
    # contract of NAryFunctionRelation without f_kwargs: i-th variable = i-th argument of f
    return _eval(s["body"], {p: a[v] for p, v in zip(params, s["vars"])})


def _finding(sub, upto, params_obs, extra=()):
    """precise predicates of the recorded findings (None = not an instance); the relation looked at is the
    one obtained by the steps [0..upto] and then by slicing on `extra`"""
    s = sub["spec"]
    if s["k"] != "cond" or not sub["valid"] or s["rn"]:
        return None
    # C11-cond-false-zeroary: return_neutral=False, every variable of the condition is sliced,
    # the condition is false on them, and variables of the consequence remain
    sliced = {}
    for p in sub["steps"][:upto + 1]:
        sliced.update({k: x for k, x in p})
    sliced.update({k: x for k, x in extra})
    cvars = spec_vars(s["c"])
    if any(v not in sliced for v in cvars):
        return None
    if not any(v not in sliced for v in spec_vars(s["t"])):
        return None
    try:
        cval = defval(s["c"], sliced, sub["doms"], params_obs, "c")
    except Exception:
        return None
    return None if cval else "C11-cond-false-zeroary"


# independent statement of the exception theorems (slice_exceptions_spec, gv_dict_exceptions_spec,
# gv_list_exceptions_spec, call_kw_exceptions_spec) for a well-formed NON-conditional relation whose current
# kind is `kind` ("zero"|"unary"|"bool"|"fun"|"mat"|"neutral") over the remaining variables R (in order)
def _exc_slice(kind, R, p, doms):
    keys = [k for k, _ in p]
    if kind == "zero":
        return "ValueError" if p else None
    if kind in ("unary", "bool"):
        return "ValueError" if p and (len(p) >= 2 or keys[0] != R[0]) else None
    if kind == "neutral":
        return None
    if any(k not in R for k in keys):
        return "ValueError" if kind == "fun" else "AttributeError"
    if kind == "mat" and any(x not in doms[str(k)] for k, x in p):
        return "ValueError"
    return None


def _exc_dict(kind, R, d, doms, kwform):
    keys = [k for k, _ in d]
    if kind == "zero":
        return "ValueError" if d else None
    if kind in ("unary", "bool"):
        if kwform and len(d) != 1:
            return "ValueError"
        return None if R[0] in keys else "KeyError"
    if kind == "neutral":
        return None
    if any(k not in R for k in keys):
        return "KeyError" if kind == "fun" else "AttributeError"
    if kind == "fun":
        return "TypeError" if any(v not in keys for v in R) else None
    if any(x not in doms[str(k)] for k, x in d) or any(v not in keys and len(doms[str(v)]) != 1 for v in R):
        return "ValueError"
    return None


def _exc_list(kind, R, l, doms):
    if kind == "zero":
        return "ValueError" if l else None
    if kind in ("unary", "bool"):
        return None if len(l) == 1 else "ValueError"
    if kind == "neutral":
        return None
    if len(l) > len(R):
        return "IndexError"
    return _exc_dict(kind, R, [[v, x] for v, x in zip(R, l)], doms, False)


def exc_failures(sub, o):
    """exceptions of every executed slice step and of every probe (malformed ones included) against the
    statement above; only for well-formed non-conditional relations without free names"""
    s = sub["spec"]
    if s["k"] == "cond" or not sub["wf"] or "ok" not in o["built"]:
        return []
    if s["k"] == "unary" and [n for n in expr_fv(s["body"]) if n != s["param"]]:
        return []
    if s["k"] == "fun" and [n for n in expr_fv(s["body"]) if n not in s["params"]]:
        return []
    kind, R, doms = s["k"], list(o["built"]["ok"]), sub["doms"]

    def got(x):
        return x.get("err")

    for i, p in enumerate(sub["steps"]):
        if i >= len(o["sliced"]):
            return [("step %d not executed" % i, None)]
        exp = _exc_slice(kind, R, p, doms)
        if got(o["sliced"][i]) != exp:
            return [("slice step %d on %r of the %s relation over %r: raised %r, the exception statement gives %r"
                     % (i, p, kind, R, got(o["sliced"][i]), exp), None)]
        if exp is not None:
            return []
        if kind in ("unary", "bool") and p:
            kind = "zero"
        R = [v for v in R if v not in [k for k, _ in p]]
    for forms in o["probes"]:
        for form, args, res in forms:
            if form in ("pos", "gvlist"):
                exp = _exc_list(kind, R, args, doms)
            else:
                exp = _exc_dict(kind, R, args, doms, form in ("kw", "calldict"))
            if got(res) != exp:
                return [("the %s form on %r of the %s relation over %r (after slicing %r): raised %r, the exception "
                         "statement gives %r" % (form, args, kind, R, sub["steps"], got(res), exp), None)]
    return []


def sub_failures(sub, o):
    """list of (message, finding id or None)"""
    if "driver_error" in o:
        return [("driver error: " + o["driver_error"], None)]
    out = []
    s = sub["spec"]
    names = sorted(spec_vars(s))
    if sub["wf"]:
        if "err" in o["built"]:
            return [("constructing a well-formed %s relation raised %s" % (s["k"], o["built"]["err"]), None)]
        if sorted(o["built"]["ok"]) != names:
            return [("dimensions %r of the new relation, expected the variables %r" % (o["built"]["ok"], names), None)]
        if s["k"] != "cond" and o["built"]["ok"] != spec_vars(s) and not (s.get("ext") or {}).get("cfed"):
            return [("dimensions %r are not in the order given %r" % (o["built"]["ok"], spec_vars(s)), None)]
    out.extend(exc_failures(sub, o))
    if out or not sub["valid"] or "err" in o["built"]:
        return out
    sliced = {}
    remaining = list(o["built"]["ok"])
    for i, p in enumerate(sub["steps"]):
        if i >= len(o["sliced"]):
            return [("step %d not executed" % i, None)]
        for k_, x in p:
            sliced[k_] = x
        exp_set = [v for v in names if v not in sliced]
        if "err" in o["sliced"][i]:
            out.append(("slice step %d on %r raised %s (sliced so far %r)" % (i, p, o["sliced"][i]["err"], sliced),
                        _finding(sub, i, o["params"])))
            return out
        got = o["sliced"][i]["ok"]
        if sorted(got) != exp_set:
            out.append(("slice step %d on %r: dimensions %r, expected exactly the remaining variables %r"
                        % (i, p, got, exp_set), _finding(sub, i, o["params"])))
            return out
        if s["k"] != "cond":
            exp_list = [v for v in remaining if v not in sliced]
            if got != exp_list:
                out.append(("slice step %d: dimensions %r not in the original order %r" % (i, got, exp_list), None))
                return out
        remaining = got
    for j, pr in enumerate(sub["probes"]):
        if not pr["full"]:
            continue
        a = dict(sliced)
        a.update({k_: x for k_, x in pr["c"]})
        exp = defval(s, a, sub["doms"], o["params"])
        for form, args, res in o["probes"][j]:
            if res != {"ok": exp}:
                out.append(("after slicing %r the %s form on %r gives %r, the definition gives %r on %r"
                            % (sub["steps"], form, args, res, exp, a), _finding(sub, len(sub["steps"]), o["params"])))
                return out
    # slicing tree: a relation is not changed by slicing it
    def values(probes, obs_probes, base, what, fid):
        for pr, forms in zip(probes, obs_probes):
            a = dict(base)
            a.update({k_: x for k_, x in pr["c"]})
            exp = defval(s, a, sub["doms"], o["params"])
            for form, args, res in forms:
                if res != {"ok": exp}:
                    return [("%s: the %s form on %r gives %r, the definition gives %r on %r"
                             % (what, form, args, res, exp, a), fid)]
        return []
    for it, ob in zip(sub.get("inter", []), o.get("inter", [])):
        if ob is None:
            return [("relation number %d of the chain was not probed" % it["i"], None)]
        base = {}
        for p in sub["steps"][:it["i"]]:
            base.update({k_: x for k_, x in p})
        out = values(it["probes"], ob, base, "relation number %d of the chain %r, probed after the later slices"
                     % (it["i"], sub["steps"]), _finding(sub, it["i"] - 1, o["params"]))
        if out:
            return out
    for b, ob in zip(sub.get("branch", []), o.get("branch", [])):
        if ob is None:
            return [("no second slice taken from relation number %d" % b["i"], None)]
        base = {}
        for p in sub["steps"][:b["i"]]:
            base.update({k_: x for k_, x in p})
        fid = _finding(sub, b["i"] - 1, o["params"], b["q"])
        what = "second slice %r of relation number %d of the chain %r" % (b["q"], b["i"], sub["steps"])
        base.update({k_: x for k_, x in b["q"]})
        exp_set = [v for v in names if v not in base]
        if "err" in ob["sliced"]:
            return [("%s raised %s" % (what, ob["sliced"]["err"]), fid)]
        if sorted(ob["sliced"]["ok"]) != exp_set:
            return [("%s: dimensions %r, expected exactly the remaining variables %r"
                     % (what, ob["sliced"]["ok"], exp_set), fid)]
        out = values(b["probes"], ob["probes"], base, what, fid)
        if out:
            return out
    return out


def oracle(case, obs):
    fails = []
    for i, (sub, o) in enumerate(zip(case["subs"], obs)):
        for msg, fid in sub_failures(sub, o):
            fails.append((i, msg, fid))
    if not fails:
        return None
    for i, msg, fid in fails:
        if fid is None:
            return "hashseed %s sub-case %d: %s" % (case["hs"], i, msg)
    i, msg, fid = fails[0]
    return "hashseed %s sub-case %d: %s" % (case["hs"], i, msg)


def classify(case, obs, msg):
    fids = []
    for sub, o in zip(case["subs"], obs):
        for m, fid in sub_failures(sub, o):
            fids.append(fid)
    if fids and all(f is not None for f in fids):
        return fids[0]
    return None


# ------------------------------------------------------------------ Gallina printer
def _var(i, doms):
    return q.pair(q.z(i), q.zlist(doms[str(i)]))


def _vars(l, doms):
    return q.lst([_var(i, doms) for i in l])


def _bspec(s, doms, params, built_failed=False):
    k = s["k"]
    if k == "zero":
        return "(SZero %s)" % q.z(s["value"])
    if k == "unary":
        return "(SUnary %s %s %s)" % (_var(s["v"], doms), q.z(s["param"]), coq_expr(s["body"]))
    if k == "bool":
        return "(SBool %s)" % _var(s["v"], doms)
    if k == "neutral":
        return "(SNeutral %s)" % _vars(s["vars"], doms)
    if k == "mat":
        return "(SMat %s %s %s)" % (_vars(s["vars"], doms), q.lst([q.nat(d) for d in s["shape"]]), q.zlist(s["data"]))
    if s["fk"] == "expr":
        if params is None and built_failed:
            params = expr_fv(s["body"])      # construction raised before this function was built
        if params is None:
            raise ValueError("no exp_vars order observed for an expression function")
        vs = params if (s.get("ext") or {}).get("cfed") and not built_failed else s["vars"]   # cfed: variables in set order
        return "(SFun FExpr %s %s %s %s)" % (q.zlist(params), coq_expr(s["body"]), _vars(vs, doms), q.b(s["fkw"]))
    return "(SFun FPy %s %s %s %s)" % (q.zlist(s["params"]), coq_expr(s["body"]), _vars(s["vars"], doms), q.b(s["fkw"]))


def _res(o, f):
    if "ok" in o:
        return "(Ok %s)" % f(o["ok"])
    if o["err"] not in ERRS:
        raise ValueError("exception %s is not in the model's enumeration" % o["err"])
    return "(Err %s)" % ERRS[o["err"]]


FORMS = {"kw": ("PKw", q.zzdict), "pos": ("PPos", q.zlist), "gvdict": ("PGvDict", q.zzdict),
         "gvlist": ("PGvList", q.zlist), "calldict": ("PCallDict", q.zzdict)}


def _sub_term(sub, o):
    if "driver_error" in o:
        raise ValueError(o["driver_error"])
    s = sub["spec"]
    doms = sub["doms"]
    bf = "err" in o["built"]
    if s["k"] == "cond":
        spec = "(SCond %s %s %s)" % (_bspec(s["c"], doms, o["params"].get("c"), bf),
                                      _bspec(s["t"], doms, o["params"].get("t"), bf), q.b(s["rn"]))
    else:
        spec = "(SBase %s)" % _bspec(s, doms, o["params"].get(""), bf)
    steps = q.lst([q.zzdict([tuple(kv) for kv in p]) for p in sub["steps"]])
    built = _res(o["built"], q.zlist)
    sliced = q.lst([_res(x, q.zlist) for x in o["sliced"]])
    def probes_term(obs_probes):
        probes = []
        for form, args, res in [x for forms in obs_probes for x in forms]:
            c, pr = FORMS[form]
            probes.append("%s %s %s" % (c, pr([tuple(a) for a in args] if form in ("kw", "gvdict", "calldict") else args),
                                        _res(res, q.z)))
        return q.lst(probes)

    base = "(mkCase %s %s %s %s %s)" % (spec, steps, built, sliced, probes_term(o["probes"]))
    inter = ["(%s, %s)" % (q.nat(it["i"]), probes_term(ob))
             for it, ob in zip(sub.get("inter", []), o.get("inter", [])) if ob is not None]
    branch = ["(%s, %s, %s, %s)" % (q.nat(b["i"]), q.zzdict([tuple(kv) for kv in b["q"]]),
                                    _res(ob["sliced"], q.zlist), probes_term(ob["probes"]))
              for b, ob in zip(sub.get("branch", []), o.get("branch", [])) if ob is not None]
    return "(mkCase2 %s %s %s)" % (base, q.lst(inter), q.lst(branch))


def coq_case(case, obs):
    return q.lst([_sub_term(sub, o) for sub, o in zip(case["subs"], obs)])


# ------------------------------------------------------------------ evidence helpers
def key(case):
    return json.dumps(case, sort_keys=True)


def nontrivial(case, obs):
    return any(s["steps"] or len(spec_vars(s["spec"])) >= 2 for s in case["subs"])


def _kind(s):
    if s["k"] == "fun":
        return s["fk"] + ("/kw" if s["fkw"] else "/pos")
    if s["k"] == "cond":
        return "cond(%s,%s)" % (_kind(s["c"]), _kind(s["t"]))
    return s["k"]


def histogram(cases, obs):
    h = {"sub_cases": 0, "probes": 0, "malformed": 0}
    for c, ob in zip(cases, obs):
        h["hashseed_%s" % (c["hs"] if c["hs"] < 4 else "random")] = h.get("hashseed_%s" % (c["hs"] if c["hs"] < 4 else "random"), 0) + 1
        if not isinstance(ob, list):
            continue
        for s, o in zip(c["subs"], ob):
            h["sub_cases"] += 1
            kd = _kind(s["spec"])
            if '"ext"' in json.dumps(s["spec"]):
                h["external_definition"] = h.get("external_definition", 0) + 1
            kd = "cond" if kd.startswith("cond") else kd
            h["kind_" + kd] = h.get("kind_" + kd, 0) + 1
            h["steps_%d" % len(s["steps"])] = h.get("steps_%d" % len(s["steps"]), 0) + 1
            h["probes"] += sum(len(x) for x in o.get("probes", []))
            h["inter_probed"] = h.get("inter_probed", 0) + len([x for x in o.get("inter", []) if x is not None])
            h["second_slices"] = h.get("second_slices", 0) + len([x for x in o.get("branch", []) if x is not None])
            if not s["valid"]:
                h["malformed"] += 1
            for x in [o.get("built", {})] + o.get("sliced", []):
                if "err" in x:
                    h["raise_" + x["err"]] = h.get("raise_" + x["err"], 0) + 1
    return h


def shrink_candidates(case):
    subs = case["subs"]
    if len(subs) > 1:
        for s in subs:
            yield dict(hs=case["hs"], subs=[s])
        return
    s = subs[0]
    for i in range(len(s["steps"])):
        if len(s["steps"]) > 1 and i == len(s["steps"]) - 1:
            d = dict(s)
            d["steps"] = s["steps"][:-1]
            d["probes"] = []
            d["inter"] = [x for x in s.get("inter", []) if x["i"] < len(d["steps"])]
            d["branch"] = [x for x in s.get("branch", []) if x["i"] < len(d["steps"])]
            yield dict(hs=case["hs"], subs=[d])
    if len(s["probes"]) > 1:
        for pr in s["probes"]:
            d = dict(s)
            d["probes"] = [pr]
            yield dict(hs=case["hs"], subs=[d])


if __name__ == "__main__":
    _main()
