"""C30 -- problem and scenario generators produce well-formed instances."""
import contextlib
import io
import random as _random
import types

from harness import coqio as q

ID = "C30"
COQ_REQUIRE = ["M_Gen"]
COQ_CASE_TYPE = "M_Gen.case"
COQ_CHECK = "M_Gen.check_case"
OBLIGATIONS = ["gc_variables_and_colours_partial", "gc_one_constraint_per_edge", "gc_hard_value",
               "gc_one_constraint_per_edge_soft", "gc_soft_values",
               "ising_forms_agree", "ising_var_distribution_hosts_once",
               "ising_fg_distribution_hosts_once", "ising_fg_distribution_hosts_once_grid",
               "scenario_removals_distinct_fresh",
               "decimal_rendering_injective", "gc_variables_and_colours", "gc_agents_exact",
               "ising_names_injective", "ising_fg_mapping_uses_existing_constraints", "ising_generate_grid",
               "ising_generate_fg_hosts_once", "ising_generate_var_hosts_once", "ising_generate_total"]
N_QUICK, N_THOROUGH = 320, 5000
SHARD = 80
RULE = ("seeded generator arguments: graph colouring through generate(args) (2-10 variables, 1-9 colours, "
        "random / scalefree / grid graphs drawn by the real networkx calls, hard/soft, intentional/"
        "extensional, with/without agents) and direct calls of generate_hard/soft_constraints on "
        "hand-made edge lists (duplicate, reversed, dangling edges); generate_ising on 1..4 x 1..4 grids "
        "(plus a 6% stream of 11x2 .. 1x11 grids with two-digit coordinates), "
        "both forms on the same random.uniform draws, all flag combinations; generate_scenario with 0-4 "
        "events, -1..3 actions, 0-7 agents incl. duplicates; non-trivial = at least one constraint or one "
        "removal event; distinct = distinct case JSON")
MODELLED = ("generate (after the graph is drawn), generate_hard_constraints, generate_soft_constraints, "
            "generate_ising with its unary/binary helpers and both distributions, generate_scenario are "
            "modelled; every sentence of C30 is a theorem about the model (Prop_C30.v); networkx graphs, "
            "random.randint/uniform/sample are explicit inputs (recorded in the run and replayed by the "
            "model); the decimal / zero-padded / f-string rendering of all generated names is proved "
            "injective and generate_ising is proved end to end (constraint dict vs factor-graph mapping); "
            "expression parsing of intentional constraints and NAryMatrixRelation storage are tied by the "
            "correspondence run only")
META = dict(
    level_text=("Proof (Coq) that in the model of the generators: graph colouring yields the requested "
                "variables/colours and exactly one constraint per graph edge with the hard table 1000 on "
                "equal colours else 0 (both forms) or oracle values (soft); Ising intentional and "
                "extensive tables agree for every drawn value; its variable and factor-graph distributions "
                "host every computation of the DCOP exactly once on every periodic grid; every scenario "
                "event removes the requested number of distinct agents never removed before, for every "
                "random.sample outcome satisfying its contract; all for unbounded sizes. The model is "
                "tied to the code by a differential run on generated arguments on every check."),
    level_note=("Trusted: Coq kernel/vm_compute, the model M_Gen.v, the harness, networkx (graph shape is an "
                "input; for Ising the model re-checks that the edge list is a periodic grid), the "
                "randomness oracles. Ising draws are multiples of 1/8 so float arithmetic is exact. The "
                "rendered computation names (f-strings) are proved injective (Prop_C30.ising_names_injective, "
                "decimal_rendering_injective), so structured names in the model = string keys in the code."),
    technique="Coq proof over executable Gallina model + differential correspondence run",
    design_ref="DESIGN.md §5 C30",
)

COLORS = ["R", "G", "B", "O", "F", "Y", "L", "C"]
AGT_POOL = ["a0", "a1", "a2", "a3", "a4", "a5", "a6"]


# ------------------------------------------------------------------ generation
def gen(rng, n, tier):
    cases = []
    for _ in range(n):
        r = rng.random()
        if r < 0.3:
            kind = rng.choice(["random", "scalefree", "grid"])
            nv = rng.choice([4, 9]) if kind == "grid" else rng.randint(2, 10)
            sub = rng.random() < 0.4
            if kind == "random" and rng.random() < 0.1:
                nv = 1                    # boundary: a single isolated node
            c = dict(kind="gc", graph=kind, variables_count=nv,
                     colors_count=rng.choice([1, 2, 2, 3, 3, 4, 5, 8, 9]),
                     # sparse graphs with isolated nodes when disconnected sub-graphs are allowed
                     p_edge=rng.choice([0.05, 0.1, 0.2, 0.3, 0.5]) if sub else rng.choice([0.3, 0.5, 0.8]),
                     m_edge=rng.randint(1, max(1, min(3, nv - 1))),
                     allow_subgraph=sub, soft=rng.random() < 0.4,
                     intentional=rng.random() < 0.4, noagents=rng.random() < 0.3,
                     seed=rng.randint(0, 10 ** 9))
            if kind == "grid" and rng.random() < 0.05:
                c["variables_count"] = 5          # not a square: ValueError before any graph
        elif r < 0.45:
            nn = rng.randint(2, 6)
            nodes = rng.sample(range(20), nn)
            edges = []
            for _ in range(rng.randint(0, 7)):
                u, v = rng.sample(nodes, 2)
                edges.append([u, v])
            if edges and rng.random() < 0.3:
                u, v = rng.choice(edges)
                edges.append([v, u] if rng.random() < 0.5 else [u, v])
            if rng.random() < 0.1:
                edges.insert(rng.randint(0, len(edges)), [nodes[0], 99])    # dangling edge: KeyError
            c = dict(kind="gcc", nodes=nodes, edges=edges, k=rng.randint(1, 4), soft=rng.random() < 0.4,
                     intentional=rng.random() < 0.4, seed=rng.randint(0, 10 ** 9))
        elif r < 0.75:
            sizes = [1, 2, 2, 2, 3, 3, 4]
            c = dict(kind="ising", R=rng.choice(sizes), C=rng.choice(sizes), extensive=rng.random() < 0.5,
                     no_agents=rng.random() < 0.2, fg_dist=rng.random() < 0.8, var_dist=rng.random() < 0.6,
                     draws=[rng.randint(-16, 16) for _ in range(16 + 32 + 4)])
            if rng.random() < 0.06:
                # two-digit coordinates: v_1_11 / v_11_1 / v_1_1 must stay different names
                c["R"], c["C"] = rng.choice([(11, 2), (2, 12), (12, 1), (1, 11), (11, 3)])
                c["fg_dist"] = True
                c["draws"] = [rng.randint(-16, 16) for _ in range(3 * c["R"] * c["C"] + 4)]
        else:
            na = rng.randint(0, 7)
            agents = rng.sample(AGT_POOL, na)
            if agents and rng.random() < 0.15:
                agents.append(agents[0])
            c = dict(kind="scenario", evts=rng.choice([0, 1, 1, 2, 2, 3, 3, 4, 5]),
                     actions=rng.choice([-1, 0, 1, 1, 1, 2, 2, 3]), delay=rng.randint(0, 30),
                     init=rng.randint(0, 30), end=rng.randint(0, 30), agents=agents,
                     seed=rng.randint(0, 10 ** 9))
        cases.append(c)
    return cases


# ------------------------------------------------------------------ implementation driver
class _RandomProxy(object):
    """stands for the `random` module inside ONE generator module: logs the draws the model needs
    as explicit inputs and delegates everything to a seeded generator"""

    def __init__(self, seed, uniform_values=None):
        self._r = _random.Random(seed)
        self.randints, self.samples = [], []
        self._uniform = list(uniform_values or [])

    def randint(self, a, b):
        v = self._r.randint(a, b)
        self.randints.append(v)
        return v

    def uniform(self, a, b):
        return self._uniform.pop(0)

    def sample(self, population, k):
        v = _random.sample(population, k) if False else self._r.sample(population, k)
        self.samples.append([list(population), k, list(v)])
        return v

    def __getattr__(self, name):
        return getattr(self._r, name)


def _enc(node):
    return node[0] * 100 + node[1] if isinstance(node, tuple) else int(node)


def _is_int(c):
    from pydcop.dcop.relations import NAryMatrixRelation
    return not isinstance(c, NAryMatrixRelation)


def _constraint_obs(key, c, scale=1, order=None):
    """tabulate a constraint.  The scope order of an expression-based (intentional) constraint
    is the iteration order of a set of identifiers (hash dependent, of no consequence since
    values are looked up by name): it is canonicalised to `order` (the variable list the generator
    passed) when it is a permutation of it.  Matrix constraints keep their own order."""
    dims = list(c.dimensions)
    if order is not None and _is_int(c) and sorted(order) == sorted(v.name for v in dims) \
            and len(set(order)) == len(order):
        dims = [next(v for v in dims if v.name == n) for n in order]
    names = [v.name for v in dims]

    def val(a):
        x = c(**a) * scale
        if isinstance(x, float) or hasattr(x, "is_integer"):
            if not float(x).is_integer():
                raise ValueError("non integral cost %r" % x)
            x = int(x)
        return int(x)
    if len(dims) == 1:
        table = [[val({names[0]: a}) for a in dims[0].domain]]
    else:
        table = [[val({names[0]: a, names[1]: b_}) for b_ in dims[1].domain] for a in dims[0].domain]
    return [key, c.name, names, _is_int(c), table]


def _ising_order(key):
    """cb_v_r1_c1_v_r2_c2 -> [v_r1_c1, v_r2_c2] (the all_variables list of the generator)"""
    if not key.startswith("cb_v_"):
        return None
    a, _, b_ = key[3:].partition("_v_")
    return [a, "v_" + b_]


def run_impl(c):
    if c["kind"] == "gc":
        import pydcop.commands.generators.graphcoloring as G
        import networkx  # noqa: F401
        proxy = _RandomProxy(c["seed"])
        _random.seed(c["seed"])            # networkx draws from the global generator
        captured = {}
        saved = {k: getattr(G, k) for k in ("random", "dcop_yaml", "generate_random_graph",
                                            "generate_scalefree_graph", "generate_grid_graph")}

        def wrap(f):
            def g(*a, **kw):
                graph = f(*a, **kw)
                captured["graph"] = graph
                return graph
            return g
        try:
            G.random = proxy
            def _capture(dcop):
                captured["dcop"] = dcop
                return ""
            G.dcop_yaml = _capture
            for k in ("generate_random_graph", "generate_scalefree_graph", "generate_grid_graph"):
                setattr(G, k, wrap(saved[k]))
            args = types.SimpleNamespace(
                variables_count=c["variables_count"], colors_count=c["colors_count"], graph=c["graph"],
                allow_subgraph=c["allow_subgraph"], soft=c["soft"], intentional=c["intentional"],
                noagents=c["noagents"], p_edge=c["p_edge"], m_edge=c["m_edge"], output=None)
            try:
                with contextlib.redirect_stdout(io.StringIO()):
                    G.generate(args)
            except Exception as e:
                o = dict(error=type(e).__name__)
                if "graph" in captured:
                    g = captured["graph"]
                    o.update(nodes=[_enc(x) for x in g.nodes], edges=[[_enc(u), _enc(v)] for u, v in g.edges])
                return o
        finally:
            for k, v in saved.items():
                setattr(G, k, v)
        g, d = captured["graph"], captured["dcop"]
        var_of = {node: "v%02d" % i for i, node in enumerate(sorted(g.nodes))}
        orders = [[var_of[u], var_of[v]] for u, v in g.edges]
        return dict(nodes=[_enc(x) for x in g.nodes], edges=[[_enc(u), _enc(v)] for u, v in g.edges],
                    rnd=proxy.randints, name=d.name,
                    domain=list(d.domains["colors"].values) if "colors" in d.domains else None,
                    domains=list(d.domains), objective=d.objective,
                    vars=list(d.variables), var_names=[v.name for v in d.variables.values()],
                    var_domains=sorted({v.domain.name for v in d.variables.values()}),
                    agents=list(d.agents), agent_names=[a.name for a in d.agents.values()],
                    constraints=[_constraint_obs(k, x, order=orders[i] if i < len(orders) else None)
                                 for i, (k, x) in enumerate(d.constraints.items())])
    if c["kind"] == "gcc":
        import pydcop.commands.generators.graphcoloring as G
        from pydcop.dcop.objects import VariableDomain, Variable
        proxy = _RandomProxy(c["seed"])
        dom = VariableDomain("colors", "color", COLORS[:c["k"]])
        variables = {n: Variable("v%02d" % i, dom) for i, n in enumerate(c["nodes"])}
        graph = types.SimpleNamespace(edges=[tuple(e) for e in c["edges"]])
        saved = G.random
        try:
            G.random = proxy
            f = G.generate_soft_constraints if c["soft"] else G.generate_hard_constraints
            try:
                cs = f(graph, variables, c["intentional"])
            except Exception as e:
                return dict(error=type(e).__name__, rnd=proxy.randints)
        finally:
            G.random = saved
        orders = {"c%d" % i: [variables[u].name, variables[v].name] for i, (u, v) in enumerate(c["edges"])}
        return dict(rnd=proxy.randints,
                    constraints=[_constraint_obs(k, x, order=orders.get(k)) for k, x in cs.items()])
    if c["kind"] == "ising":
        import pydcop.commands.generators.ising as I
        import networkx as nx
        g = nx.grid_2d_graph(c["R"], c["C"], periodic=True)
        o = dict(nodes=[list(x) for x in g.nodes], edges=[[list(u), list(v)] for u, v in g.edges])
        saved = I.random
        try:
            for ext in (True, False):
                I.random = _RandomProxy(0, [x / 8.0 for x in c["draws"]])
                try:
                    d, vm, fm = I.generate_ising(c["R"], c["C"], 1.6, 0.05, ext, c["no_agents"],
                                                 c["fg_dist"], c["var_dist"])
                except Exception as e:
                    o["ext" if ext else "int"] = dict(error=type(e).__name__)
                    continue
                o["ext" if ext else "int"] = dict(
                    vars=list(d.variables), agents=list(d.agents),
                    constraints=[_constraint_obs(k, x, scale=8, order=_ising_order(k))
                                 for k, x in d.constraints.items()],
                    var_mapping=[[k, list(v)] for k, v in vm.items()],
                    fg_mapping=[[k, list(v)] for k, v in fm.items()],
                    draws_left=len(I.random._uniform))
        finally:
            I.random = saved
        return o
    # scenario
    import pydcop.commands.generators.scenario as S
    proxy = _RandomProxy(c["seed"])
    saved = S.random
    try:
        S.random = proxy
        try:
            sc = S.generate_scenario(c["evts"], c["actions"], c["delay"], c["init"], c["end"], list(c["agents"]))
        except Exception as e:
            return dict(error=type(e).__name__, samples=proxy.samples)
    finally:
        S.random = saved
    evs = []
    for e in sc.events:
        if e.is_delay:
            evs.append(["delay", e.id, e.delay])
        else:
            evs.append(["actions", e.id, [[a.type, a.args.get("agent")] for a in e.actions]])
    return dict(events=evs, samples=proxy.samples)


# ------------------------------------------------------------------ oracle
def _gc_constraints_oracle(cons, edges, var_of, k, soft, intentional):
    if len(cons) != len(edges):
        return "%d constraints for %d graph edges" % (len(cons), len(edges))
    if len({x[0] for x in cons}) != len(cons) or any(x[0] != x[1] for x in cons):
        return "constraint names / keys are not distinct and consistent"
    for i, (u, v) in enumerate(edges):
        key, name, scope, is_int, table = cons[i]
        if sorted(scope) != sorted([var_of[u], var_of[v]]):
            return "constraint %s ranges over %r, edge %d joins %r" % (name, scope, i, [var_of[u], var_of[v]])
        if is_int != (intentional and not soft):
            return "constraint %s: intentional=%r, requested %r" % (name, is_int, intentional)
        if len(table) != k or any(len(row) != k for row in table):
            return "constraint %s: table is not %dx%d" % (name, k, k)
        for a in range(k):
            for b_ in range(k):
                if soft:
                    if not (0 <= table[a][b_] <= 9):
                        return "soft constraint %s has cost %r" % (name, table[a][b_])
                elif table[a][b_] != (1000 if a == b_ else 0):
                    return "hard constraint %s gives %r for colours %d,%d" % (name, table[a][b_], a, b_)
    return None


def oracle(c, o):
    kind = c["kind"]
    if kind == "gc":
        valid = c["colors_count"] <= 8 and not (c["soft"] and c["intentional"]) \
            and not (c["graph"] == "grid" and int(c["variables_count"] ** 0.5) ** 2 != c["variables_count"])
        if "error" in o:
            return None if (not valid and o["error"] == "ValueError") else "generate raised " + o["error"]
        if not valid:
            return "generate accepted invalid arguments"
        n = c["variables_count"]
        if len(o["nodes"]) != n:
            return ("the graph handed to the constraint generators has %d nodes, %d variables requested "
                    "(nodes lost while drawing / relabelling the graph)" % (len(o["nodes"]), n))
        exp_vars = ["v%02d" % i for i in range(n)]
        if o["vars"] != exp_vars or o["var_names"] != exp_vars:
            return "variables %r, expected %r" % (o["vars"], exp_vars)
        if o["domain"] != COLORS[:c["colors_count"]] or o["var_domains"] != ["colors"]:
            return "colours %r, expected %r" % (o["domain"], COLORS[:c["colors_count"]])
        exp_agents = [] if c["noagents"] else ["a%02d" % i for i in range(n)]
        if o["agents"] != exp_agents or o["agent_names"] != exp_agents:
            return "agents %r, expected %r" % (o["agents"], exp_agents)
        var_of = {node: "v%02d" % i for i, node in enumerate(sorted(o["nodes"]))}
        return _gc_constraints_oracle(o["constraints"], o["edges"], var_of, c["colors_count"],
                                      c["soft"], c["intentional"])
    if kind == "gcc":
        dangling = any(u not in c["nodes"] or v not in c["nodes"] for u, v in c["edges"])
        valid = not (c["soft"] and c["intentional"]) and not dangling
        if "error" in o:
            return None if not valid else "constraint generation raised " + o["error"]
        if c["soft"] and c["intentional"]:
            return "soft intentional constraints accepted"
        var_of = {node: "v%02d" % i for i, node in enumerate(c["nodes"])}
        return _gc_constraints_oracle(o["constraints"], c["edges"], var_of, c["k"], c["soft"], c["intentional"])
    if kind == "ising":
        for form in ("ext", "int"):
            if "error" in o[form]:
                return "generate_ising (%s) raised %s" % (form, o[form]["error"])
        e, i = o["ext"], o["int"]
        # the two forms agree
        te = {x[0]: (x[2], x[4]) for x in e["constraints"]}
        ti = {x[0]: (x[2], x[4]) for x in i["constraints"]}
        if te != ti:
            bad = sorted(k for k in set(te) | set(ti) if te.get(k) != ti.get(k))
            return "intentional and extensive forms differ on %r" % bad[:3]
        if any(not x[3] for x in i["constraints"]) or any(x[3] for x in e["constraints"]):
            return "constraint form is not the requested one"
        nodes = [tuple(x) for x in o["nodes"]]
        exp_vars = ["v_%d_%d" % x for x in nodes]
        exp_agents = ["a_%d_%d" % x for x in nodes]
        for form in (e, i):
            if form["vars"] != exp_vars:
                return "variables %r" % form["vars"]
            if form["agents"] != ([] if c["no_agents"] else exp_agents):
                return "agents %r" % form["agents"]
            cons = [x[0] for x in form["constraints"]]
            if len(cons) != len(nodes) + len(o["edges"]) or len(set(cons)) != len(cons):
                return "%d constraints for %d variables and %d edges" % (len(cons), len(nodes), len(o["edges"]))
            for mapping, comps, flag in ((form["var_mapping"], form["vars"], c["var_dist"]),
                                         (form["fg_mapping"], form["vars"] + cons, c["fg_dist"])):
                hosted = [x for _, l in mapping for x in l]
                if not flag:
                    if mapping:
                        return "a distribution that was not requested is returned"
                    continue
                if sorted(k for k, _ in mapping) != sorted(exp_agents):
                    return "distribution over agents %r" % [k for k, _ in mapping]
                if sorted(hosted) != sorted(comps):
                    twice = sorted({x for x in hosted if hosted.count(x) > 1})
                    missing = sorted(set(comps) - set(hosted))
                    extra = sorted(set(hosted) - set(comps))
                    return ("distribution does not host each computation exactly once: hosted twice %r, "
                            "not hosted %r, unknown %r" % (twice[:3], missing[:3], extra[:3]))
        return None
    # scenario
    distinct = len(set(c["agents"]))
    must_fail = c["evts"] >= 1 and (c["actions"] < 0 or c["evts"] * c["actions"] > distinct)
    if "error" in o:
        if o["error"] == "ValueError" and must_fail:
            return None
        return "generate_scenario raised " + o["error"]
    if must_fail:
        return "generate_scenario accepted %d events of %d removals on %d agents" % (c["evts"], c["actions"], distinct)
    evs = o["events"]
    if not evs or evs[0] != ["delay", "init", c["init"]] or evs[-1] != ["delay", "end", c["end"]]:
        return "scenario does not start/end with the init/end delays"
    acts = [e for e in evs if e[0] == "actions"]
    if len(acts) != max(0, c["evts"]):
        return "%d removal events, %d requested" % (len(acts), c["evts"])
    removed = set()
    for e in acts:
        names = [a[1] for a in e[2]]
        if any(a[0] != "remove_agent" for a in e[2]):
            return "unexpected action type in %s" % e[1]
        if len(names) != c["actions"] or len(set(names)) != len(names):
            return "event %s removes %r, %d distinct agents requested" % (e[1], names, c["actions"])
        if not set(names) <= set(c["agents"]):
            return "event %s removes unknown agents %r" % (e[1], names)
        if set(names) & removed:
            return "event %s removes agents already removed: %r" % (e[1], sorted(set(names) & removed))
        removed |= set(names)
    mid = evs[1:-1]
    for j, e in enumerate(mid):
        if (j % 2 == 0) != (e[0] == "actions"):
            return "events and delays do not alternate"
        if e[0] == "delay" and e[2] != c["delay"]:
            return "delay %r between events, %r requested" % (e[2], c["delay"])
    return None


def classify(c, o, msg):
    return None


# ------------------------------------------------------------------ Gallina printer
def _cons(l):
    return q.lst(["(%s, mkC %s %s %s %s)" % (q.s(k), q.s(name), q.slist(scope), q.b(is_int),
                                             q.lst([q.zlist(row) for row in table]))
                  for k, name, scope, is_int, table in l])


def _node(x):
    return "(%s, %s)" % (q.z(x[0]), q.z(x[1]))


def _ising_term(c, o, form):
    f = o[form]
    mp = lambda m: q.lst([q.pair(q.s(k), q.slist(v)) for k, v in m])
    obs = "(mkIsingObs %s %s %s %s %s)" % (q.slist(f["vars"]), _cons(f["constraints"]), q.slist(f["agents"]),
                                           mp(f["var_mapping"]), mp(f["fg_mapping"]))
    return "(mkIsingCase %s %s %s %s %s %s %s %s %s %s)" % (
        q.z(c["R"]), q.z(c["C"]), q.b(form == "ext"), q.b(c["no_agents"]), q.b(c["fg_dist"]), q.b(c["var_dist"]),
        q.lst([_node(x) for x in o["nodes"]]), q.lst([q.pair(_node(u), _node(v)) for u, v in o["edges"]]),
        q.zlist(c["draws"]), obs)


_GERR = {"ValueError": "EValue", "KeyError": "EKeyG"}
_KIND = {"random": "Random ", "scalefree": "Scale-free ", "grid": "Grid"}


def coq_case(c, o):
    kind = c["kind"]
    if kind == "gc":
        if "error" in o:
            if o["error"] != "ValueError":
                raise ValueError("unexpected exception " + o["error"])
            if "nodes" not in o and c["colors_count"] <= 8:
                return None      # failed before / while drawing the graph: nothing to model
            obs, nodes, edges, rnd = "None", o.get("nodes", []), o.get("edges", []), []
        else:
            obs = "(Some (mkGc %s %s %s %s %s))" % (q.s(o["name"]), q.slist(o["domain"]), q.slist(o["vars"]),
                                                    q.slist(o["agents"]), _cons(o["constraints"]))
            nodes, edges, rnd = o["nodes"], o["edges"], o["rnd"]
        return "CGc (mkGcCase %s %s %s %s %s %s %s %s %s)" % (
            q.nat(c["colors_count"]), q.s(_KIND[c["graph"]]), q.b(c["soft"]), q.b(c["intentional"]),
            q.b(c["noagents"]), q.zlist(nodes), q.lst([q.pair(q.z(u), q.z(v)) for u, v in edges]),
            q.zlist(rnd), obs)
    if kind == "gcc":
        obs = "(GErr %s)" % _GERR[o["error"]] if "error" in o else "(GOk %s)" % _cons(o["constraints"])
        vars_ = q.lst([q.pair(q.z(n), q.s("v%02d" % i)) for i, n in enumerate(c["nodes"])])
        return "CGcc (mkGccCase %s %s %s %s %s %s %s)" % (
            q.nat(c["k"]), vars_, q.b(c["soft"]), q.b(c["intentional"]),
            q.lst([q.pair(q.z(u), q.z(v)) for u, v in c["edges"]]), q.zlist(o["rnd"]), obs)
    if kind == "ising":
        if "error" in o["ext"] or "error" in o["int"]:
            raise ValueError("generate_ising raised")
        return "CIsing2 %s %s" % (_ising_term(c, o, "ext"), _ising_term(c, o, "int"))
    if "error" in o:
        if o["error"] != "ValueError":
            raise ValueError("unexpected exception " + o["error"])
        obs = "None"
    else:
        evs = []
        for e in o["events"]:
            if e[0] == "delay":
                evs.append("EDelay %s %s" % (q.s(e[1]), q.z(e[2])))
            else:
                evs.append("EActions %s %s" % (q.s(e[1]), q.slist([a[1] for a in e[2]])))
        obs = "(Some %s)" % q.lst(evs)
    return "CScen (mkScen %s %s %s %s %s %s %s %s)" % (
        q.z(c["evts"]), q.z(c["actions"]), q.z(c["delay"]), q.z(c["init"]), q.z(c["end"]),
        q.slist(c["agents"]), q.lst([q.slist(s[2]) for s in o["samples"]]), obs)


# ------------------------------------------------------------------ evidence helpers
def nontrivial(c, o):
    if c["kind"] in ("gc", "gcc"):
        return bool(o.get("constraints"))
    if c["kind"] == "ising":
        return "constraints" in o.get("ext", {})
    return any(e[0] == "actions" for e in o.get("events", []))


def histogram(cases, obs):
    h = {}
    for c, o in zip(cases, obs):
        k = c["kind"]
        if k == "gc":
            k += "/" + c["graph"] + ("/soft" if c["soft"] else "/hard")
        if k == "ising":
            k += "/%dx%d" % (c["R"], c["C"])
        if isinstance(o, dict) and "error" in o:
            k += "/" + o["error"]
        h[k] = h.get(k, 0) + 1
    return h


def shrink_candidates(c):
    if c["kind"] == "scenario":
        for i in range(len(c["agents"])):
            d = dict(c); d["agents"] = c["agents"][:i] + c["agents"][i + 1:]; yield d
        if c["evts"] > 1:
            d = dict(c); d["evts"] = c["evts"] - 1; yield d
    if c["kind"] == "ising":
        for k in ("R", "C"):
            if c[k] > 1:
                d = dict(c); d[k] = c[k] - 1; yield d
        for k in ("var_dist", "no_agents"):
            if c[k]:
                d = dict(c); d[k] = False; yield d
    if c["kind"] == "gcc" and c["edges"]:
        for i in range(len(c["edges"])):
            d = dict(c); d["edges"] = c["edges"][:i] + c["edges"][i + 1:]; yield d
    if c["kind"] == "gc" and c["variables_count"] > 2 and c["graph"] != "grid":
        d = dict(c); d["variables_count"] = c["variables_count"] - 1; d["m_edge"] = 1; yield d
