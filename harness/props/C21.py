"""C21 -- an agent runs its computations on a single thread, one call at a time.

Every case is a REAL thread-mode run (run_local_thread_dcop + deploy + run) of DPOP / MGM / DSA
on a small DCOP (oneagent / adhoc / random distribution; metrics collection by value change,
cycle change or period -- the latter installs periodic actions), with a perturbed
sys.setswitchinterval and random micro-sleeps inside the recording wrappers.  Wrappers installed
from the harness (no source hook) record threading identity around every computation start /
on_message / pause, every periodic action and every discovery callback, the runtime entry
point ("root") under which each ran, and whether another thread was inside a callback of the
same agent at that moment.
  oracle          every callback ran on thread_<owner agent>, and no overlap was seen
  correspondence  every observed (root, caller thread, target agent, callbacks) item must be a
                  call chain of the Coq model M_Threads, which must predict the same thread
                  for every callback
"""
import random
import time

from harness import coqio as q
from harness.props import _rt_common as rt

ID = "C21"
COQ_REQUIRE = ["M_Threads"]
COQ_CASE_TYPE = "M_Threads.case"
COQ_CHECK = "M_Threads.check_case"
OBLIGATIONS = ["callbacks_on_owner_thread", "callbacks_never_concurrent",
               "loop_callbacks_on_owner_thread", "posting_api_runs_no_callback",
               "orch_start_refuted"]
N_QUICK, N_THOROUGH = 28, 400
N_SEARCH = 72   # size of the extra oracle search after a broken obligation/correspondence (real threaded runs are slow)
PARALLEL = 8
SHARD = 20
RUN_TIMEOUT = 45
FINDING = "C21-orchestrator-start-foreign-thread"
RULE = ("real thread-mode runs (modes: plain; poke = a foreign thread calls end_metrics / current_solution / "
        "current_global_cost / replication_metrics / stop_agents(grace 0..0.2 s) / wait_ready during the run; "
        "timeout = run(timeout=0.6) ended by the library's Timer thread; half of the mgm/dsa runs are "
        "resilient = replication dist_ucs_hostingcosts, level 1..2; 2/3 of the other runs get a scenario "
        "removing an idle agent, as first event or after a delay event; error = a scenario event with an "
        "unsupported action makes a management handler raise while run(timeout=0.6) expires; adsa runs "
        "(periodic actions of the algorithm itself) use poke or timeout): 3-5 variables, algorithm dpop / mgm(stop_cycle 3-8) / dsa(stop_cycle), "
        "distribution oneagent/adhoc/random, collect mode value_change/cycle_change/period(0.01-0.05s), "
        "switch interval 1e-6..5e-3 s, random sleeps <= 0.5 ms in 5% of the callbacks; "
        "non-trivial = at least 20 recorded callbacks on at least 3 threads; distinct = distinct case JSON")
MODELLED = ("the dispatch logic (which runtime entry point runs on which thread and which callbacks it "
            "reaches synchronously) is modelled and the owner-thread / same-thread statements are "
            "theorems under the guard that foreign threads only post messages; Orchestrator.start "
            "violates the guard (refuted lemma + known finding); real preemption, the GIL and data "
            "races cannot be exhibited by the model and are only sampled by these runs")
META = dict(
    level_text=("Partial proof (Coq): in the dispatch model of the thread-mode runtime every callback "
                "reached from an agent's own loop (start-up, every message handler including all "
                "management messages, periodic actions, shutdown) runs on that agent's thread, the "
                "message-posting / flag-setting entry points used by other threads run no callback, and "
                "hence all callbacks of an agent are on one thread (never concurrent), provided foreign "
                "threads use only those entry points; the one place where the code breaks the guard, "
                "Orchestrator.start(), is a refuted lemma and a recorded finding. The model is tied to "
                "the code by real thread-mode runs with thread-identity recording on every check."),
    level_note=("The model cannot exhibit OS preemption or the GIL; 'never concurrently' is proved as "
                "'same thread'. Overlap is additionally watched for in the real runs. Trusted: Coq "
                "kernel, M_Threads.v, the recording wrappers."),
    technique="Coq proof over executable dispatch model + thread-identity recording of real threaded runs",
    design_ref="DESIGN.md §5 C21",
)


def gen(rng, n, tier):
    cases = []
    for i in range(n):
        nv = rng.randint(3, 5)
        algo = rng.choice(["dpop", "mgm", "dsa", "dpop", "mgm", "adsa"])
        spec = rt.gen_dcop_spec(rng, nv, p_ternary=0.0 if algo != "dpop" else 0.15, p_hard=0.0)
        dist = rng.choice(["oneagent", "adhoc", "random"])
        params = {}
        if algo in ("mgm", "dsa"):
            params = {"stop_cycle": rng.randint(3, 8)}
        collect = rng.choice(["value_change", "cycle_change", "period", "period"])
        # poke: a foreign ("user") thread calls the orchestrator's public entry points while the
        # run is going on: the read accessors, wait_ready and stop_agents with a grace period too
        # short for the agents to stop (mgm / dsa then run without stop condition so that
        # computations are still running).  timeout: the run is ended by the library's own Timer.
        # error: the first scenario event has an unsupported action, so a handler of the management
        # computation raises (its error path calls stop_agents(10) from the orchestrator thread)
        # while run(timeout=0.6) makes the library's Timer thread call stop_agents(5) as well
        mode = rng.choice(["plain", "poke", "poke", "timeout", "timeout", "error"])
        if algo in ("mgm", "dsa") and mode != "plain":
            params = {}
        if algo == "adsa":          # the only algorithm with periodic actions of its own; never stops
            params = {"period": rng.choice([0.02, 0.05, 0.1])}
            mode = rng.choice(["poke", "timeout"])
        # resilient: agents host a replication computation, which registers discovery callbacks on
        # agent events (fired when agents come and go); DPOP has no footprint, so mgm / dsa only
        resilient = algo in ("mgm", "dsa") and rng.random() < 0.5
        # scenario (as `pydcop run --scenario`): one extra, idle agent is removed by a scenario
        # event, either as the first event (injected by the thread that calls run()) or after a
        # delay event (injected by a threading.Timer thread); all agents get pause + resume
        scenario = None if resilient else rng.choice([None, "delay_first", "event_first"])
        if mode == "error":
            resilient, scenario = False, "bad_action"
        cases.append(dict(kind="real", mode=mode, grace=rng.choice([0.0, 0.05, 0.2]),
                          resilient=resilient, k=rng.randint(1, 2), scenario=scenario,
                          spec=spec, algo=algo, params=params, dist=dist,
                          n_agents=nv + rng.randint(0, 1) if dist == "oneagent" else rng.randint(2, nv),
                          collect=collect, period=rng.choice([0.01, 0.02, 0.05]),
                          seed=rng.randrange(1 << 30),
                          switch=rng.choice([1e-6, 1e-5, 1e-4, 1e-3, 5e-3]),
                          jitter=rng.choice([0.0, 0.05, 0.05])))
    return cases


def _canon(res):
    """deduplicate items of identical shape; keep counts"""
    items, seen = [], {}
    n_cb, threads = 0, set()
    for it in res["items"]:
        evs = [[e["agent"], e["comp"], e["kind"], rt.thread_class(e["thread"])] for e in it["events"]]
        n_cb += len(evs)
        threads.update(e[3] for e in evs)
        if not evs and not it["root"].startswith("api:"):
            continue
        if not evs and it["root"] == "api:post_msg":
            # posting from a thread that is not the target's own is the interesting (and very
            # frequent) case; keep its signature only
            pass
        key = repr((it["root"], it["target"], it["detail"], rt.thread_class(it["thread"]), evs))
        if key in seen:
            seen[key]["count"] += 1
            continue
        d = dict(root=it["root"], target=it["target"], detail=it["detail"],
                 thread=rt.thread_class(it["thread"]), events=evs, count=1)
        seen[key] = d
        items.append(d)
    ov = [[o["agent"], o["comp"], o["kind"], rt.thread_class(o["thread"]),
           sorted(rt.thread_class(x) for x in o["others"])] for o in res["overlaps"]]
    return dict(items=items, overlaps=ov, n_callbacks=n_cb, threads=sorted(threads))


def _real(case):
    import sys
    sys.setswitchinterval(case["switch"])
    jr = random.Random(case["seed"])

    def jitter():
        if jr.random() < case["jitter"]:
            time.sleep(jr.random() * 0.0005)
    scen = case.get("scenario")
    dcop = rt.build_dcop(case["spec"], case["n_agents"] + (1 if scen else 0))
    algo, cg, dist = rt.build_runtime(dcop, case["algo"], case["dist"], algo_params=case["params"],
                                      rng_seed=case["seed"])
    scenario = None
    if scen:
        from pydcop.dcop.scenario import Scenario, DcopEvent, EventAction
        from pydcop.distribution.objects import Distribution
        idle = rt.aname(case["n_agents"])          # the extra agent hosts nothing
        mapping = {a: list(cs) for a, cs in dist.mapping().items()}
        moved = mapping.pop(idle, [])
        mapping[sorted(mapping)[0]].extend(moved)
        mapping[idle] = []
        dist = Distribution(mapping)
        removal = DcopEvent("e1", actions=[EventAction("remove_agent", agent=idle)])
        if scen == "bad_action":
            events = [DcopEvent("e0", actions=[EventAction("no_such_action", agent=idle)])]
        elif scen == "delay_first":
            events = [DcopEvent("d1", delay=0.2), removal]
        else:
            events = [removal, DcopEvent("d1", delay=0.2)]
        scenario = Scenario(events)
    tt = rt.ThreadTrace(jitter if case["jitter"] else None).install()
    from pydcop.infrastructure.run import run_local_thread_dcop
    t0 = time.time()
    orch = run_local_thread_dcop(algo, cg, dist, dcop, rt.INFINITY, collect_moment=case["collect"],
                                 period=case["period"] if case["collect"] == "period" else None,
                                 replication="dist_ucs_hostingcosts" if case.get("resilient") else None)
    res = {}
    mode = case.get("mode", "plain")
    import threading

    def poker():
        limit = time.time() + 30
        while time.time() < limit and orch.mgt.start_time is None:
            time.sleep(0.01)
        time.sleep(0.15)
        orch.end_metrics()
        orch.current_global_cost()
        orch.current_solution()
        orch.replication_metrics()
        orch.stop_agents(case.get("grace", 0.05))
        orch.wait_ready()
        orch.end_metrics()
    try:
        orch.deploy_computations()
        if case.get("resilient"):
            orch.start_replication(case["k"])
            res["replication_ready"] = orch.mgt.ready_to_run.wait(30)   # bounded, unlike wait_ready()
        if mode == "poke":
            threading.Thread(target=poker, name="c21-user", daemon=True).start()
        orch.run(scenario, timeout=0.6 if mode in ("timeout", "error") else RUN_TIMEOUT)
        res["status"] = orch.status
        res["elapsed"] = time.time() - t0
    finally:
        if orch._timeout_timer is not None:
            orch._timeout_timer.cancel()
        orch.stop_agents(5)
        orch.stop()
    for t in list(tt.agent_threads.values()):
        t.join(10)
    # helper threads the runtime may have started (threading.Timer ...) must have run too
    for t in threading.enumerate():
        if t is not threading.current_thread() and not t.daemon:
            t.join(3)
    res.update(_canon(tt.result()))
    return res


def run_impl(case):
    # the resilient runtime very rarely hangs for good (about 1 run in 400 under load: an agent
    # never unregisters and Orchestrator.run waits without limit); that is not a statement about
    # thread identity, so a run that hit the hard limit is repeated once and only a repeated
    # failure is reported (the first one stays visible as 'first_error' / in the histogram)
    return rt.run_isolated(_real, case, hard_timeout=RUN_TIMEOUT + 20, retries=1)


# ------------------------------------------------------------------ oracle
def _violations(o):
    """[(is_instance_of_the_known_finding, text)]"""
    out = []
    for it in o["items"]:
        for a, c, k, th in it["events"]:
            if th != "agent:" + a:
                known = (it["root"] == "api:orch_start" and a == "orchestrator" and k == "start"
                         and c in ("_directory", "_mgt_orchestrator") and th == it["thread"])
                out.append((known, "%s of computation %s (agent %s) ran on thread %s under %s" % (
                    k, c, a, th, it["root"])))
    for a, c, k, th, others in o["overlaps"]:
        # Orchestrator.start() runs _directory / _mgt_orchestrator start() on the caller's
        # thread while thread_orchestrator is already looping
        known = a == "orchestrator" and (
            (th != "agent:orchestrator" and k == "start" and c in ("_directory", "_mgt_orchestrator"))
            or (th == "agent:orchestrator" and others and all(x == "main" for x in others)
                and _main_only_in_orch_start(o)))
        out.append((known, "%s of %s (agent %s) on %s entered while %s inside a callback of the same agent" % (
            k, c, a, th, others)))
    return out


def _main_only_in_orch_start(o):
    for it in o["items"]:
        if it["thread"] == "main" and it["events"] and it["root"] != "api:orch_start":
            return False
    return True


def oracle(case, o):
    if "error" in o:
        return "run failed: %s %s" % (o["error"], o.get("detail", ""))
    if o["status"] != "OK" and case["algo"] == "dpop" and case.get("mode", "plain") not in ("timeout", "error"):
        return "run ended with status %s" % o["status"]
    v = _violations(o)
    if v:
        unknown = [t for k, t in v if not k]
        return "; ".join((unknown or [t for _, t in v])[:4])
    return None


def classify(case, o, msg):
    if "error" in o:
        return None
    v = _violations(o)
    if v and all(k for k, _ in v):
        return FINDING
    return None


# ------------------------------------------------------------------ Gallina
API = {"agent_start": "ApiAgentStart", "stop": "ApiStop", "clean_shutdown": "ApiCleanShutdown",
       "post_msg": "ApiPostMsg", "run": "ApiRun", "pause": "ApiPause", "unpause": "ApiUnpause",
       "add_computation": "ApiAddComputation", "remove_computation": "ApiRemoveComputation",
       "orch_start": "ApiOrchStart", "orch_deploy": "ApiOrchDeploy",
       "orch_start_replication": "ApiOrchStartReplication", "orch_run": "ApiOrchRun",
       "orch_stop_agents": "ApiOrchStopAgents", "orch_stop": "ApiOrchStop",
       "orch_mgt_method": "ApiOrchMgtMethod", "orch_on_timeout": "ApiOrchOnTimeout",
       "orch_process_event": "ApiOrchProcessEvent", "orch_read": "ApiOrchRead",
       "orch_wait_ready": "ApiOrchWaitReady"}
MGT = {"metrics_mode": "MgMetricsMode", "deploy": "MgDeploy", "replication": "MgReplication",
       "run_computations": "MgRun", "pause_computations": "MgPause", "resume_computations": "MgResume",
       "setup_repair": "MgSetupRepair", "repair_run": "MgRepairRun", "stop": "MgStop",
       "agent_removed": "MgAgentRemoved"}
KIND = {"handler": "KHandler", "start": "KStart", "on_message": "KOnMessage", "pause": "KPause", "periodic": "KPeriodic",
        "disc_cb": "KDiscCb"}


def _thread(t):
    if t == "main":
        return "TMain"
    if t == "timer":
        return "TTimer"
    return "(TAgent %s)" % q.s(t[len("agent:"):])


def _root(it):
    r = it["root"]
    if r == "loop:on_start":
        return "RLoopOnStart"
    if r == "loop:periodic":
        return "RLoopPeriodic"
    if r == "loop:on_stop":
        return "RLoopOnStop"
    if r == "loop:msg":
        dest, typ = it["detail"]
        if dest.startswith("_mgt_") and dest != "_mgt_orchestrator" and typ in MGT:
            return "(RLoopMgt %s)" % MGT[typ]
        return "RLoopMsg"
    if r.startswith("api:") and r[4:] in API:
        return "(RApi %s)" % API[r[4:]]
    raise ValueError("callback outside every entry point the model has: root %r" % r)


def coq_case(case, o):
    if "error" in o:
        return None
    terms = []
    for it in o["items"]:
        calls = q.lst(["(%s, %s, %s)" % (q.s(a), q.s(c), KIND[k]) for a, c, k, th in it["events"]])
        evs = q.lst(["(mkEv %s %s %s %s)" % (q.s(a), q.s(c), KIND[k], _thread(th))
                     for a, c, k, th in it["events"]])
        terms.append("(mkItem %s %s %s %s, %s)" % (_root(it), _thread(it["thread"]),
                                                   q.s(it["target"]), calls, evs))
    return "mkCase %s" % q.lst(terms)


def nontrivial(case, o):
    return o.get("n_callbacks", 0) >= 20 and len(o.get("threads", [])) >= 3


def histogram(cases, obs):
    h = {}
    for c, o in zip(cases, obs):
        k = "%s/%s/%s/%s%s%s" % (c["algo"], c["dist"], c["collect"], c.get("mode", "plain"),
                                 "/resilient" if c.get("resilient") else "",
                                 "/scenario-" + c["scenario"] if c.get("scenario") else "")
        h[k] = h.get(k, 0) + 1
        if o.get("first_error"):
            h["retried/" + o["first_error"]] = h.get("retried/" + o["first_error"], 0) + 1
        if "error" in o:
            h["error/" + o["error"]] = h.get("error/" + o["error"], 0) + 1
            continue
        h["callbacks"] = h.get("callbacks", 0) + o["n_callbacks"]
        for it in o["items"]:
            for a, c_, kd, th in it["events"]:
                h["kind/" + kd] = h.get("kind/" + kd, 0) + it["count"]
            h["root/" + it["root"]] = h.get("root/" + it["root"], 0) + it["count"]
    return h
