"""C05 -- Max-Sum without damping is exact on acyclic factor graphs (maxsum + amaxsum)."""
import itertools
from fractions import Fraction

from harness import coqio as q

ID = "C05"
COQ_REQUIRE = ["Net", "M_SyncMixin", "M_MaxSum"]
COQ_CASE_TYPE = "M_MaxSum.case"
COQ_CHECK = "M_MaxSum.check_case"
OBLIGATIONS = ["maxsum_factor_marginal_partial", "maxsum_select_value_partial", "maxsum_variable_message_partial",
               "maxsum_leaf_message_partial", "approx_match_stability0", "suppression_exact_repeat_ok",
               "amaxsum_leafs_silent", "amaxsum_tree_exact_refuted", "maxsum_tree_exact_default_stability_refuted",
               "isolated_variable_initial_value_refuted",
               "maxsum_graph_ok", "maxsum_algo_ok", "maxsum_refines_rounds", "maxsum_suppression_lifted",
               "maxsum_tree_messages", "maxsum_tree_select", "maxsum_tree_exact",
               "amaxsum_spoken_ok_all", "amaxsum_basic_invariants", "amaxsum_edge_consistent",
               "amaxsum_quiescent_fixed_point", "amaxsum_fixed_point_exact", "amaxsum_tree_exact",
               "amaxsum_tree_exact_default_stability_refuted"]
N_QUICK, N_THOROUGH = 250, 3000
PARALLEL = 8
SHARD = 20
RULE = ("7% A-Max-Sum forests that, once quiescent, go through 4-7 global pause/resume rounds (oracle only); "
        "6% large-magnitude forests (integer costs 10^5..2^24, sign following the objective; exact in binary64); "
        "random forest-shaped factor graphs (85%; 15% with one extra cycle-closing factor, model validation only) "
        "of 1-7 variables, domain sizes 1/2/4, integer n-ary (arity 1-3) cost tables, optional integer variable "
        "costs and initial values, min and max, unique optimum enforced for the forests; algorithm maxsum "
        "(synchronous, over the real SynchronousComputationMixin) or amaxsum, damping 0 (a few cases 0.5: model "
        "validation only), stability 0 / 0.1 / 0.25, start_messages leafs / leafs_vars / all; random start orders "
        "and per-channel-FIFO schedules from 6 policies, run either to completion (quiescence for amaxsum, "
        "nodes+3 rounds at every node for maxsum) or cut after a random number of steps. "
        "non-trivial = at least one message handled by a factor with >= 2 variables; distinct = distinct case JSON")
MODELLED = ("factor_costs_for_var, costs_for_factor, select_value, apply_damping, approx_match + SAME_COUNT and the "
            "on_start / on_new_cycle / _on_maxsum_msg handlers of the variable and factor computations of maxsum.py "
            "and amaxsum.py are modelled (M_MaxSum.v), hosted by the C08 mixin model resp. directly by Net.v. "
            "Theorems: see OBLIGATIONS / design_notes/C05.md. The correspondence replays the recorded schedule "
            "in the model and compares every message table (exact rationals), every value selection with its cost, "
            "every on_new_cycle call, the final cycle counters and the in-flight messages; for amaxsum the edge "
            "invariant of the proof (pending table = _prev_messages entry = table recomputed from the sender's "
            "current costs) is checked on the real objects.")
META = dict(
    level_text=("Synchronous Max-Sum: full proof (Coq), for all well-formed DCOPs, sizes, arities, min and max, any "
                "start_messages and EVERY schedule of the asynchronous network: on a factor graph that is a forest of "
                "height <= H with a unique optimum, stability 0 and damping 0, once every computation that has a "
                "neighbour has completed more than H cycles the selected assignment is that optimum "
                "(maxsum_tree_exact). Chain of theorems: the instance meets the contract of the C08 mixin model "
                "(maxsum_graph_ok, maxsum_algo_ok); every run refines a functional lock-step system "
                "(maxsum_refines_rounds, from C08's sync_round_inputs); the SAME_COUNT cut-off never changes what a "
                "receiver holds (maxsum_suppression_lifted); the message on an edge is the exact min/max-marginal of "
                "the subtree behind it up to a constant (maxsum_tree_messages); value selection is the optimum "
                "(maxsum_tree_select). Asynchronous A-Max-Sum: full proof for start_messages leafs_vars / all "
                "(spoken_ok), stability 0, damping 0, EVERY schedule: at quiescence the selected assignment is the "
                "unique optimum (amaxsum_tree_exact). Chain: basic invariants of all reachable configurations "
                "(amaxsum_basic_invariants); edge consistency - the last message on every edge, whether delivered, in "
                "flight, buffered before start or withheld as an exact repeat by the SAME_COUNT block, is the table "
                "its sender computes from what it holds now (amaxsum_edge_consistent); hence a quiescent "
                "configuration solves the message equations (amaxsum_quiescent_fixed_point) and on a forest every "
                "solution is the exact min/max-marginal (amaxsum_fixed_point_exact). The default "
                "start_messages=leafs is refuted (deadlock) and characterised for every schedule "
                "(amaxsum_leafs_silent). Refuted with machine-checked witnesses on the code as it is (known findings): "
                "A-Max-Sum with the default start_messages deadlocks on a 3-variable chain; synchronous Max-Sum with "
                "the default stability 0.1 freezes a changing message on a 4-variable chain; an isolated variable "
                "keeps its initial value. The correspondence run replays every schedule in the model (all message "
                "tables and selections compared exactly), checks the brute-force optimum on every complete run of a "
                "forest instance and - independently evaluating the hypotheses of maxsum_tree_exact on the real run, "
                "also on cut runs - as soon as every computation exceeds the forest height; it also checks that the "
                "theorem's forest predicate agrees with the harness's union-find/BFS forest height on every graph. "
                "The invariant of amaxsum_edge_consistent is evaluated on the REAL amaxsum objects at the end of every "
                "run with stability 0 / damping 0 / start leafs_vars|all (complete or cut, forest or cyclic)."),
    level_note=("Trusted: Coq kernel/vm_compute, M_MaxSum.v + M_SyncMixin.v + Net.v as a rendering of the Python "
                "code, the thread-free netdriver. Costs are exact dyadic rationals in generated cases (integer "
                "tables, power-of-two domain sizes); float rounding is outside the model. Message tables are "
                "positional over the domain (every message of the code carries the whole domain). Pause/resume "
                "(on_pause of amaxsum) is not modelled."),
    technique="Coq proofs over an executable network model + schedule-replay correspondence + brute-force oracle",
    design_ref="DESIGN.md §5 C05",
)

FAC_BASE = 100


def vname(i):
    return "v%02d" % i


def cname(k):
    return "c%02d" % k


def node_id(name):
    return int(name[1:]) + (FAC_BASE if name[0] == "c" else 0)


# ------------------------------------------------------------------ generator
def _gen_graph(rng, tree=True):
    nv = rng.choice([1, 2, 2, 3, 3, 4, 4, 5, 5, 6, 7])
    doms = [rng.choice([1, 2, 2, 2, 4, 4]) for _ in range(nv)]
    # random forest over the bipartite graph: grow components variable by variable
    facs = []
    comp = list(range(nv))          # component id of each variable

    def merge(vs):
        c0 = comp[vs[0]]
        for v in vs[1:]:
            cv = comp[v]
            for i in range(nv):
                if comp[i] == cv:
                    comp[i] = c0
    order = list(range(nv))
    rng.shuffle(order)
    tries = 0
    while tries < 3 * nv:
        tries += 1
        ar = rng.choice([2, 2, 2, 3])
        if ar > nv:
            continue
        vs = rng.sample(range(nv), ar)
        if len({comp[v] for v in vs}) < ar:
            continue                # would close a cycle
        if rng.random() < 0.25:
            continue
        merge(vs)
        facs.append(vs)
    for v in range(nv):             # unary factors
        if rng.random() < 0.3:
            facs.append([v])
    if not tree and nv >= 2:
        # close a cycle: a second factor over two variables already connected (or the same scope again)
        cands = [(a, b) for a in range(nv) for b in range(nv) if a != b and comp[a] == comp[b]]
        if cands:
            a, b = rng.choice(cands)
            facs.append([a, b])
    rng.shuffle(facs)
    return nv, doms, facs


def _is_forest(nv, facs):
    parent = {}

    def find(x):
        while parent.setdefault(x, x) != x:
            parent[x] = parent[parent[x]]
            x = parent[x]
        return x
    for k, sc in enumerate(facs):
        if len(set(sc)) != len(sc):
            return False
        for v in sc:
            a, b = find(("v", v)), find(("c", k))
            if a == b:
                return False
            parent[a] = b
    return True


def _forest_height(c):
    """-1 if the factor graph has a cycle; otherwise the largest number of edges on a path that starts at a
    variable (0 when there is no constraint): independent of the model's unrolling (plain BFS on the tree)"""
    nv = len(c["vars"])
    scopes = [f["scope"] for f in c["facs"]]
    if not _is_forest(nv, scopes):
        return -1
    adj = {("v", i): [] for i in range(nv)}
    for k, sc in enumerate(scopes):
        adj[("c", k)] = [("v", v) for v in sc]
        for v in sc:
            adj[("v", v)].append(("c", k))
    best = 0
    for i in range(nv):
        dist = {("v", i): 0}
        todo = [("v", i)]
        while todo:
            n = todo.pop()
            for m in adj[n]:
                if m not in dist:
                    dist[m] = dist[n] + 1
                    todo.append(m)
        best = max(best, max(dist.values()))
    return best


def _brute(c):
    """all optimal assignments (list of tuples of domain indices) and the optimal cost"""
    doms = [v["dom"] for v in c["vars"]]
    best, arg = None, []
    sign = 1 if c["mode"] == "min" else -1
    for a in itertools.product(*[range(d) for d in doms]):
        cost = 0
        for i, v in enumerate(c["vars"]):
            if v["unary"] is not None:
                cost += v["unary"][a[i]]
        for f in c["facs"]:
            idx = 0
            for v in f["scope"]:
                idx = idx * doms[v] + a[v]
            cost += f["tab"][idx]
        if best is None or sign * cost < sign * best:
            best, arg = cost, [a]
        elif cost == best:
            arg.append(a)
    return arg, best


def _gen_large(rng):
    """large-magnitude stream (6 %): forests with integer costs of magnitude 10^5 .. 2^24, positive when minimising
    and negative when maximising (sometimes mixed), so that every marginal lies far beyond any "big number" used
    in place of infinity (seeded change C05-m3: optimum initialised with +-10000).  Exactness in binary64: on a
    forest a message depends only on the subtree behind its edge, so its denominator divides the product of the
    domain sizes on one path (<= 4^7 = 2^14); |beliefs| < 2^29 and the running sum of costs_for_factor < 2^35,
    i.e. < 50 significant bits everywhere.  stability 0 (no float division), damping 0, forests only."""
    nv, doms, facs = _gen_graph(rng, True)
    mode = rng.choice(["min", "max"])
    mag = rng.choice([10**5, 2**20, 2**24])
    mixed = rng.random() < 0.15
    sign = 1 if mode == "min" else -1

    def cost():
        v = rng.randint(mag // 8, mag)
        return v * rng.choice([-1, 1]) if mixed else sign * v
    vs = [dict(dom=doms[i], unary=[cost() for _ in range(doms[i])] if rng.random() < 0.3 else None, init=None)
          for i in range(nv)]
    fs = []
    for sc in facs:
        size = 1
        for v in sc:
            size *= doms[v]
        fs.append(dict(scope=sc, tab=[cost() for _ in range(size)]))
    algo = rng.choice(["maxsum", "maxsum", "amaxsum"])
    c = dict(algo=algo, mode=mode, vars=vs, facs=fs, stab="0", damp="0", dnodes=rng.choice(["both", "none"]),
             start=rng.choice(["leafs", "leafs_vars", "all"]) if algo == "maxsum" else "all",
             seed=rng.randrange(10**9), steps=None if rng.random() < 0.8 else rng.randint(3, 60))
    c["forest"] = _is_forest(nv, [f["scope"] for f in fs])
    if not c["forest"] or len(_brute(c)[0]) != 1:
        return None
    return c


def _gen_pause(rng):
    """pause/resume stream (7 %): A-Max-Sum forests (stability 0, damping 0, start leafs_vars / all, no initial
    values, unique optimum) that are run to quiescence and then go through 4-7 GLOBAL pause / resume rounds (what the
    orchestrator does around every repair): on resume on_pause flushes the cost tables and _prev_messages and sends
    as for a start, so after every round the quiescent network must again select the unique optimum.  The model
    covers the part of the run before the first pause; the rounds are checked by the brute-force oracle only."""
    nv, doms, facs = _gen_graph(rng, True)
    vs = [dict(dom=doms[i], unary=[rng.randint(0, 9) for _ in range(doms[i])] if rng.random() < 0.4 else None, init=None)
          for i in range(nv)]
    fs = []
    for sc in facs:
        size = 1
        for v in sc:
            size *= doms[v]
        fs.append(dict(scope=sc, tab=[rng.randint(0, 9) for _ in range(size)]))
    c = dict(algo="amaxsum", mode=rng.choice(["min", "max"]), vars=vs, facs=fs, stab="0", damp="0",
             dnodes=rng.choice(["both", "none"]), start=rng.choice(["leafs_vars", "all"]), seed=rng.randrange(10**9),
             steps=None, forest=True, pause_rounds=rng.randint(4, 7))
    if not fs or len(_brute(c)[0]) != 1:
        return None
    return c


def gen(rng, n, tier):
    cases = []
    while len(cases) < n:
        r0 = rng.random()
        if 0.04 <= r0 < 0.10:
            c = _gen_large(rng)
            if c is not None:
                cases.append(c)
            continue
        if 0.10 <= r0 < 0.17:
            c = _gen_pause(rng)
            if c is not None:
                cases.append(c)
            continue
        if r0 < 0.04:
            # chains with near-constant large costs: every relative change is small, so the
            # stability cut-off (approx_match + SAME_COUNT) is exercised
            nv = rng.choice([3, 4, 5, 6])
            base = rng.choice([50, 100, 1000])
            algo = rng.choice(["maxsum", "amaxsum"])
            c = dict(algo=algo, mode=rng.choice(["min", "max"]),
                     vars=[dict(dom=2, unary=None, init=None) for _ in range(nv)],
                     facs=[dict(scope=[i, i + 1], tab=[base + rng.randint(0, 9) for _ in range(4)]) for i in range(nv - 1)],
                     stab=rng.choice(["0.1", "0.1", "0.25", "0"]), damp="0", dnodes="none",
                     start="leafs" if algo == "maxsum" else "all", seed=rng.randrange(10**9), steps=None, forest=True)
            if len(_brute(c)[0]) == 1:
                cases.append(c)
            continue
        tree = rng.random() < 0.85
        nv, doms, facs = _gen_graph(rng, tree)
        mode = rng.choice(["min", "max"])
        big = rng.random() < 0.2
        hi = 40 if big else 9
        vs = []
        for i in range(nv):
            un = [rng.randint(0, hi) for _ in range(doms[i])] if rng.random() < 0.35 else None
            init = rng.randrange(doms[i]) if rng.random() < 0.2 else None
            vs.append(dict(dom=doms[i], unary=un, init=init))
        fs = []
        for sc in facs:
            size = 1
            for v in sc:
                size *= doms[v]
            fs.append(dict(scope=sc, tab=[rng.randint(0, hi) for _ in range(size)]))
        algo = rng.choice(["maxsum", "amaxsum"])
        r = rng.random()
        stab = "0" if r < 0.6 else "0.1" if r < 0.85 else "0.25"
        damp = "0.5" if rng.random() < 0.06 else "0"
        r = rng.random()
        if algo == "maxsum":
            start = "leafs" if r < 0.5 else "leafs_vars" if r < 0.7 else "all"
        else:
            start = "leafs" if r < 0.3 else "leafs_vars" if r < 0.5 else "all"
        c = dict(algo=algo, mode=mode, vars=vs, facs=fs, stab=stab, damp=damp,
                 dnodes=rng.choice(["both", "vars", "factors", "none"]), start=start,
                 seed=rng.randrange(10**9), steps=None if rng.random() < 0.7 else rng.randint(3, 60))
        forest = _is_forest(nv, [f["scope"] for f in fs])
        c["forest"] = forest
        if damp != "0" and c["steps"] is None:
            # damping 0.5 halves the weight of the past every cycle: after ~40 cycles at one node the tables are
            # no longer exact in binary64 and the exact-rational model cannot follow (seen once in 3000 cases: a
            # schedule that let one component run 140 cycles).  Model validation only anyway: bound the run
            # (derived from the case seed so that the random stream of the generator is unchanged).
            c["steps"] = 5 + c["seed"] % 66
        if forest:
            # the property needs a unique optimum: perturb a table until it is
            for _ in range(30):
                arg, _best = _brute(c)
                if len(arg) == 1:
                    break
                tgt = rng.choice(fs) if fs else None
                if tgt is None:
                    if vs[0]["unary"] is None:
                        vs[0]["unary"] = [0] * doms[0]
                    vs[0]["unary"][rng.randrange(doms[0])] += rng.choice([-1, 1])
                else:
                    tgt["tab"][rng.randrange(len(tgt["tab"]))] += rng.choice([-3, -2, -1, 1, 2, 3])
            arg, _best = _brute(c)
            if len(arg) != 1:
                continue
        else:
            # cyclic graph: model validation only; bound the run so every float stays exact
            c["steps"] = rng.randint(5, 70)
            c["vars"] = [dict(v, dom=v["dom"]) for v in vs]
        cases.append(c)
    return cases


# ------------------------------------------------------------------ implementation driver
def _frac(x):
    if x is None:
        return None
    if isinstance(x, int):
        return [x, 1]
    a, b = float(x).as_integer_ratio()
    return [a, b]


def _tab(costs, dom):
    """message dict -> positional list over the domain; None if it is not exactly a table over the domain"""
    if list(costs.keys()) != list(range(dom)):
        raise ValueError("message keys %r are not the domain 0..%d" % (list(costs.keys()), dom - 1))
    return [_frac(costs[d]) for d in range(dom)]


def build(c):
    """instantiate the real computations of case c"""
    from importlib import import_module
    import numpy
    from pydcop.algorithms import load_algorithm_module, AlgorithmDef, ComputationDef
    from pydcop.dcop.dcop import DCOP
    from pydcop.dcop.objects import Variable, VariableWithCostDict
    from pydcop.dcop.relations import NAryMatrixRelation
    dcop = DCOP("t", c["mode"])
    vs = []
    for i, v in enumerate(c["vars"]):
        dom = list(range(v["dom"]))
        if v["unary"] is not None:
            var = VariableWithCostDict(vname(i), dom, {d: v["unary"][d] for d in dom}, initial_value=v["init"])
        else:
            var = Variable(vname(i), dom, initial_value=v["init"])
        vs.append(var)
        dcop.add_variable(var)
    for k, f in enumerate(c["facs"]):
        shape = [c["vars"][v]["dom"] for v in f["scope"]]
        m = numpy.array(f["tab"], dtype=float).reshape(shape)
        dcop.add_constraint(NAryMatrixRelation([vs[v] for v in f["scope"]], m, name=cname(k)))
    mod = load_algorithm_module(c["algo"])
    gm = import_module("pydcop.computations_graph." + mod.GRAPH_TYPE)
    cg = gm.build_computation_graph(dcop)
    params = {"damping": float(c["damp"]), "noise": 0.0, "stability": float(c["stab"]),
              "damping_nodes": c["dnodes"], "start_messages": c["start"]}
    adef = AlgorithmDef.build_with_default_param(c["algo"], params, mode=c["mode"],
                                                 parameters_definitions=mod.algo_params)
    comps = {}
    for node in cg.nodes:
        comps[node.name] = mod.build_computation(ComputationDef(node, adef))
    return comps, mod


def run_impl(c):
    import logging
    import random
    import numpy
    logging.disable(logging.CRITICAL)
    from harness.pydrv.netdriver import NetDriver, pick_policy
    from pydcop.algorithms import maxsum as MS
    random.seed(c["seed"])
    numpy.random.seed(c["seed"] % (2**32))
    rng = random.Random(c["seed"])
    comps, mod = build(c)
    sync = c["algo"] == "maxsum"
    doms = {vname(i): v["dom"] for i, v in enumerate(c["vars"])}

    def dom_of_msg(src, dst):
        return doms[src] if src[0] == "v" else doms[dst]
    log = []          # global ordered log: cycle / sel / raise
    sels = {n: [] for n in comps if n[0] == "v"}
    for name, comp in comps.items():
        if name[0] == "v":
            orig_vs = comp.value_selection

            def vs_wrap(val, cost=0, _o=orig_vs, _n=name):
                sels[_n].append([val, _frac(cost)])
                log.append(["sel", _n, val, _frac(cost)])
                return _o(val, cost)
            comp.value_selection = vs_wrap
        if sync:
            orig_cycle = comp.on_new_cycle

            def cyc_wrap(messages, cycle_id, _o=orig_cycle, _n=name):
                log.append(["cycle", _n, cycle_id, [[s, _tab(m.costs, dom_of_msg(s, _n))] for s, (m, _) in messages.items()]])
                return _o(messages, cycle_id)
            comp.on_new_cycle = cyc_wrap
    drv = NetDriver(comps)
    sends = {n: [] for n in comps}
    received = set()
    orig = drv._sender

    def sender(src, dst, msg, prio=None, on_error=None):
        if prio != 19:
            body = _tab(msg.costs, dom_of_msg(src, dst)) if msg.type == "max_sum" else None
            sends[src].append([dst, getattr(msg, "cycle_id", 0) if sync else 0, body])
        orig(src, dst, msg, prio, on_error)
    for comp in comps.values():
        comp._msg_sender = sender
    real_do = drv.do

    def do(act):
        ne = len(drv.events)
        real_do(act)
        for e in drv.events[ne:]:
            if e[0] == "raise":
                log.append(["raise", e[1], e[2], e[3]])
            elif e[0] == "deliver" and e[3].type == "max_sum" and e[2] in drv.started:
                received.add((e[1], e[2]))
    drv.do = do
    policy = pick_policy(rng, list(comps))
    nn = len(comps)
    rounds = nn + 3
    if c["steps"] is not None:
        drv.run_random(rng, max_steps=c["steps"], policy=policy)
        complete = False
    elif sync:
        def stop(d):
            return all(cp.current_cycle >= rounds for cp in comps.values() if list(cp.neighbors))
        drv.run_random(rng, max_steps=6000, policy=policy, stop=stop)
        complete = stop(drv) and len(drv.started) == nn
    else:
        drv.run_random(rng, max_steps=6000, policy=policy)
        complete = not drv.enabled()
    # messages handled after a pre-start buffering also count as received
    inflight = []
    for (s, d), ql in sorted(drv.chans.items()):
        if ql and d in comps:
            inflight.append([s, d, len(ql)])
    # frozen edges: the message the node would compute now differs from the last one it sent, but the
    # stability cut-off says "same" (observed with the real functions)
    frozen, silent = [], []
    for name, comp in comps.items():
        prev = comp._prev_messages
        if name[0] == "v":
            facs = comp.factors if sync else comp._factors
            costs = comp.costs if sync else comp._costs
            for f in facs:
                p, cnt = prev.get(f, (None, 0))
                if p is None:
                    continue
                now = MS.costs_for_factor(comp.variable, f, facs, costs)
                if now != p and MS.approx_match(now, p, comp.stability_coef):
                    frozen.append([name, f])
        else:
            for v in comp.variables:
                p, cnt = prev.get(v.name, (None, 0))
                if p is None:
                    continue
                now = MS.factor_costs_for_var(comp.factor, v, comp._costs, comp.mode)
                if now != p and MS.approx_match(now, p, comp.stability_coef):
                    frozen.append([name, v.name])
        for nb in comp.neighbors:
            if (nb, name) not in received:
                silent.append([nb, name])
    values = {n: comps[n].current_value for n in sorted(comps) if n[0] == "v"}
    cycles = [[n, comps[n].current_cycle] for n in sorted(comps)] if sync else []
    res = dict(sched=list(drv.schedule), log=list(log), sends={n: list(v) for n, v in sends.items()},
               sels={n: list(v) for n, v in sels.items()}, values=values, cycles=cycles,
               inflight=inflight, complete=complete, frozen=frozen, silent=sorted(silent), policy=policy,
               started=sorted(drv.started), edge_bad=[] if sync else _edge_consistency(comps, drv, MS))
    if c.get("pause_rounds") and not sync and complete:
        ne = len(drv.events)
        res["pause_values"] = _pause_rounds(c, comps, drv, rng)
        res["pause_raises"] = [[e[1], e[2], e[3]] for e in drv.events[ne:] if e[0] == "raise"]
    return res


def _pause_rounds(c, comps, drv, rng):
    """global pause / resume rounds on the quiescent network (driver actions P / R, random orders, a few deliveries
    between the resumes); per round: the selected values and whether the network is quiescent again"""
    out = []
    names = sorted(comps)
    for _ in range(c["pause_rounds"]):
        order = names[:]
        rng.shuffle(order)
        for n in order:
            drv.do(["P", n])
        drv.run_random(rng, max_steps=3000)
        order = names[:]
        rng.shuffle(order)
        for n in order:
            drv.do(["R", n])
            for _k in range(rng.randint(0, 3)):
                acts = [a for a in drv.enabled() if a[0] == "D"]
                if acts:
                    drv.do(rng.choice(acts))
        drv.run_random(rng, max_steps=6000)
        out.append([{n: comps[n].current_value for n in names if n[0] == "v"}, not drv.enabled()])
    return out


def _edge_consistency(comps, drv, MS):
    """The invariant of the Coq theorem amaxsum_edge_consistent, evaluated on the REAL objects at the end of the run
    (complete or cut, forest or cyclic).  For every edge a->b with a started: pend = the table b will hold for a
    once everything queued from a to b is handled (last message buffered by b before its start / still in the
    channel, else b's _costs entry).  (1) an entry of a._prev_messages for b equals pend; (2) if a may speak (a
    variable; a factor holding a table of every variable of its scope) pend equals the table a computes NOW from
    the costs it holds (recomputed with the real costs_for_factor / factor_costs_for_var; floats compared
    exactly: the table was produced by the same function on the same inputs).  Returns the violating edges."""
    bad = []
    for name, comp in comps.items():
        if name not in drv.started:
            continue
        if name[0] == "v":
            nbs = [(f, None) for f in comp._factors]
            speaks = True
        else:
            nbs = [(v.name, v) for v in comp.variables]
            speaks = len(comp._costs) == len(comp.factor.dimensions)
        for nb, v in nbs:
            queue = [m for (s, m, _t) in comps[nb]._paused_messages_recv if s == name and m.type == "max_sum"]
            queue += [m for m in drv.chans.get((name, nb), []) if m.type == "max_sum"]
            pend = queue[-1].costs if queue else comps[nb]._costs.get(name)
            prev = comp._prev_messages.get(nb, (None, 0))[0]
            if prev is not None and prev != pend:
                bad.append([name, nb, "prev"])
            if speaks:
                now = MS.costs_for_factor(comp.variable, nb, comp._factors, comp._costs) if v is None else \
                    MS.factor_costs_for_var(comp.factor, v, comp._costs, comp.mode)
                if now != pend:
                    bad.append([name, nb, "now"])
    return bad


# ------------------------------------------------------------------ oracle
def applicable(c, o):
    """hypotheses of C05: forest, unique optimum (enforced by gen for forests), damping 0, complete run"""
    return bool(c["forest"] and c["damp"] == "0" and o.get("complete"))


def exact_by_theorem(c, o):
    """hypotheses of the Coq theorem maxsum_tree_exact, evaluated independently on the real run (also on runs
    that were cut): synchronous maxsum, forest of height H, stability 0, damping 0, no constraint-less variable
    with an initial value, every computation started and every computation that has a neighbour has completed
    more than H cycles"""
    if c["algo"] != "maxsum" or not c["forest"] or c["stab"] != "0" or c["damp"] != "0":
        return False
    h = _forest_height(c)
    if h < 0:
        return False
    used = {v for f in c["facs"] for v in f["scope"]}
    if any(i not in used and v["init"] is not None for i, v in enumerate(c["vars"])):
        return False
    nn = len(c["vars"]) + len(c["facs"])
    if len(o.get("started", [])) != nn:
        return False
    lonely = {cname(k) for k, f in enumerate(c["facs"]) if not f["scope"]} | \
             {vname(i) for i in range(len(c["vars"])) if i not in used}
    return all(k >= h + 1 for n, k in o["cycles"] if n not in lonely)


def async_theorem_params(c):
    """parameter hypotheses of amaxsum_edge_consistent / amaxsum_tree_exact: stability 0, damping 0, spoken_ok"""
    return c["algo"] == "amaxsum" and c["stab"] == "0" and c["damp"] == "0" and c["start"] in ("leafs_vars", "all")


def oracle(c, o):
    for e in o["log"]:
        if e[0] == "raise":
            return "handler raised %s at %s: %s" % (e[2], e[1], e[3])
    if async_theorem_params(c) and o.get("edge_bad"):
        return "edge-consistency (amaxsum_edge_consistent) violated on the real run at %s" % o["edge_bad"][:4]
    if not (applicable(c, o) or exact_by_theorem(c, o)):
        return None
    arg, best = _brute(c)
    if len(arg) != 1:
        return None
    opt = arg[0]
    got = [o["values"][vname(i)] for i in range(len(c["vars"]))]
    if list(opt) != got:
        return "%s %s (stability %s, start_messages %s): selected %s, unique optimum %s (cost %s)" % (
            c["algo"], c["mode"], c["stab"], c["start"], got, list(opt), best)
    # global pause / resume rounds: every resume flushes the tables and restarts the exchange, so the quiescent
    # network must select the unique optimum again after every round (hypotheses as for amaxsum_tree_exact)
    if "pause_values" in o and async_theorem_params(c) and all(v["init"] is None for v in c["vars"]):
        if o.get("pause_raises"):
            return "pause/resume: handler raised %s" % o["pause_raises"][0]
        for r, (vals, quiet) in enumerate(o["pause_values"]):
            got = [vals[vname(i)] for i in range(len(c["vars"]))]
            if not quiet:
                return "pause/resume round %d: the network is not quiescent after 6000 actions" % (r + 1)
            if got != list(opt):
                return "pause/resume round %d of %s %s (start_messages %s): selected %s, unique optimum %s" % (
                    r + 1, c["algo"], c["mode"], c["start"], got, list(opt))
    return None


def _isolated_init(c, o):
    """the wrong variables are exactly isolated variables (no factor) that kept a non-optimal initial value"""
    arg, _ = _brute(c)
    if len(arg) != 1:
        return False
    used = {v for f in c["facs"] for v in f["scope"]}
    wrong = [i for i in range(len(c["vars"])) if o["values"][vname(i)] != arg[0][i]]
    return bool(wrong) and all(i not in used and c["vars"][i]["init"] is not None
                               and o["values"][vname(i)] == c["vars"][i]["init"] for i in wrong)


def classify(c, o, msg):
    if not msg.startswith(("maxsum", "amaxsum")):
        return None
    if _isolated_init(c, o):
        return "C05-isolated-variable-keeps-initial-value"
    # deadlock symptom: at quiescence some factor still waits for a variable that never spoke
    if c["algo"] == "amaxsum" and c["start"] == "leafs" and any(s[0][0] == "v" for s in o["silent"]) and not o["frozen"]:
        return "C05-amaxsum-start-deadlock"
    if c["stab"] != "0" and o["frozen"] and not (c["algo"] == "amaxsum" and o["silent"]):
        return "C05-stability-cutoff-freezes"
    return None


# ------------------------------------------------------------------ Gallina
def _qtab(t):
    """[[num, den], ...] -> qt [nums] den (common power-of-two denominator)"""
    den = 1
    for _n, d in t:
        den = max(den, d)
    return "(qt %s %s)" % (q.zlist([n * (den // d) for n, d in t]), q.z(den))


def _q(x):
    return "(qm %s %s)" % (q.z(x[0]), q.z(x[1]))


def _oq(x):
    return "None" if x is None else "(Some %s)" % _q(x)


def _par(c):
    st = Fraction(c["stab"])
    dm = Fraction(c["damp"])
    return "(mkPar %s %s %s %s %s %s)" % (
        q.b(c["mode"] == "max"), _q([st.numerator, st.denominator]), _q([dm.numerator, dm.denominator]),
        q.b(c["dnodes"] in ("vars", "both")), q.b(c["dnodes"] in ("factors", "both")),
        q.nat({"leafs": 0, "leafs_vars": 1, "all": 2}[c["start"]]))


def coq_case(c, o):
    if any(e[0] == "raise" for e in o["log"]):
        return None
    sync = c["algo"] == "maxsum"
    vars_ = q.lst(["(%s, (%s, %s, %s))" % (q.z(i), q.z(v["dom"]),
                                            q.lst([_q([u, 1]) for u in v["unary"]]) if v["unary"] is not None else "[]",
                                            q.opt(v["init"], q.z)) for i, v in enumerate(c["vars"])])
    facs = q.lst(["(%s, (%s, %s))" % (q.z(FAC_BASE + k), q.zlist(f["scope"]), q.lst([_q([t, 1]) for t in f["tab"]]))
                  for k, f in enumerate(c["facs"])])
    sched = q.lst(["Start %s" % q.z(node_id(a[1])) if a[0] == "S" else
                   "Deliver %s %s" % (q.z(node_id(a[1])), q.z(node_id(a[2]))) for a in o["sched"]])
    cycles = q.lst(["(%s, %s, %s)" % (q.z(node_id(e[1])), q.z(e[2]),
                                      q.lst([q.pair(q.z(node_id(s)), _qtab(t)) for s, t in e[3]]))
                    for e in o["log"] if e[0] == "cycle"])
    selev = q.lst(["(%s, %s, %s)" % (q.z(node_id(e[1])), q.z(e[2]), _oq(e[3])) for e in o["log"] if e[0] == "sel"]) \
        if not sync else "[]"
    names = sorted(o["sends"])
    sends = q.lst([q.pair(q.z(node_id(n)), q.lst(["(%s, %s, %s)" % (q.z(node_id(t)), q.z(k), "None" if b_ is None else "(Some %s)" % _qtab(b_))
                                                   for t, k, b_ in o["sends"][n]])) for n in names])
    sels = q.lst([q.pair(q.z(node_id(n)), q.lst([q.pair(q.z(d), _oq(cst)) for d, cst in o["sels"][n]]))
                  for n in sorted(o["sels"])])
    final = q.lst([q.pair(q.z(node_id(n)), q.z(k)) for n, k in o["cycles"]])
    infl = q.lst(["(%s, %s, %s)" % (q.z(node_id(s)), q.z(node_id(d)), q.z(l)) for s, d, l in o["inflight"]])
    nodes = q.zlist([node_id(n) for n in names])
    return "mkCase %s %s %s %s %s %s %s %s %s %s %s %s %s" % (q.b(sync), _par(c), vars_, facs, sched, cycles, selev, sends,
                                                             sels, final, infl, nodes, q.z(_forest_height(c)))


def nontrivial(c, o):
    big = {cname(k) for k, f in enumerate(c["facs"]) if len(f["scope"]) >= 2}
    return any(a[0] == "D" and a[2] in big for a in o.get("sched", []))


def histogram(cases, obs):
    h = {}

    def inc(k, n=1):
        h[k] = h.get(k, 0) + n
    for c, o in zip(cases, obs):
        inc(c["algo"])
        inc("forest" if c["forest"] else "cyclic")
        inc("mode_" + c["mode"])
        inc("stab_" + c["stab"])
        inc("start_" + c["start"])
        inc("nvars_%d" % len(c["vars"]))
        if "sched" in o:
            inc("oracle_applicable" if (applicable(c, o) or exact_by_theorem(c, o)) else "model_validation_only")
            if "pause_values" in o:
                inc("pause_resume_cases")
                inc("pause_resume_rounds", len(o["pause_values"]))
            if async_theorem_params(c):
                inc("async_edge_invariant_checked")
                used = {v for f in c["facs"] for v in f["scope"]}
                if applicable(c, o) and not any(i not in used and v["init"] is not None for i, v in enumerate(c["vars"])):
                    inc("async_theorem_hypotheses_met")
            if exact_by_theorem(c, o):
                inc("theorem_hypotheses_met")
                if not o.get("complete"):
                    inc("theorem_hypotheses_met_on_cut_run")
            inc("actions", len(o["sched"]))
            inc("messages", sum(len(v) for v in o["sends"].values()))
            inc("selections", sum(len(v) for v in o["sels"].values()))
    return h


def shrink_candidates(c):
    # drop a factor, an initial value, a variable cost table
    for k in range(len(c["facs"])):
        d = dict(c, facs=c["facs"][:k] + c["facs"][k + 1:])
        yield d
    for i, v in enumerate(c["vars"]):
        if v["init"] is not None or v["unary"] is not None:
            vs = list(c["vars"])
            vs[i] = dict(v, init=None, unary=None)
            yield dict(c, vars=vs)
