"""C01 -- DPOP returns an optimal assignment on every DCOP and schedule."""
import itertools

from harness import coqio as q

ID = "C01"
COQ_REQUIRE = ["Net", "M_Dpop", "M_DpopValid", "M_DpopBuilt"]
COQ_CASE_TYPE = "M_Dpop.case"
# M_Dpop.check_case (replay of the recorded schedule) && dpop_check of the real pseudo-tree (the
# hypothesis of dpop_all_schedules) && M_DpopBuilt.built_ok: the dcop + tree extracted from the real
# objects IS dpop_of (builder model of C17 + translation) of the tree-less DCOP, and that DCOP
# satisfies wf_rdcopb, the executable hypothesis of dpop_on_built_tree
COQ_CHECK = "M_DpopBuilt.check_case"
OBLIGATIONS = ["sem_join", "sem_projection", "sem_slice", "fao_optimal",
               "dpop_util_sem_partial", "dpop_util_sem", "dpop_choice_opt", "dpop_util_accumulates", "dpop_value_opt", "dpop_root_opt",
               "dpop_value_forward", "dpop_all_schedules_partial",
               "dpop_check_valid", "dpop_no_raise_all_schedules", "dpop_invariant_all_schedules",
               "dpop_complete_all_finished", "dpop_optimal", "dpop_cost_is_dcop_cost", "dpop_all_schedules",
               # end to end with the pseudo-tree builder of C17 (P_DpopBuilt*.v)
               "wf_rdcopb_sound", "ownership_lowest", "ownership_partition", "built_tree_valid",
               "dpop_check_complete", "built_tree_check", "dpop_on_built_tree", "dpop_built_ok_correct",
               "dpop_cost_offset_zeroary", "dpop_on_built_tree_general"]
N_QUICK, N_THOROUGH = 400, 8000
PARALLEL = 8
SHARD = 40
RULE = ("seeded random DCOPs: 1-7 variables, domain sizes 1-3 (values offset from their index), n-ary matrix "
        "constraints of arity 1-4, expression constraints (linear / abs / equality), duplicate scopes, unary "
        "constraints, variables with (partial) cost dicts, costs mostly small and in 8% of the cases up to +/-3e9 or around 2^31 (the old int32 sentinel), min and max, shapes random/tree/chain/clique/forest "
        "with isolated variables, variables added to the DCOP in a shuffled order in 30% of the cases, declared "
        "initial_value of the variables in 45% of the cases (biased to an optimal assignment), 15% families of 2-3 "
        "related DCOPs (same names/domains/tables; other variable order or one more leaf variable) solved one after "
        "the other in the same process, each solve its own case; the "
        "pseudo-tree is the one pseudotree.build_computation_graph returns; the "
        "real DpopAlgo objects are driven thread-free by netdriver under a seeded start order and per-channel "
        "FIFO schedule from 6 policies (15% truncated schedules to compare intermediate states). "
        "non-trivial = at least one UTIL and one VALUE message handled; distinct = distinct case JSON")
MODELLED = ("DpopAlgo (__init__ ownership filter and initial table, on_start, _on_util_message, "
            "_compute_utils_msg, _on_value_message, select_value_and_finish) and the relation helpers it calls "
            "(join, projection, slice, find_arg_optimal on nested cost tables) are modelled and plugged into Net.v; "
            "THEOREM dpop_all_schedules (all dcops passing the executable hypothesis checker dpop_check, all "
            "schedules of starts and per-channel FIFO deliveries): no handler of a tree node raises; if the final "
            "configuration is complete every node finished and emitted finished / selection exactly once with a "
            "domain value, and the assignment's cost (variable costs + all constraints) is the brute-force optimum "
            "for the mode, any number of components. Proved through a global network invariant (phases, at most "
            "one UTIL up and one VALUE down per tree edge, meaning of every accumulated table and message). "
            "The correspondence run compares every message, selection, finished call, final tables and in-flight "
            "messages on the recorded schedule, evaluates dpop_check on the pseudo-tree pydcop built (so the "
            "theorem's hypothesis is checked on every real input), and a brute-force oracle checks optimality. "
            "END TO END (P_DpopBuilt*.v): THEOREM dpop_on_built_tree -- for every DCOP with a well-formed "
            "constraint graph and non-empty domains, DPOP run on the tree returned by the Gallina model of "
            "pseudotree.build_computation_graph (C17's build) satisfies the conclusion above on every schedule, "
            "with no hypothesis on the tree: dpop_check is DERIVED from C17's PT_valid + 'a tree edge is a "
            "constraint-graph edge' + the lowest-node argument (ownership_lowest, ownership_partition); "
            "zero-ary constraints are covered by dpop_on_built_tree_general. The correspondence additionally "
            "checks in Coq that the dcop + tree extracted from the real objects equals, node by node and in "
            "list order, dpop_of (builder model + translation) of the tree-less DCOP (variables and constraints "
            "in the order the real DCOP object lists them) and that wf_rdcopb holds (built_ok; "
            "dpop_built_ok_correct proves built_ok P = true implies the all-schedules conclusion for P).")
META = dict(
    level_text=("Proof (Coq) over an executable model of DpopAlgo plugged into the asynchronous network model: for every "
                "DCOP whose pseudo-tree passes the executable validity checker (forest with converse links, kept "
                "constraints mention only ancestors, each child tied to its parent, ownership filter = partition of "
                "the constraints; soundness of the checker proved) and EVERY schedule of starts and per-channel FIFO "
                "deliveries: no handler raises; at a complete final configuration every node has finished exactly "
                "once with a domain value and the total cost of the assignment equals the brute-force optimum "
                "(min or max, n-ary / unary constraints, variable costs, any number of components). Also: the meaning "
                "of join / projection / slice / find_arg_optimal and the handler-level steps. Tied to dpop.py / "
                "relations.py / pseudotree.py by replaying recorded schedules on the real computations and by "
                "evaluating the checker on every pseudo-tree the real builder returns. End to end: the checker's "
                "hypothesis is proved for the output of the model of the pseudo-tree builder (C17) on every "
                "well-formed DCOP, so DPOP on the tree pydcop builds is optimal on every schedule with no hypothesis "
                "on the tree (dpop_on_built_tree); the run compares the real tree with the builder model."),
    level_note=("Trusted: Coq kernel/vm_compute, M_Dpop.v + Net.v + M_PseudoTree.v + the translation M_DpopBuilt.v as "
                "renderings of the Python code, the thread-free netdriver, integer costs (floats exact), non-empty "
                "domains. The pseudo-tree is no longer an assumption: dpop_on_built_tree composes C17's proof of the "
                "builder model with the DPOP theorem (hypothesis: well-formed constraint graph + non-empty domains, "
                "evaluated as wf_rdcopb on every real input); that the real builder equals its model is checked per "
                "case (built_ok), as in C17."),
    technique="Coq invariant proof over an executable network model + schedule-replay correspondence",
    design_ref="DESIGN.md §5 C01",
)


def _v(i):
    return "v%02d" % i


def _c(i):
    return "c%02d" % i


# ------------------------------------------------------------------ generator
def _rand_table(rng, shape, lo, hi):
    if not shape:
        return rng.randint(lo, hi)
    return [_rand_table(rng, shape[1:], lo, hi) for _ in range(shape[0])]


def _expr(rng, scope, doms, offs):
    """an expression constraint and its table (computed here, independently of pydcop)"""
    kind = rng.choice(["lin", "abs", "eq"]) if len(scope) == 2 else "lin"
    if kind == "lin":
        co = [rng.randint(-3, 4) for _ in scope]
        k = rng.randint(-2, 5)
        expr = " + ".join("%d * %s" % (a, _v(x)) for a, x in zip(co, scope)) + " + %d" % k
        f = lambda vals: sum(a * v for a, v in zip(co, vals)) + k
    elif kind == "abs":
        w = rng.randint(1, 4)
        expr = "abs(%s - %s) * %d" % (_v(scope[0]), _v(scope[1]), w)
        f = lambda vals: abs(vals[0] - vals[1]) * w
    else:
        w = rng.randint(1, 9)
        expr = "%d if %s == %s else 0" % (w, _v(scope[0]), _v(scope[1]))
        f = lambda vals: w if vals[0] == vals[1] else 0

    def tab(prefix, rest):
        if not rest:
            return f(prefix)
        x = rest[0]
        return [tab(prefix + [offs[x] + i], rest[1:]) for i in range(doms[x])]
    return expr, tab([], list(scope))


def gen(rng, n, tier):
    cases = []
    while len(cases) < n:
        shape = rng.choice(["random", "random", "tree", "chain", "clique", "forest", "sparse"])
        nv = rng.randint(1, 7)
        if shape == "clique":
            nv = min(nv, 4)
        doms = [rng.choice([1, 2, 2, 3, 3]) for _ in range(nv)]
        offs = [rng.choice([0, 0, 3, 5]) for _ in range(nv)]
        big = rng.random() < 0.08
        lo, hi = rng.choice([(-10**6, 10**6), (-3 * 10**9, 3 * 10**9), (2**31 - 2, 2**31 + 1)]) if big \
            else rng.choice([(0, 9), (-9, 20), (0, 3)])
        scopes = []
        if shape == "tree":
            for i in range(1, nv):
                scopes.append([rng.randrange(i), i])
        elif shape == "chain":
            for i in range(1, nv):
                scopes.append([i - 1, i])
        elif shape == "clique":
            for i in range(nv):
                for j in range(i + 1, nv):
                    scopes.append([i, j])
        elif shape == "forest":
            cut = rng.randint(0, nv)
            for i in range(1, nv):
                if i != cut and rng.random() < 0.8:
                    lo_i = 0 if i < cut else cut
                    if i > lo_i:
                        scopes.append([rng.randrange(lo_i, i), i])
        elif shape == "sparse":
            for _k in range(rng.randint(0, max(0, nv - 1))):
                a = rng.sample(range(nv), min(nv, rng.choice([1, 2, 2])))
                scopes.append(a)
        else:
            for _k in range(rng.randint(0, nv + 1)):
                ar = min(nv, rng.choice([1, 2, 2, 2, 3, 3, 4]))
                scopes.append(rng.sample(range(nv), ar))
        # extra unary / duplicate-scope constraints
        if scopes and rng.random() < 0.3:
            scopes.append(list(rng.choice(scopes)))
        if rng.random() < 0.3:
            scopes.append([rng.randrange(nv)])
        for sc in scopes:
            if rng.random() < 0.5:
                rng.shuffle(sc)
        # keep the joined tables small: at most 6 distinct variables in constraints of one component is fine
        cons = []
        for sc in scopes:
            if len(sc) <= 2 and rng.random() < 0.2:
                expr, table = _expr(rng, sc, doms, offs)
                cons.append(dict(scope=sc, kind="expr", expr=expr, table=table))
            else:
                cons.append(dict(scope=sc, kind="matrix", table=_rand_table(rng, [doms[x] for x in sc], lo, hi)))
        vcost = []
        for i in range(nv):
            r = rng.random()
            if r < 0.6:
                vcost.append(None)
            else:
                vcost.append({str(k): rng.randint(lo, hi) for k in range(doms[i]) if rng.random() < 0.85})
        steps = rng.randint(0, 14) if rng.random() < 0.15 else None
        # order in which the variables are added to the DCOP (= dcop.variables order = the order the
        # pseudo-tree builder receives them); None = v00, v01, ...
        vorder = rng.sample(range(nv), nv) if rng.random() < 0.3 else None
        case = dict(mode=rng.choice(["min", "max"]), doms=doms, offs=offs, cons=cons, vcost=vcost,
                    seed=rng.randrange(10**9), steps=steps, shape=shape, vorder=vorder, init=None)
        # declared initial_value of the variables (domain index or None): DPOP never reads it, but the
        # base class compares selections with a "previous value"; biased to an optimal assignment so
        # that the single selection of DPOP often EQUALS the declared initial value
        if rng.random() < 0.45:
            best = _argopt(case)
            case["init"] = [None if rng.random() < 0.2 else
                            (best[i] if rng.random() < 0.65 else rng.randrange(doms[i])) for i in range(nv)]
        cases.append(case)
        # families: 2-3 related DCOPs solved one after the other IN THE SAME PROCESS (the earlier
        # members are the "prelude" of the later ones, run_impl solves them first), re-using the same
        # variable names, domains, cost tables and constraint names, so that most nodes are EQUAL
        # (same variable + constraints) but placed differently in the pseudo-tree
        if rng.random() < 0.15 and len(cases) + 1 < n:
            fam = [case]
            for _m in range(rng.choice([1, 1, 2])):
                if len(cases) >= n:
                    break
                fam.append(_relative(rng, fam[-1], lo, hi))
                mem = fam[-1]
                mem["prelude"] = [{k: v for k, v in f.items() if k != "prelude"} for f in fam[:-1]]
                cases.append(mem)
    return cases[:n]


def _relative(rng, c, lo, hi):
    """a DCOP related to c: same names / domains / tables; either the variables are handed to the
    DCOP in another order (ties of the root and neighbour heuristics break differently: other root,
    other tree, every node equal) or a new leaf variable is attached to an existing one (the
    neighbour counts change: other root, the other nodes keep variable + constraints)"""
    import copy
    d = copy.deepcopy({k: v for k, v in c.items() if k != "prelude"})
    nv = len(d["doms"])
    d["seed"] = rng.randrange(10**9)
    d["steps"] = None
    if nv >= 7 or rng.random() < 0.5:
        cur = d["vorder"] or list(range(nv))
        new = cur[::-1] if rng.random() < 0.5 else rng.sample(range(nv), nv)
        d["vorder"] = new
        d["shape"] = c["shape"] + "+reorder"
    else:
        x = rng.randrange(nv)
        d["doms"].append(rng.choice([2, 3]))
        d["offs"].append(rng.choice([0, 3]))
        d["vcost"].append(None)
        if d.get("init") is not None:
            d["init"].append(None)
        if d["vorder"] is not None:
            d["vorder"].append(nv)
        sc = [x, nv] if rng.random() < 0.5 else [nv, x]
        d["cons"].append(dict(scope=sc, kind="matrix", table=_rand_table(rng, [d["doms"][y] for y in sc], lo, hi)))
        d["shape"] = c["shape"] + "+leaf"
    return d


# ------------------------------------------------------------------ implementation driver
def _int(x):
    f = float(x)
    if not f.is_integer():
        raise ValueError("non-integer cost %r" % (x,))
    return int(f)


def _tolist(m):
    import numpy as np
    a = np.asarray(m)
    if a.shape == ():
        return _int(a)
    return [_tolist(x) for x in a]


def build_dcop(c):
    from pydcop.dcop.dcop import DCOP
    from pydcop.dcop.objects import Domain, Variable, VariableWithCostDict
    from pydcop.dcop.relations import NAryMatrixRelation, constraint_from_str
    nv = len(c["doms"])
    vs = []
    for i in range(nv):
        dom = Domain("d%02d" % i, "d", [c["offs"][i] + k for k in range(c["doms"][i])])
        ini = (c.get("init") or [None] * nv)[i]
        ini = None if ini is None else c["offs"][i] + ini
        if c["vcost"][i] is None:
            vs.append(Variable(_v(i), dom, initial_value=ini))
        else:
            vs.append(VariableWithCostDict(_v(i), dom, {c["offs"][i] + int(k): w for k, w in c["vcost"][i].items()},
                                           initial_value=ini))
    dcop = DCOP("t", c["mode"])
    for i in (c.get("vorder") or range(nv)):
        dcop.add_variable(vs[i])
    for k, cc in enumerate(c["cons"]):
        if cc["kind"] == "matrix":
            dcop.add_constraint(NAryMatrixRelation([vs[x] for x in cc["scope"]], cc["table"], name=_c(k)))
        else:
            dcop.add_constraint(constraint_from_str(_c(k), cc["expr"], vs))
    return dcop, vs


def run_impl(c):
    # the earlier members of the case's family are solved first, in this very process (graph,
    # get_dfs_relations, computations, a full run): state kept across solves by the library
    # (module-level caches, class attributes) then meets the related DCOP of the case
    for p in c.get("prelude") or []:
        _run_one(p)
    return _run_one(c)


def _run_one(c):
    import random
    from importlib import import_module
    import numpy
    from pydcop.algorithms import load_algorithm_module, AlgorithmDef, ComputationDef
    from harness.pydrv.netdriver import NetDriver, pick_policy
    rng = random.Random(c["seed"])
    random.seed(c["seed"])
    numpy.random.seed(c["seed"] % (2**32))
    dcop, vs = build_dcop(c)
    mod = load_algorithm_module("dpop")
    gm = import_module("pydcop.computations_graph." + mod.GRAPH_TYPE)
    cg = gm.build_computation_graph(dcop)
    adef = AlgorithmDef.build_with_default_param("dpop", {}, mode=dcop.objective,
                                                 parameters_definitions=mod.algo_params)
    comps, tree = {}, {}
    for node in cg.nodes:
        p, pps, ch, pcs = gm.get_dfs_relations(node)
        tree[node.name] = [p, list(ch), list(pps), list(pcs), [r.name for r in node.constraints]]
        comps[node.name] = mod.build_computation(ComputationDef(node, adef))
    cons_dims = {r.name: [v.name for v in r.dimensions] for r in dcop.constraints.values()}
    # the order in which build_computation_graph(dcop) lists variables and constraints
    var_order = [v.name for v in dcop.variables.values()]
    cons_order = [r.name for r in dcop.constraints.values()]
    log = []
    byname = {v.name: v for v in vs}

    def idx(name, val):
        return list(byname[name].domain).index(val)

    def relobs(r):
        return [[v.name for v in r.dimensions], _tolist(r._m)]

    def msgobs(msg):
        if msg.type == "UTIL":
            return ["util"] + relobs(msg.content)
        vars_, vals = msg.content
        return ["value", [v.name for v in vars_], [idx(v.name, w) for v, w in zip(vars_, vals)]]

    drv = NetDriver(comps)
    orig = drv._sender

    def sender(src, dst, msg, prio=None, on_error=None):
        if prio != 19:
            log.append(["send", src, dst] + msgobs(msg))
        orig(src, dst, msg, prio, on_error)
    for name, comp in comps.items():
        comp._msg_sender = sender
        comp._on_value_selection = (lambda v, cost, cyc, _n=name: log.append(["select", _n, idx(_n, v), _int(cost)]))
        comp.finished = (lambda _n=name: log.append(["fin", _n]))
    real_do = drv.do

    def do(act):
        ne = len(drv.events)
        real_do(act)
        for e in drv.events[ne:]:
            if e[0] == "raise":
                kind = {"ValueError": 1, "IndexError": 2, "AttributeError": 3, "KeyError": 4}.get(e[2], 0)
                log.append(["raise", e[1], kind, e[2] + ": " + e[3]])
    drv.do = do
    steps = c["steps"]
    drv.run_random(rng, max_steps=2000 if steps is None else steps, policy=pick_policy(rng, list(comps)))
    complete = not drv.enabled()
    final, joined = {}, {}
    for name, comp in comps.items():
        cv = comp.current_value
        final[name] = [None if cv is None else idx(name, cv),
                       None if cv is None else _int(comp.current_cost),
                       not comp.is_running and name in drv.started and cv is not None,
                       list(comp._waited_children)]
        joined[name] = relobs(comp._joined_utils)
    inflight = []
    for (s, d), ql in sorted(drv.chans.items()):
        if d in comps:
            inflight.append([s, d, [msgobs(m_) for m_ in ql]])
    return dict(tree=tree, cons_dims=cons_dims, var_order=var_order, cons_order=cons_order, log=log,
                sched=drv.schedule, final=final, joined=joined, inflight=inflight, complete=complete)


# ------------------------------------------------------------------ oracle (independent of pydcop)
def _cost(c, asg):
    """total cost of a full assignment (list of domain indices) from the case's own tables"""
    tot = 0
    for cc in c["cons"]:
        t = cc["table"]
        for x in cc["scope"]:
            t = t[asg[x]]
        tot += t
    for i, vc in enumerate(c["vcost"]):
        if vc is not None:
            tot += vc.get(str(asg[i]), 0)
    return tot


def _optimum(c):
    best = None
    for asg in itertools.product(*[range(k) for k in c["doms"]]):
        v = _cost(c, asg)
        if best is None or (v < best if c["mode"] == "min" else v > best):
            best = v
    return best


def _argopt(c):
    """the lexicographically first optimal assignment (domain indices), by brute force"""
    best, arg = None, None
    for asg in itertools.product(*[range(k) for k in c["doms"]]):
        v = _cost(c, asg)
        if best is None or (v < best if c["mode"] == "min" else v > best):
            best, arg = v, list(asg)
    return arg


def oracle(c, o):
    nv = len(c["doms"])
    names = [_v(i) for i in range(nv)]
    fins, sels = {}, {}
    for e in o["log"]:
        if e[0] == "raise":
            return "handler raised at %s: %s" % (e[1], e[3])
        if e[0] == "fin":
            fins[e[1]] = fins.get(e[1], 0) + 1
        if e[0] == "select":
            sels.setdefault(e[1], []).append(e[2])
    for n_ in names:
        if fins.get(n_, 0) > 1:
            return "%s reported finished %d times" % (n_, fins[n_])
        if len(sels.get(n_, [])) > 1:
            return "%s selected a value %d times" % (n_, len(sels[n_]))
    if sorted(o["tree"]) != names:
        return "computation graph nodes %s differ from the variables" % sorted(o["tree"])
    if not o["complete"]:
        return None
    asg = []
    for i, n_ in enumerate(names):
        if fins.get(n_, 0) != 1:
            return "%s never reported finished although every message was delivered" % n_
        v = o["final"][n_][0]
        if v is None or not (0 <= v < c["doms"][i]):
            return "%s reported finished but has no value of its domain at the end (current_value %r)" % (n_, v)
        if sels.get(n_) != [v]:
            return "%s holds value %r but its value selections were %r" % (n_, v, sels.get(n_, []))
        asg.append(v)
    got, opt = _cost(c, asg), _optimum(c)
    if got != opt:
        return "DPOP assignment %s costs %s, the %s optimum is %s" % (asg, got, c["mode"], opt)
    return None


# ------------------------------------------------------------------ Gallina
def _id(name):
    return int(name[1:])


def _tbl(t):
    if isinstance(t, list):
        return "Node " + q.lst([_tbl(x) for x in t])
    return "Leaf %s" % q.z(t)


def _ptbl(t):
    return "(" + _tbl(t) + ")"


def _rel(dims, table):
    return "(mkRel %s %s)" % (q.zlist([_id(d) for d in dims]), _ptbl(table))


def _transpose(cc, dims_ids, doms):
    """the constraint's table laid out for the dimension order dims_ids"""
    scope = cc["scope"]

    def go(prefix, rest):
        if not rest:
            t = cc["table"]
            for x in scope:
                t = t[prefix[x]]
            return t
        x = rest[0]
        return [go({**prefix, x: i}, rest[1:]) for i in range(doms[x])]
    return go({}, list(dims_ids))


def _msg(m):
    if m[0] == "util":
        return "MUtil %s" % _rel(m[1], m[2])
    return "MValue %s %s" % (q.zlist([_id(v) for v in m[1]]), q.zlist(m[2]))


def coq_case(c, o):
    nv = len(c["doms"])
    # variables / constraints in the order the real DCOP object lists them (= the order the
    # pseudo-tree builder receives; M_DpopBuilt.raw_of reads the variable order off dc_dom and
    # requires constraint ids = positions)
    vorder = [_id(n_) for n_ in o.get("var_order", [_v(i) for i in range(nv)])]
    if sorted(vorder) != list(range(nv)):
        raise ValueError("dcop.variables lists %s" % vorder)
    corder = [_id(n_) for n_ in o.get("cons_order", [_c(k) for k in range(len(c["cons"]))])]
    if sorted(corder) != list(range(len(c["cons"]))):
        raise ValueError("dcop.constraints lists %s" % corder)
    dom = q.lst([q.pair(q.z(i), q.z(c["doms"][i])) for i in vorder])
    vcost = q.lst([q.pair(q.z(i), q.zlist([(c["vcost"][i] or {}).get(str(k), 0) for k in range(c["doms"][i])]))
                   for i in vorder])
    cons = []
    for k in corder:
        cc = c["cons"][k]
        dims = [_id(d) for d in o["cons_dims"][_c(k)]]
        if sorted(dims) != sorted(cc["scope"]):
            raise ValueError("constraint %s has dimensions %s, expected scope %s" % (_c(k), dims, cc["scope"]))
        cons.append(q.pair(q.z(k), "(mkRel %s %s)" % (q.zlist(dims), _ptbl(_transpose(cc, dims, c["doms"])))))
    tree = []
    for name, (p, ch, pps, pcs, cn) in o["tree"].items():
        tree.append("mkPN %s %s %s %s %s %s" % (q.z(_id(name)), q.opt(None if p is None else _id(p), q.z),
                                                q.zlist([_id(x) for x in ch]), q.zlist([_id(x) for x in pps]),
                                                q.zlist([_id(x) for x in pcs]), q.zlist([_id(x) for x in cn])))
    dcop = "(mkDcop %s %s %s %s %s)" % ("Min" if c["mode"] == "min" else "Max", dom, vcost, q.lst(cons), q.lst(tree))
    sched = q.lst(["Start %s" % q.z(_id(a[1])) if a[0] == "S" else "Deliver %s %s" % (q.z(_id(a[1])), q.z(_id(a[2])))
                   for a in o["sched"]])
    evs = []
    for e in o["log"]:
        if e[0] == "send":
            if e[3] == "util":
                evs.append("EvUtil %s %s %s" % (q.z(_id(e[1])), q.z(_id(e[2])), _rel(e[4], e[5])))
            else:
                evs.append("EvValue %s %s %s %s" % (q.z(_id(e[1])), q.z(_id(e[2])), q.zlist([_id(v) for v in e[4]]),
                                                    q.zlist(e[5])))
        elif e[0] == "select":
            evs.append("EvSelect %s %s %s" % (q.z(_id(e[1])), q.z(e[2]), q.z(e[3])))
        elif e[0] == "fin":
            evs.append("EvFinished %s" % q.z(_id(e[1])))
        else:
            evs.append("EvRaise %s %s" % (q.z(_id(e[1])), q.z(e[2])))
    final = q.lst(["(%s, %s, %s, %s)" % (q.z(_id(n_)), "None" if f[0] is None else "(Some (%s, %s))" % (q.z(f[0]), q.z(f[1])),
                                          q.b(f[2]), q.zlist([_id(x) for x in f[3]]))
                   for n_, f in sorted(o["final"].items())])
    joined = q.lst([q.pair(q.z(_id(n_)), _rel(j[0], j[1])) for n_, j in sorted(o["joined"].items())])
    infl = q.lst(["(%s, %s, %s)" % (q.z(_id(s)), q.z(_id(d)), q.lst([_msg(m_) for m_ in l])) for s, d, l in o["inflight"]])
    return "mkCase %s %s %s %s %s %s" % (dcop, sched, q.lst(evs), final, joined, infl)


def nontrivial(c, o):
    kinds = [e[3] for e in o.get("log", []) if e[0] == "send"]
    return "util" in kinds and "value" in kinds


def histogram(cases, obs):
    h = {"complete": 0, "truncated": 0, "min": 0, "max": 0, "util_msgs": 0, "value_msgs": 0, "raises": 0,
         "max_util_dims": 0, "components>1": 0, "with_varcost": 0, "with_nary>=3": 0, "with_expr": 0,
         "pseudo_parents": 0, "with_initial_value": 0, "selected==initial_value": 0, "family_members": 0,
         "family_tree_changed": 0}
    for c, o in zip(cases, obs):
        if "log" not in o:
            continue
        h["complete" if o["complete"] else "truncated"] += 1
        h[c["mode"]] += 1
        h["with_varcost"] += any(v is not None for v in c["vcost"])
        h["with_nary>=3"] += any(len(cc["scope"]) >= 3 for cc in c["cons"])
        h["with_expr"] += any(cc["kind"] == "expr" for cc in c["cons"])
        h["components>1"] += sum(1 for t in o["tree"].values() if t[0] is None) > 1
        h["pseudo_parents"] += any(t[2] for t in o["tree"].values())
        ini = c.get("init") or []
        h["with_initial_value"] += any(x is not None for x in ini)
        h["selected==initial_value"] += any(x is not None and o["final"].get(_v(i), [None])[0] == x
                                            for i, x in enumerate(ini))
        h["family_members"] += bool(c.get("prelude"))
        for e in o["log"]:
            if e[0] == "send" and e[3] == "util":
                h["util_msgs"] += 1
                h["max_util_dims"] = max(h["max_util_dims"], len(e[4]))
            elif e[0] == "send":
                h["value_msgs"] += 1
            elif e[0] == "raise":
                h["raises"] += 1
    return h


def shrink_candidates(c):
    for k in range(len(c["cons"])):
        d = dict(c)
        d["cons"] = c["cons"][:k] + c["cons"][k + 1:]
        yield d
    if any(v is not None for v in c["vcost"]):
        d = dict(c)
        d["vcost"] = [None] * len(c["vcost"])
        yield d
    if c["steps"] is not None:
        d = dict(c)
        d["steps"] = None
        yield d
    if c.get("init"):
        d = dict(c)
        d["init"] = None
        yield d
    if c.get("prelude"):
        d = dict(c)
        d["prelude"] = c["prelude"][1:]
        yield d


def classify(c, o, msg):
    return None
