"""C26 -- repair DCOP constraints and candidate info encode the repair rules."""
import itertools
import random as _random

from harness import coqio as q

ID = "C26"
COQ_REQUIRE = ["M_Repair", "M_Repair2"]
COQ_CASE_TYPE = "M_Repair2.case"
COQ_CHECK = "M_Repair2.check_case"
N_QUICK, N_THOROUGH = 260, 4000
SHARD = 60
RULE = ("seeded discovery states (2-5 agents, 1-6 computations hosted on random agents, random replica "
        "sets, random neighbour lists incl. self loops / duplicates / unknown names), a departed subset "
        "(thorough tier: every subset of the agents for a share of the states), all _removal_* helpers "
        "queried for every agent and computation; 'flow' cases additionally build the repair DCOP of one "
        "surviving candidate agent as ResilientAgent.setup_repair does and evaluate every constraint on "
        "ALL binary assignments of its scope (sampled above 2^7); 'synthetic' cases call the four "
        "create_*_constraint functions on random bin_vars dicts incl. colliding variable names, "
        "non-binary values, missing and unknown keys; non-trivial = at least one orphaned computation "
        "or one evaluated constraint; distinct = distinct case JSON")
MODELLED = ("all five _removal_* helpers (with the Discovery lookups they use, incl. the _is_technical "
            "filter and UnknownComputation/KeyError paths) and the four create_*_constraint functions "
            "(name, scope, value for keyword assignments incl. KeyError paths) are modelled; every "
            "sentence of C26 is a theorem about the model for any number of agents/computations/"
            "replicas/assignments (Prop_C26.v); create_binary_variables, the Discovery registration "
            "API and setup_repair's glue are exercised by the correspondence run only")
META = dict(
    level_text=("Proof (Coq) that in the model of pydcop/reparation the candidate agents are exactly the "
                "surviving replica holders of orphaned computations, fixed neighbours are hosted on "
                "surviving agents (for neighbours that are not 'technical' names; the B-prefix case is a "
                "recorded finding with a refutation witness), the hosted constraint is 0 iff exactly one "
                "binary variable is 1, the capacity constraint is 0 iff the selected footprints fit, and "
                "the hosting / communication constraints equal their defining sums, for all sizes; the "
                "model is tied to the code by a differential run on generated discovery states and on "
                "all binary assignments of the generated repair constraints on every check."),
    level_note=("Trusted: Coq kernel/vm_compute, the hand-written model M_Repair.v, the harness. Costs, "
                "footprints and capacities are integers in generated cases (floats that are integral are "
                "compared exactly). Python set iteration order is abstracted: set-valued results are "
                "compared as sets."),
    technique="Coq proof over executable Gallina model + differential correspondence run",
    design_ref="DESIGN.md §5 C26",
)
OBLIGATIONS = ["orphaned_exact", "orphaned_B_prefixed_refuted", "candidates_exact", "info_candidates_exact",
               "agt_info_keys_exact", "fixed_neighbours_survive", "fixed_neighbours_technical_refuted",
               "hosted_zero_iff_exactly_one", "hosted_exactly_one_candidate", "capacity_zero_iff_fits",
               "hosting_is_sum", "comm_is_sum", "comm_scope_exact",
               "repair_dcop_zero_iff_valid", "repair_dcop_zero_iff_valid_abstract", "repair_dcop_soft_is_sum"]

FINDING_B = "C26-B-prefixed-computation-not-orphaned"

AGENTS = ["a1", "a2", "a3", "a4", "a5"]
COMPS = ["c1", "c2", "c3", "c4", "c5", "c6"]
ODD_COMPS = ["Bx", "_t1", "B2"]
SUBSTR_COMPS = ["c1", "c10", "c101", "c2", "c21", "c"]


# ------------------------------------------------------------------ generation
def _state(rng, odd):
    agents = AGENTS[:rng.randint(2, 5)]
    ncomp = rng.randint(1, 6)
    comps = COMPS[:ncomp]
    if odd:
        comps = comps[:max(1, ncomp - 1)] + [rng.choice(ODD_COMPS)]
    elif ncomp >= 2 and rng.random() < 0.15:
        comps = SUBSTR_COMPS[:ncomp]          # names that are substrings of each other (c1 / c10 / c101)
    rng.shuffle(comps)
    host = [[c, rng.choice(agents)] for c in comps]
    hostd = dict(host)
    replicas = {}
    for c in comps:
        k = rng.randint(0, min(3, len(agents)))
        pool = agents if rng.random() < 0.15 else [a for a in agents if a != hostd[c]]
        replicas[c] = sorted(rng.sample(pool, min(k, len(pool))))
    graph = []
    p = rng.choice([0.3, 0.5, 0.8])
    for c in comps:
        ns = [n for n in comps if n != c and rng.random() < p]
        rng.shuffle(ns)
        r = rng.random()
        if r < 0.08:
            ns.insert(rng.randint(0, len(ns)), c)              # self loop
        elif r < 0.16 and ns:
            ns.insert(rng.randint(0, len(ns)), rng.choice(ns))  # duplicate neighbour
        elif r < 0.20:
            ns.insert(rng.randint(0, len(ns)), "zz")            # neighbour unknown to discovery
        if rng.random() < 0.04:
            continue                                            # computation without a node
        graph.append([c, ns])
    if rng.random() < 0.05 and graph:
        graph.append([graph[0][0], []])                         # second node with the same name
    return agents, host, replicas, graph


def _rich_state(rng):
    """well-formed states for the whole-repair-DCOP check: several computations lost at once, each
    with 1-3 surviving replica holders, dense neighbourhoods (orphaned neighbours)"""
    agents = list(AGENTS)
    comps = COMPS[:rng.randint(3, 6)]
    rng.shuffle(comps)
    dep = rng.sample(agents, rng.choice([1, 2, 2, 3]))
    host = [[c, rng.choice(dep) if rng.random() < 0.6 else rng.choice(agents)] for c in comps]
    hostd = dict(host)
    replicas = {c: sorted(rng.sample([a for a in agents if a != hostd[c]], rng.randint(1, 3))) for c in comps}
    graph = []
    for c in comps:
        ns = [n for n in comps if n != c and rng.random() < 0.7]
        rng.shuffle(ns)
        graph.append([c, ns])
    return agents, host, replicas, graph, dep


def _departed(rng, agents):
    k = rng.choice([1, 1, 1, 2, 2, 3, 0])
    dep = rng.sample(agents, min(k, len(agents)))
    r = rng.random()
    if r < 0.05 and dep:
        dep.append(dep[0])            # duplicate
    elif r < 0.10:
        dep.append("a9")              # unknown agent
    return dep


def _costs(rng, agents, comps):
    return dict(
        remaining=rng.randint(0, 60),
        footprint={c: rng.choice([0, 5, 10, 20, 25, 40]) for c in comps},
        hosting={c: rng.randint(0, 30) for c in comps if rng.random() < 0.8},
        comm=[[c, n, a, rng.randint(0, 12)] for c in comps for n in comps for a in agents + ["a9"]
              if rng.random() < 0.6],
        comm_default=rng.randint(0, 3),
    )


def _synthetic(rng):
    ctype = rng.choice(["hosted", "capacity", "hosting", "comm", "comm"])
    prefix = rng.choice(["B", "x_", "v", ""])
    comps = rng.sample(COMPS + ["c_1"], rng.randint(1, 4))
    agts = rng.sample(AGENTS + ["1_a"], rng.randint(1, 3))
    c = dict(kind="synthetic", ctype=ctype, prefix=prefix, seed=rng.randint(0, 10 ** 9))
    if ctype == "hosted":
        c["calls"] = [[[comps[0]], agts]]
        c["comp"] = comps[0]
    elif ctype in ("capacity", "hosting"):
        own = agts[0]
        c["calls"] = [[comps, [own]]]
        c["agt"] = own
        c["remaining"] = rng.randint(-5, 60)
        c["table"] = {k: rng.choice([0, 5, 10, 20, 25, 40, -3]) for k in comps if rng.random() < 0.9}
    else:
        own, cand = agts[0], comps[0]
        nbrs = comps[1:]
        fixed = {n: rng.choice(AGENTS) for n in nbrs if rng.random() < 0.5}
        cn = {n: rng.sample(AGENTS, rng.randint(0, 3)) for n in nbrs if n not in fixed}
        if rng.random() < 0.1 and nbrs:
            cn[nbrs[0]] = rng.sample(AGENTS, 2)      # in both maps
        calls = [[[cand], agts]] + [[[n], list(a)] for n, a in cn.items()]
        if rng.random() < 0.12 and len(calls) > 1:
            calls.pop()                               # a neighbour without variables: KeyError
        if rng.random() < 0.05:
            calls[0] = [[cand], agts[1:]]             # own variable missing: KeyError
        c.update(calls=calls, agt=own, cand=cand, info=[agts, fixed, cn],
                 comm=[[cand, n, a, rng.randint(0, 12)] for n in nbrs for a in AGENTS if rng.random() < 0.7],
                 comm_default=rng.randint(0, 3))
    if rng.random() < 0.1:
        # raw bin_vars with a colliding variable name (the reverse lookup then loses a key)
        c["raw_collision"] = True
    return c


def gen(rng, n, tier):
    cases = []
    pending = []
    while len(cases) < n:
        if pending:
            cases.append(pending.pop())
            continue
        r = rng.random()
        if r < 0.3:
            cases.append(_synthetic(rng))
            continue
        if r >= 0.55 and rng.random() < 0.3:
            agents, host, replicas, graph, dep = _rich_state(rng)
            c = dict(agents=agents, host=host, replicas=replicas, graph=graph, extra_orph=[],
                     kind="flow", departed=dep, seed=rng.randint(0, 10 ** 9))
            c.update(_costs(rng, agents, [x for x, _ in host]))
            c["own_pick"] = rng.randint(0, 10)
            cases.append(c)
            continue
        odd = rng.random() < 0.06
        agents, host, replicas, graph = _state(rng, odd)
        comps = [c for c, _ in host]
        base = dict(agents=agents, host=host, replicas=replicas, graph=graph,
                    extra_orph=[[rng.choice(agents), rng.sample(comps + ["zz"], rng.randint(0, min(3, len(comps))))]]
                    if rng.random() < 0.3 else [])
        if tier == "thorough" and rng.random() < 0.04:
            # every departed subset of this state
            for k in range(len(agents) + 1):
                for dep in itertools.combinations(agents, k):
                    pending.append(dict(base, kind="removal", departed=list(dep)))
            continue
        dep = _departed(rng, agents)
        if r < 0.55:
            cases.append(dict(base, kind="removal", departed=dep))
        else:
            c = dict(base, kind="flow", departed=dep, seed=rng.randint(0, 10 ** 9))
            c.update(_costs(rng, agents, comps))
            c["own_pick"] = rng.randint(0, 10)
            cases.append(c)
    return cases


# ------------------------------------------------------------------ implementation driver
def _wrap(f):
    try:
        return {"ok": f()}
    except Exception as e:
        return {"error": type(e).__name__}


def _canon_info(i):
    agts, fixed, cn = i
    return [sorted(agts), [[k, v] for k, v in fixed.items()], [[k, sorted(v)] for k, v in cn.items()]]


def _build_discovery(c):
    from pydcop.infrastructure.discovery import Discovery
    from pydcop.computations_graph.objects import ComputationGraph, ComputationNode
    d = Discovery("orch", "addr_orch")
    for comp, agt in c["host"]:
        d.register_computation(comp, agt, "addr_" + agt, publish=False)
    for comp, agts in c["replicas"].items():
        for a in agts:
            d.register_replica(comp, a, publish=False)
    nodes = [ComputationNode(name, "test", neighbors=list(ns)) for name, ns in c["graph"]]
    cg = ComputationGraph("test", nodes=nodes)
    return d, cg


def _disc_view(d):
    """the discovery state through its public API (this is the model's input)"""
    comps = d.computations(include_technical=True)
    return dict(comps=[[x, d.computation_agent(x)] for x in comps],
                replicas=[[x, sorted(d.replica_agents(x))] for x in comps])


def _removal_obs(c, d, cg):
    from pydcop.reparation import removal as R
    dep = list(c["departed"])
    orph = R._removal_orphaned_computations(dep, d)
    o = dict(view=_disc_view(d),
             orphaned=list(orph),
             cand_agents=_wrap(lambda: sorted(R._removal_candidate_agents(dep, d))))
    # cg.neighbors(name) returns the first node's list: keep one entry per node, in node order
    o["graph"] = [[n.name, list(n.neighbors)] for n in cg.nodes]
    for_agt = []
    for a in c["agents"] + ["a9"]:
        for_agt.append([a,
                        _wrap(lambda: list(R._removal_candidate_computations_for_agt(a, orph, d))),
                        _wrap(lambda: [[k, _canon_info(v)] for k, v in
                                       R._removal_candidate_agt_info(a, dep, cg, d).items()])])
    o["for_agt"] = for_agt
    names = [x for x, _ in c["host"]] + ["zz"]
    o["info"] = [[x, _wrap(lambda: _canon_info(R._removal_candidate_computation_info(x, dep, cg, d)))]
                 for x in names]
    o["comps_for"] = [[a, os, _wrap(lambda: list(R._removal_candidate_computations_for_agt(a, os, d)))]
                      for a, os in c.get("extra_orph", [])]
    # the queries must not change the discovery state ...
    o["view_after"] = _disc_view(d)
    # ... so a second removal, of other agents, on the same Discovery is answered from the same state
    dep2 = _second_departed(c)
    orph2 = R._removal_orphaned_computations(dep2, d)
    o["second"] = dict(
        orphaned=list(orph2),
        cand_agents=_wrap(lambda: sorted(R._removal_candidate_agents(dep2, d))),
        info=[[x, _wrap(lambda: _canon_info(R._removal_candidate_computation_info(x, dep2, cg, d)))] for x in names],
        for_agt=[[a, _wrap(lambda: list(R._removal_candidate_computations_for_agt(a, orph2, d))),
                  _wrap(lambda: [[k, _canon_info(v)] for k, v in
                                 R._removal_candidate_agt_info(a, dep2, cg, d).items()])]
                 for a in c["agents"]])
    return o


def _second_departed(c):
    """another departed set for the same state: the agents that did not leave the first time (at most 2)"""
    return [a for a in c["agents"] if a not in c["departed"]][:2]


def _evals(constraint, names, rng, extra=True):
    """evaluate on all binary assignments of the scope (sampled above 2^7) + irregular ones"""
    k = len(names)
    if k <= 7:
        vecs = [list(v) for v in itertools.product([0, 1], repeat=k)]
    else:
        vecs = [[rng.randint(0, 1) for _ in range(k)] for _ in range(96)]
        vecs += [[0] * k, [1] * k] + [[1 if j == i else 0 for j in range(k)] for i in range(k)]
    regular = []
    for v in vecs:
        regular.append([v, _call(constraint, dict(zip(names, v)))])
    irregular = []
    if extra:
        for _ in range(3):
            kind = rng.choice(["nonbin", "missing", "unknown", "shuffle"])
            keys = list(names)
            vals = [rng.randint(0, 1) for _ in keys]
            if kind == "nonbin":
                vals = [rng.choice([0, 1, 2, -1, 3]) for _ in keys]
            elif kind == "missing" and keys:
                j = rng.randrange(len(keys)); keys.pop(j); vals.pop(j)
            elif kind == "unknown":
                keys.append("nope"); vals.append(1)
            else:
                pairs = list(zip(keys, vals)); rng.shuffle(pairs)
                keys = [p[0] for p in pairs]; vals = [p[1] for p in pairs]
            a = dict(zip(keys, vals))
            irregular.append([[[x, y] for x, y in a.items()], _call(constraint, a)])
    return regular, irregular


def _num(x):
    if isinstance(x, bool):
        raise TypeError("bool result")
    if isinstance(x, float):
        if not x.is_integer():
            raise ValueError("non integral float %r" % x)
        return int(x)
    if isinstance(x, int):
        return x
    raise TypeError("non numeric result %r" % (x,))


def _call(constraint, a):
    if not a:
        # relation() without any argument takes the positional path: not a keyword call
        return {"skip": True}
    try:
        return {"ok": _num(constraint(**a))}
    except Exception as e:
        return {"error": type(e).__name__}


def _bv_list(bv):
    return [[k[0], k[1], v.name] for k, v in bv.items()]


def _constr_obs(spec, bv, make, rng):
    """spec: the JSON description of the constructor call; make: () -> constraint"""
    o = dict(spec=spec, bv=_bv_list(bv))
    try:
        cons = make()
    except Exception as e:
        o["created"] = {"error": type(e).__name__}
        return o
    names = [v.name for v in cons.dimensions]
    o["created"] = {"ok": [cons.name, names]}
    o["keys"] = names
    uniq = list(dict.fromkeys(names))
    if len(uniq) != len(names):
        o["keys"] = uniq
    o["evals"], o["extra"] = _evals(cons, o["keys"], rng)
    return o


def _info_json(i):
    return [list(i[0]), [[k, v] for k, v in i[1].items()], [[k, list(v)] for k, v in i[2].items()]]


def _setup_repair_glue(own, repair_info, remaining, footprint, hosting, comm):
    """the constraints ResilientAgent.setup_repair builds (same statements, same order)"""
    from pydcop.dcop.objects import create_binary_variables
    from pydcop import reparation as P
    orphaned_binvars, candidate_binvars, hosted_cs = {}, {}, {}
    for candidate_comp, candidate_info in repair_info.items():
        agts, _, neighbors = candidate_info
        v_binvar = create_binary_variables('B', ([candidate_comp], candidate_info[0]))
        orphaned_binvars.update(v_binvar)
        candidate_binvars[(candidate_comp, own)] = v_binvar[(candidate_comp, own)]
        hosted_cs[candidate_comp] = P.create_computation_hosted_constraint(candidate_comp, v_binvar)
        for neighbor in neighbors:
            v_binvar = create_binary_variables('B', ([neighbor], neighbors[neighbor]))
            orphaned_binvars.update(v_binvar)
    capacity_c = P.create_agent_capacity_constraint(own, remaining, footprint, candidate_binvars)
    hosting_c = P.create_agent_hosting_constraint(own, hosting, candidate_binvars)
    comms = []
    for (comp, agt), candidate_var in candidate_binvars.items():
        comms.append(P.create_agent_comp_comm_constraint(agt, comp, repair_info[comp], comm, orphaned_binvars))
    return list(hosted_cs.values()) + [capacity_c], [hosting_c] + comms, orphaned_binvars


def _global_obs(c, cands, cg, d, rng):
    """the repair DCOP of ALL candidate agents (same cost tables for every agent) and the sums of
    its hard / soft constraints under global binary assignments"""
    from pydcop.reparation import removal as R
    footprint, hosting = _tblfun(c["footprint"]), _tblfun(c["hosting"])
    comm = _commfun(c["comm"], c["comm_default"])
    agents = sorted(cands)
    g = dict(agents=agents, ri=[], hard=[], soft=[])
    allvars = {}
    hard, soft = [], []
    for a in agents:
        try:
            ri = R._removal_candidate_agt_info(a, list(c["departed"]), cg, d)
            h, s_, obv = _setup_repair_glue(a, ri, c["remaining"], footprint, hosting, comm)
        except Exception as e:
            return dict(error=type(e).__name__)
        g["ri"].append([a, [[comp, _info_json(i)] for comp, i in ri.items()]])
        hard += h
        soft += s_
        for k, v in obv.items():
            allvars.setdefault(k, v.name)
    g["hard"] = [[x.name, [v.name for v in x.dimensions]] for x in hard]
    g["soft"] = [[x.name, [v.name for v in x.dimensions]] for x in soft]
    keys = sorted(allvars)
    g["bv"] = [[k[0], k[1], allvars[k]] for k in keys]
    names = [allvars[k] for k in keys]
    if len(set(names)) != len(names):
        return dict(error="name-collision")
    n = len(keys)
    if n <= 6:
        asgs = [list(t) for t in itertools.product([0, 1], repeat=n)]
    else:
        asgs = [[rng.randint(0, 1) for _ in keys] for _ in range(24)]
    # assignments selecting exactly one candidate per orphaned computation (valid unless over capacity)
    comps = sorted({k[0] for k in keys})
    for _ in range(16 if n > 6 else 0):
        pick = {x: rng.choice([k[1] for k in keys if k[0] == x]) for x in comps}
        asgs.append([1 if pick[k[0]] == k[1] else 0 for k in keys])

    def total(cs, val):
        try:
            return {"ok": _num(sum(x(**{v.name: val[v.name] for v in x.dimensions}) for x in cs))}
        except Exception as e:
            return {"error": type(e).__name__}
    g["evals"] = []
    for a in asgs:
        val = dict(zip(names, a))
        g["evals"].append([a, total(hard, val), total(soft, val)])
    return g


def _tblfun(t):
    return lambda comp: t.get(comp, 0)


def _commfun(rows, dflt):
    t = {(a, b_, c): v for a, b_, c, v in rows}
    return lambda cand, n, agt: t.get((cand, n, agt), dflt)


def run_impl(c):
    from pydcop.dcop.objects import create_binary_variables, BinaryVariable
    from pydcop import reparation as P
    rng = _random.Random(c.get("seed", 0))
    if c["kind"] == "removal":
        d, cg = _build_discovery(c)
        return dict(removal=_removal_obs(c, d, cg))
    if c["kind"] == "flow":
        from pydcop.reparation import removal as R
        d, cg = _build_discovery(c)
        o = dict(removal=_removal_obs(c, d, cg), constraints=[])
        cands = o["removal"]["cand_agents"].get("ok") or []
        if not cands:
            return o
        own = cands[c["own_pick"] % len(cands)]
        o["own"] = own
        try:
            repair_info = R._removal_candidate_agt_info(own, list(c["departed"]), cg, d)
        except Exception as e:
            o["repair_info_error"] = type(e).__name__
            return o
        # --- same construction as ResilientAgent.setup_repair
        orphaned_binvars, candidate_binvars = {}, {}
        footprint, hosting = _tblfun(c["footprint"]), _tblfun(c["hosting"])
        comm = _commfun(c["comm"], c["comm_default"])
        for comp, cinfo in repair_info.items():
            agts, _, neighbors = cinfo
            v_binvar = create_binary_variables("B", ([comp], cinfo[0]))
            orphaned_binvars.update(v_binvar)
            if (comp, own) not in v_binvar:
                o["flow_error"] = "agent %s is a candidate agent but not a candidate of %s" % (own, comp)
                return o
            candidate_binvars[(comp, own)] = v_binvar[(comp, own)]
            o["constraints"].append(_constr_obs(
                dict(ctype="hosted", comp=comp), v_binvar,
                lambda: P.create_computation_hosted_constraint(comp, v_binvar), rng))
            for n in neighbors:
                orphaned_binvars.update(create_binary_variables("B", ([n], neighbors[n])))
        o["constraints"].append(_constr_obs(
            dict(ctype="capacity", agt=own, remaining=c["remaining"], table=c["footprint"]),
            candidate_binvars,
            lambda: P.create_agent_capacity_constraint(own, c["remaining"], footprint, candidate_binvars), rng))
        o["constraints"].append(_constr_obs(
            dict(ctype="hosting", agt=own, table=c["hosting"]), candidate_binvars,
            lambda: P.create_agent_hosting_constraint(own, hosting, candidate_binvars), rng))
        for (comp, agt) in candidate_binvars:
            i = repair_info[comp]
            info_json = [list(i[0]), [[k, v] for k, v in i[1].items()], [[k, list(v)] for k, v in i[2].items()]]
            o["constraints"].append(_constr_obs(
                dict(ctype="comm", agt=agt, cand=comp, info=info_json, comm=c["comm"],
                     comm_default=c["comm_default"]), orphaned_binvars,
                lambda: P.create_agent_comp_comm_constraint(agt, comp, i, comm, orphaned_binvars), rng))
        # the repair info in the iteration order the construction above saw (sets are not reordered)
        o["repair_info"] = [[comp, _info_json(i)] for comp, i in repair_info.items()]
        o["global"] = _global_obs(c, cands, cg, d, rng)
        return o
    # synthetic
    bv = {}
    for comps, agts in c["calls"]:
        bv.update(create_binary_variables(c["prefix"], (list(comps), list(agts))))
    if c.get("raw_collision") and len(bv) >= 2:
        keys = list(bv)
        bv[keys[-1]] = BinaryVariable(bv[keys[0]].name)
    t = c["ctype"]
    if t == "hosted":
        spec = dict(ctype=t, comp=c["comp"])
        make = lambda: P.create_computation_hosted_constraint(c["comp"], bv)
    elif t == "capacity":
        spec = dict(ctype=t, agt=c["agt"], remaining=c["remaining"], table=c["table"])
        make = lambda: P.create_agent_capacity_constraint(c["agt"], c["remaining"], _tblfun(c["table"]), bv)
    elif t == "hosting":
        spec = dict(ctype=t, agt=c["agt"], table=c["table"])
        make = lambda: P.create_agent_hosting_constraint(c["agt"], _tblfun(c["table"]), bv)
    else:
        agts, fixed, cn = c["info"]
        i = (list(agts), dict(fixed), {k: list(v) for k, v in cn.items()})
        spec = dict(ctype=t, agt=c["agt"], cand=c["cand"],
                    info=[list(agts), [[k, v] for k, v in fixed.items()], [[k, list(v)] for k, v in cn.items()]],
                    comm=c["comm"], comm_default=c["comm_default"])
        make = lambda: P.create_agent_comp_comm_constraint(
            c["agt"], c["cand"], i, _commfun(c["comm"], c["comm_default"]), bv)
    return dict(constraints=[_constr_obs(spec, bv, make, rng)])


# ------------------------------------------------------------------ oracle
def _is_infra(name):
    return name.startswith("_")


def _spec_orphaned(c, b_is_technical=False):
    """computations whose host departed ('_'-prefixed infrastructure computations excluded)"""
    dep = set(c["departed"])
    out = []
    for comp, agt in c["host"]:
        if agt in dep and not _is_infra(comp):
            if b_is_technical and comp.startswith("B"):
                continue
            out.append(comp)
    return out


def _removal_oracle(c, o, b_is_technical=False):
    dep = set(c["departed"])
    host = dict(c["host"])
    rep = {k: set(v) for k, v in c["replicas"].items()}
    orph = _spec_orphaned(c, b_is_technical)
    if sorted(set(o["orphaned"])) != sorted(orph):
        return "orphaned computations %r, expected %r" % (sorted(set(o["orphaned"])), sorted(orph))
    exp = set()
    for x in orph:
        exp |= rep[x] - dep
    if "ok" not in o["cand_agents"]:
        return "_removal_candidate_agents raised " + o["cand_agents"]["error"]
    if set(o["cand_agents"]["ok"]) != exp:
        return ("candidate agents %r, expected the surviving replica holders of orphaned computations %r"
                % (o["cand_agents"]["ok"], sorted(exp)))
    graph = {}
    for name, ns in c["graph"]:
        graph.setdefault(name, ns)
    infos = {}
    for x, r in o["info"]:
        if x not in host or x not in graph or any(n not in host for n in graph[x] if n != x):
            continue            # the property says nothing about unknown computations
        if "ok" not in r:
            return "_removal_candidate_computation_info(%s) raised %s" % (x, r["error"])
        agts, fixed, cn = r["ok"]
        infos[x] = r["ok"]
        if set(agts) != rep[x] - dep or len(agts) != len(set(agts)):
            return "info(%s): candidate agents %r, expected %r" % (x, agts, sorted(rep[x] - dep))
        fixed, cn = dict(map(tuple, fixed)), {k: v for k, v in cn}
        nbrs = set(graph[x]) - {x}
        if set(fixed) | set(cn) != nbrs or set(fixed) & set(cn):
            return "info(%s): neighbours %r / %r do not partition %r" % (x, sorted(fixed), sorted(cn), sorted(nbrs))
        for n in nbrs:
            if n in orph:
                if n not in cn or set(cn[n]) != rep[n] - dep or len(cn[n]) != len(set(cn[n])):
                    return "info(%s): orphaned neighbour %s has candidates %r, expected %r" % (
                        x, n, cn.get(n), sorted(rep[n] - dep))
            else:
                if n not in fixed or fixed[n] != host[n]:
                    return "info(%s): fixed neighbour %s on %r, hosted on %r" % (x, n, fixed.get(n), host[n])
                if fixed[n] in dep and not _is_infra(n) and not (b_is_technical and n.startswith("B")):
                    return "info(%s): fixed neighbour %s is hosted on departed agent %s" % (x, n, fixed[n])
    for a, comps, inf in o["for_agt"]:
        exp_c = [x for x in orph if a in rep[x]]
        if "ok" not in comps or sorted(set(comps["ok"])) != sorted(exp_c):
            return "candidate computations for %s: %r, expected %r" % (a, comps, exp_c)
        if any(x not in infos for x in exp_c):
            continue
        if "ok" not in inf:
            return "_removal_candidate_agt_info(%s) raised %s" % (a, inf["error"])
        if sorted(k for k, _ in inf["ok"]) != sorted(exp_c):
            return "agt_info(%s) keys %r, expected %r" % (a, [k for k, _ in inf["ok"]], exp_c)
        for k, v in inf["ok"]:
            if v != infos[k]:
                return "agt_info(%s)[%s] differs from computation_info(%s)" % (a, k, k)
    return None


def _constr_oracle(co, ctx=None):
    """defining sums evaluated on the regular (binary) assignments.  ctx (flow cases) gives the
    independent expectation of the scope."""
    spec = co["spec"]
    bv = co["bv"]
    names = [n for _, _, n in bv]
    if len(set(names)) != len(names) or len({(a, b_) for a, b_, _ in bv}) != len(bv):
        return None                     # colliding names: outside the property's domain
    if "ok" not in co["created"]:
        if ctx is not None:
            return "constraint %s could not be created: %s" % (spec["ctype"], co["created"]["error"])
        return None
    name_of = {(a, b_): n for a, b_, n in bv}
    key_of = {n: (a, b_) for a, b_, n in bv}
    keys = co["keys"]
    t = spec["ctype"]
    if t == "comm":
        agts, fixed, cn = spec["info"]
        comm = _commfun(spec["comm"], spec["comm_default"])
        fixed_sum = sum(comm(spec["cand"], n, a) for n, a in fixed)
        loc = name_of[(spec["cand"], spec["agt"])]
        if len({k for k, _ in cn}) != len(cn) or any(len(set(a)) != len(a) for _, a in cn):
            return None
    for vec, r in co["evals"]:
        x = dict(zip(keys, vec))
        if "skip" in r:
            continue
        if "ok" not in r:
            return "%s constraint raised %s on a binary assignment of its scope" % (t, r.get("error"))
        val = r["ok"]
        if t == "hosted":
            ones = sum(1 for v in vec if v == 1)
            if (val == 0) != (ones == 1):
                return "hosted constraint gives %r with %d hosting candidate(s)" % (val, ones)
        elif t == "capacity":
            load = sum(spec["table"].get(key_of[k][0], 0) for k in keys if x[k] == 1)
            if (val == 0) != (load <= spec["remaining"]):
                return "capacity constraint gives %r for footprint %r and remaining capacity %r" % (
                    val, load, spec["remaining"])
        elif t == "hosting":
            cost = sum(spec["table"].get(key_of[k][0], 0) for k in keys if x[k] == 1)
            if val != cost:
                return "hosting constraint gives %r, sum of hosting costs is %r" % (val, cost)
        else:
            cost = x[loc] * (fixed_sum + sum(x[name_of[(n, a)]] * comm(spec["cand"], n, a)
                                             for n, al in cn for a in al))
            if val != cost:
                return "communication constraint gives %r, defining sum is %r" % (val, cost)
    return None


def _flow_scope_oracle(c, o):
    """the repair DCOP of agent `own` has the constraints and scopes the repair rules ask for"""
    own = o.get("own")
    if own is None:
        return None
    if "repair_info_error" in o:
        return None
    dep = set(c["departed"])
    rep = {k: set(v) for k, v in c["replicas"].items()}
    host = dict(c["host"])
    orph = _spec_orphaned(c)
    graph = {}
    for name, ns in c["graph"]:
        graph.setdefault(name, ns)
    mine = [x for x in orph if own in rep[x]]
    got = {}
    for co in o["constraints"]:
        s = co["spec"]
        key = (s["ctype"], s.get("comp") or s.get("cand") or s.get("agt"))
        got[key] = co
    for x in mine:
        co = got.get(("hosted", x))
        if co is None or "ok" not in co["created"]:
            return "no hosted constraint for candidate computation %s" % x
        exp = {"B%s_%s" % (x, a) for a in rep[x] - dep}
        if set(co["created"]["ok"][1]) != exp:
            return "hosted constraint of %s ranges over %r, expected %r" % (x, co["created"]["ok"][1], sorted(exp))
        cm = got.get(("comm", x))
        if cm is None or "ok" not in cm["created"]:
            return "no communication constraint for candidate computation %s" % x
        if x in graph and all(n in host for n in graph[x]):
            exp = {"B%s_%s" % (x, own)}
            for n in set(graph[x]) - {x}:
                if n in orph:
                    exp |= {"B%s_%s" % (n, a) for a in rep[n] - dep}
            if set(cm["created"]["ok"][1]) != exp:
                return "comm constraint of %s ranges over %r, expected %r" % (x, cm["created"]["ok"][1], sorted(exp))
            # and its fixed part uses the surviving hosts of the fixed neighbours
            fx = dict(map(tuple, cm["spec"]["info"][1]))
            for n in set(graph[x]) - {x}:
                if n not in orph and fx.get(n) != host[n]:
                    return "comm constraint of %s: fixed neighbour %s on %r" % (x, n, fx.get(n))
    for t in ("capacity", "hosting"):
        co = got.get((t, own))
        if co is None or "ok" not in co["created"]:
            return "no %s constraint" % t
        exp = {"B%s_%s" % (x, own) for x in mine}
        if set(co["created"]["ok"][1]) != exp:
            return "%s constraint ranges over %r, expected %r" % (t, co["created"]["ok"][1], sorted(exp))
    return None


def _global_oracle(c, o, b_is_technical=False):
    """hard sum 0 iff valid rehosting; then soft sum = hosting + communication cost (from the raw case)"""
    g = o.get("global")
    if not g or "error" in g or "repair_info_error" in o:
        return None
    dep = set(c["departed"])
    rep = {k: set(v) for k, v in c["replicas"].items()}
    host = dict(c["host"])
    orph = [x for x in dict.fromkeys(_spec_orphaned(c, b_is_technical))]
    cand = {x: rep.get(x, set()) - dep for x in orph}
    graph = {}
    for name, ns in c["graph"]:
        graph.setdefault(name, ns)
    exp_vars = sorted((x, a) for x in orph for a in cand[x])
    got_vars = sorted((k[0], k[1]) for k in g["bv"])
    if exp_vars != got_vars:
        return "repair DCOP variables %r, expected one per (orphaned computation, candidate) %r" % (got_vars, exp_vars)
    if sorted(g["agents"]) != sorted({a for x in orph for a in cand[x]}):
        return "repair DCOP built by %r" % g["agents"]
    fp, hc = _tblfun(c["footprint"]), _tblfun(c["hosting"])
    comm = _commfun(c["comm"], c["comm_default"])
    keys = [(k[0], k[1]) for k in g["bv"]]
    for vals, h, s_ in g["evals"]:
        if "ok" not in h or "ok" not in s_:
            return "repair DCOP cannot be evaluated: %r %r" % (h, s_)
        x = dict(zip(keys, vals))
        sel = {y: [a for a in sorted(cand[y]) if x[(y, a)] == 1] for y in orph}
        valid = all(len(sel[y]) == 1 for y in orph if cand[y])
        for a in g["agents"]:
            if sum(fp(y) for y in orph if a in cand[y] and x[(y, a)] == 1) > c["remaining"]:
                valid = False
        if (h["ok"] == 0) != valid:
            return "hard part of the repair DCOP is %d on %s assignment %r" % (
                h["ok"], "a valid" if valid else "an invalid", dict(zip(["%s@%s" % k for k in keys], vals)))
        if h["ok"] < 0:
            return "negative hard cost"
        if valid:
            new = {y: sel[y][0] for y in orph if cand[y]}
            cost = 0
            for y, a in new.items():
                cost += hc(y)
                for n_ in dict.fromkeys(graph.get(y, [])):
                    if n_ == y:
                        continue
                    if n_ in orph:
                        if n_ in new:
                            cost += comm(y, n_, new[n_])
                    else:
                        cost += comm(y, n_, host[n_])
            if s_["ok"] != cost:
                return "soft part of the repair DCOP is %d, hosting + communication cost of the rehosting is %d" % (
                    s_["ok"], cost)
    return None


def _oracle(c, o, b_is_technical=False):
    if "flow_error" in o:
        return "repair DCOP cannot be built: " + o["flow_error"]
    if "removal" in o:
        m = _removal_oracle(c, o["removal"], b_is_technical)
        if m:
            return m
        r = o["removal"]
        if "view_after" in r:
            exp = {k: sorted(set(v)) for k, v in c["replicas"].items()}
            got = {k: sorted(v) for k, v in r["view_after"]["replicas"]}
            hosted = {x for x, _ in c["host"]}
            bad = sorted(k for k in hosted if got.get(k, []) != exp.get(k, []))
            if bad:
                return ("the removal queries changed the discovery state: replicas of %s are now %r, registered %r"
                        % (bad[0], got.get(bad[0]), exp.get(bad[0])))
        if "second" in r:
            c2 = dict(c, departed=_second_departed(c))
            m = _removal_oracle(c2, r["second"], b_is_technical)
            if m:
                return "second removal (agents %r) on the same discovery: %s" % (c2["departed"], m)
    for co in o.get("constraints", []):
        m = _constr_oracle(co, ctx=c if c["kind"] == "flow" else None)
        if m:
            return m
    if c["kind"] == "flow" and not b_is_technical:
        m = _flow_scope_oracle(c, o)
        if m:
            return m
    if c["kind"] == "flow":
        m = _global_oracle(c, o, b_is_technical)
        if m:
            return m
    return None


def oracle(c, o):
    return _oracle(c, o)


def classify(c, o, msg):
    """the only listed deviation: a computation whose name starts with 'B' is 'technical' for
    Discovery.agent_computations, hence never orphaned"""
    if c["kind"] not in ("removal", "flow") or "flow_error" in o:
        return None
    dep = set(c["departed"]) | set(_second_departed(c))
    if not any(comp.startswith("B") and agt in dep for comp, agt in c["host"]):
        return None
    if _oracle(c, o, b_is_technical=True) is None:
        return FINDING_B
    return None


# ------------------------------------------------------------------ Gallina printer
_ERR = {"KeyError": "EKey", "UnknownComputation": "EUnknownComputation"}


def _res(r, f):
    if "ok" in r:
        return "(Ok %s)" % f(r["ok"])
    return "(Err %s)" % _ERR[r["error"]]      # any other exception: not expressible -> reported


def _pairs(l, fa, fb):
    return q.lst([q.pair(fa(a), fb(b_)) for a, b_ in l])


def _info(i):
    agts, fixed, cn = i
    return "(%s, %s, %s)" % (q.slist(agts), _pairs(fixed, q.s, q.s), _pairs(cn, q.s, q.slist))


def _removal_term(c, o):
    disc = "(mkDisc %s %s)" % (_pairs(o["view"]["comps"], q.s, q.s), _pairs(o["view"]["replicas"], q.s, q.slist))
    for_agt = q.lst(["(%s, %s, %s)" % (q.s(a), _res(cs, q.slist),
                                       _res(inf, lambda l: _pairs(l, q.s, _info)))
                     for a, cs, inf in o["for_agt"]])
    info = q.lst([q.pair(q.s(x), _res(r, _info)) for x, r in o["info"]])
    comps_for = q.lst(["(%s, %s, %s)" % (q.s(a), q.slist(os), _res(r, q.slist)) for a, os, r in o["comps_for"]])
    return "CRemoval (mkRemoval %s %s %s %s %s %s %s %s)" % (
        disc, _pairs(o["graph"], q.s, q.slist), q.slist(c["departed"]), q.slist(o["orphaned"]),
        _res(o["cand_agents"], q.slist), for_agt, info, comps_for)


def _constr_term(co):
    s = co["spec"]
    t = s["ctype"]
    if t == "hosted":
        spec = "(SHosted %s)" % q.s(s["comp"])
    elif t == "capacity":
        spec = "(SCapacity %s %s %s)" % (q.s(s["agt"]), q.z(s["remaining"]), q.szdict(s["table"]))
    elif t == "hosting":
        spec = "(SHosting %s %s)" % (q.s(s["agt"]), q.szdict(s["table"]))
    else:
        # only the rows that can matter keep the term small
        cand = s["cand"]
        fixed = {(n, a) for n, a in s["info"][1]}
        cn = {(n, a) for n, al in s["info"][2] for a in al}
        rows = [r for r in s["comm"] if r[0] == cand and ((r[1], r[2]) in fixed or (r[1], r[2]) in cn)]
        spec = "(SComm %s %s %s %s %s)" % (
            q.s(s["agt"]), q.s(cand), _info(s["info"]),
            q.lst(["(%s, %s, %s, %s)" % (q.s(a), q.s(b_), q.s(c_), q.z(v)) for a, b_, c_, v in rows]),
            q.z(s["comm_default"]))
    bv = q.lst(["((%s, %s), %s)" % (q.s(a), q.s(b_), q.s(n)) for a, b_, n in co["bv"]])
    created = _res(co["created"], lambda x: q.pair(q.s(x[0]), q.slist(x[1])))
    evals = q.lst([q.pair(q.zlist(v), _res(r, q.z)) for v, r in co.get("evals", []) if "skip" not in r])
    extra = q.lst([q.pair(_pairs(a, q.s, q.z), _res(r, q.z)) for a, r in co.get("extra", []) if "skip" not in r])
    return "CConstr (mkConstr %s %s %s %s %s %s)" % (spec, bv, created, q.slist(co.get("keys", [])), evals, extra)


def _ri_term(ri):
    return _pairs(ri, q.s, _info)


def _setup_term(o):
    sig = [co["created"]["ok"] for co in o["constraints"]]
    return "ASetup (mkSetup %s %s (Ok %s))" % (q.s(o["own"]), _ri_term(o["repair_info"]),
                                              _pairs(sig, q.s, q.slist))


def _global_term(c, g):
    orph = {k[0] for k in g["bv"]}
    rows = [r for r in c["comm"] if r[0] in orph]        # only candidate computations are looked up
    evals = q.lst(["(%s, %s, %s)" % (q.zlist(v), _res(h, q.z), _res(s_, q.z)) for v, h, s_ in g["evals"]])
    return "AGlobal (mkGlobal %s %s %s %s %s %s %s %s %s)" % (
        q.slist(g["agents"]), _pairs(g["ri"], q.s, _ri_term), q.z(c["remaining"]),
        q.szdict(c["footprint"]), q.szdict(c["hosting"]),
        q.lst(["(%s, %s, %s, %s)" % (q.s(a), q.s(b_), q.s(c_), q.z(v)) for a, b_, c_, v in rows]),
        q.z(c["comm_default"]),
        q.lst(["((%s, %s), %s)" % (q.s(a), q.s(b_), q.s(n)) for a, b_, n in g["bv"]]), evals)


def coq_case(c, o):
    terms = []
    if "removal" in o:
        terms.append("A1 (%s)" % _removal_term(c, o["removal"]))
    for co in o.get("constraints", []):
        terms.append("A1 (%s)" % _constr_term(co))
    if "repair_info" in o and all("ok" in co["created"] for co in o["constraints"]):
        terms.append(_setup_term(o))
    g = o.get("global")
    if g and "error" not in g:
        terms.append(_global_term(c, g))
    return q.lst(terms)


# ------------------------------------------------------------------ evidence helpers
def nontrivial(c, o):
    return bool(o.get("removal", {}).get("orphaned")) or any(co.get("evals") for co in o.get("constraints", []))


def histogram(cases, obs):
    h = {}
    for c, o in zip(cases, obs):
        h[c["kind"]] = h.get(c["kind"], 0) + 1
        for co in o.get("constraints", []) if isinstance(o, dict) else []:
            k = "constraint/" + co["spec"]["ctype"]
            h[k] = h.get(k, 0) + 1
            h["assignments"] = h.get("assignments", 0) + len(co.get("evals", [])) + len(co.get("extra", []))
            if "error" in co["created"]:
                h["constraint/creation-error"] = h.get("constraint/creation-error", 0) + 1
        g = o.get("global") if isinstance(o, dict) else None
        if g and "error" not in g:
            h["repair-dcop"] = h.get("repair-dcop", 0) + 1
            h["repair-dcop/assignments"] = h.get("repair-dcop/assignments", 0) + len(g["evals"])
            h["repair-dcop/hard-zero"] = h.get("repair-dcop/hard-zero", 0) + sum(
                1 for _, hd, _s in g["evals"] if hd.get("ok") == 0)
        elif g:
            h["repair-dcop/" + g["error"]] = h.get("repair-dcop/" + g["error"], 0) + 1
        r = o.get("removal") if isinstance(o, dict) else None
        if r:
            for _, res in r["info"]:
                k = "info/" + ("ok" if "ok" in res else res["error"])
                h[k] = h.get(k, 0) + 1
    return h


def shrink_candidates(c):
    if c["kind"] in ("removal", "flow"):
        for i in range(len(c["host"])):
            comp = c["host"][i][0]
            d = dict(c)
            d["host"] = c["host"][:i] + c["host"][i + 1:]
            d["replicas"] = {k: v for k, v in c["replicas"].items() if k != comp}
            d["graph"] = [[n, [x for x in ns if x != comp]] for n, ns in c["graph"] if n != comp]
            d["extra_orph"] = []
            yield d
        for i in range(len(c["departed"])):
            d = dict(c); d["departed"] = c["departed"][:i] + c["departed"][i + 1:]; yield d
        for k in list(c["replicas"]):
            for a in c["replicas"][k]:
                d = dict(c); d["replicas"] = dict(c["replicas"]); d["replicas"][k] = [x for x in c["replicas"][k] if x != a]
                yield d
        if c["kind"] == "flow":
            d = dict(c); d["kind"] = "removal"; yield d
