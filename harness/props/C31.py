"""C31 -- agent definitions honour their cost model, also when mass-created."""
from harness import coqio as q

ID = "C31"
COQ_REQUIRE = ["M_AgentDef"]
COQ_CASE_TYPE = "M_AgentDef.case"
COQ_CHECK = "M_AgentDef.check_case"
OBLIGATIONS = ["route_self_zero", "route_specific_else_default", "hosting_specific_else_default",
               "attrs_readable", "create_agents_equals_individual", "create_agents_tuple_keys"]
N_QUICK, N_THOROUGH = 400, 6000
RULE = ("seeded random AgentDef arguments (routes/hosting tables over a pool of 6 names, defaults, "
        "extra attributes) probed on every pool name, and create_agents calls with list / range / "
        "tuple-of-lists indexes; 4/7 of the definitions are probed after a copy / deepcopy / pickle / "
        "simple_repr round trip (which must answer as the original), extra attribute names include "
        "underscore-prefixed ones; non-trivial = at least one specific route or hosting cost or "
        "attribute, or a mass creation of >= 2 agents; distinct = distinct case JSON")
MODELLED = ("AgentDef.route/hosting_cost/__getattr__ and create_agents are modelled and all "
            "statements of C31 are theorems about the model (Prop_C31.v); tied to the code by this run")
META = dict(
    level_text=("Proof (Coq) that in the model of AgentDef the route to self is 0, a specific route/"
                "hosting cost wins over the default, extra attributes are readable, and every agent "
                "returned by create_agents equals the individually built agent with the same "
                "arguments, for all argument values and index kinds; the model is tied to "
                "pydcop/dcop/objects.py by a differential run on generated arguments on every check."),
    level_note=("Trusted: Coq kernel/vm_compute, the hand-written model M_AgentDef.v, the harness. "
                "Costs are integers in generated cases; str() of indexes and f-string padding are "
                "modelled for non-negative ranges only."),
    technique="Coq proof over executable Gallina model + differential correspondence run",
    design_ref="DESIGN.md §5 C31",
)

NAMES = ["a1", "a2", "a3", "c1", "c2", "x_y"]
ATTRS = ["capacity", "foo", "pref", "_grp", "__w", "default_hosting_costs"]
VIAS = ["direct", "direct", "direct", "copy", "deepcopy", "pickle", "repr"]


def _table(rng, pool):
    return {k: rng.randint(-5, 50) for k in pool if rng.random() < 0.4}


def gen(rng, n, tier):
    cases = []
    for i in range(n):
        if rng.random() < 0.5:
            c = dict(kind="probe", name=rng.choice(NAMES), default_route=rng.randint(0, 9),
                     routes=_table(rng, NAMES) if rng.random() < 0.8 else None,
                     default_hosting=rng.randint(0, 9),
                     hosting=_table(rng, NAMES) if rng.random() < 0.8 else None,
                     attrs={k: rng.randint(0, 99) for k in ATTRS[:5] if rng.random() < 0.4},
                     use_defaults=rng.random() < 0.15, via=rng.choice(VIAS))
        else:
            kind = rng.choice(["list", "range", "tuple", "strlist"])
            if kind == "list":
                idx = [rng.randint(0, 30) for _ in range(rng.randint(0, 4))]
            elif kind == "strlist":
                idx = [rng.choice(["1", "2", "b", "07", "x"]) for _ in range(rng.randint(0, 4))]
            elif kind == "range":
                a = rng.randint(0, 12)
                idx = [a, a + rng.randint(1, 5) if rng.random() < 0.9 else rng.choice([100, 101, 1000])]
                if idx[1] - idx[0] > 6:
                    idx[0] = idx[1] - rng.randint(1, 4)
            else:
                idx = [[rng.choice(["1", "2", "a", "bb"]) for _ in range(rng.randint(0, 3))]
                       for _ in range(rng.randint(0, 3))]
            c = dict(kind="create", idx_kind=kind, idx=idx, prefix=rng.choice(["a", "ag_", ""]),
                     sep=rng.choice(["_", "", "-"]), default_route=rng.randint(0, 9),
                     routes=_table(rng, NAMES) if rng.random() < 0.6 else None,
                     default_hosting=rng.randint(0, 9),
                     hosting=_table(rng, NAMES) if rng.random() < 0.6 else None,
                     attrs={k: rng.randint(0, 99) for k in ATTRS[:5] if rng.random() < 0.4},
                     use_defaults=rng.random() < 0.15, via=rng.choice(VIAS))
        cases.append(c)
    return cases


def _fields(a):
    """read the agent through its public API only"""
    return dict(name=a.name, default_route=a.default_route, routes=list(a.routes.items()),
                default_hosting=a.default_hosting_cost, hosting=list(a.hosting_costs.items()),
                attrs=sorted(a.extra_attr().items()))


def _via(a, via):
    """the agent definition as the rest of the library gets it: directly, or after the copy / pickle / wire
    round trip that process mode, deepcopy-ing callers and the orchestrator's deploy messages apply to it.
    C31 states the behaviour of the definition, so every such copy must answer as the original."""
    if via == "copy":
        import copy
        return copy.copy(a)
    if via == "deepcopy":
        import copy
        return copy.deepcopy(a)
    if via == "pickle":
        import pickle
        return pickle.loads(pickle.dumps(a))
    if via == "repr":
        from pydcop.utils.simple_repr import simple_repr, from_repr
        return from_repr(simple_repr(a))
    return a


def _build_kwargs(c):
    kw = {}
    if not c["use_defaults"]:
        kw["default_route"] = c["default_route"]
    if c["routes"] is not None:
        kw["routes"] = dict(c["routes"])
    if c["hosting"] is not None:
        kw["hosting_costs"] = dict(c["hosting"])
    return kw


def run_impl(c):
    from pydcop.dcop.objects import AgentDef, create_agents
    kw = _build_kwargs(c)
    if c["kind"] == "probe":
        if not c["use_defaults"]:
            kw["default_hosting_cost"] = c["default_hosting"]
        a = _via(AgentDef(c["name"], **kw, **c["attrs"]), c.get("via", "direct"))
        routes = [(o, a.route(o)) for o in NAMES]
        hosting = [(o, a.hosting_cost(o)) for o in NAMES]
        attrs = []
        for k in ATTRS:
            try:
                attrs.append((k, getattr(a, k)))
            except AttributeError:
                attrs.append((k, None))
        return dict(fields=_fields(a), routes=routes, hosting=hosting, attrs=attrs)
    if not c["use_defaults"]:
        kw["default_hosting_costs"] = c["default_hosting"]
    if c["idx_kind"] == "range":
        idx = range(c["idx"][0], c["idx"][1])
    elif c["idx_kind"] == "tuple":
        idx = tuple(list(l) for l in c["idx"])
    else:
        idx = list(c["idx"])
    try:
        d = create_agents(c["prefix"], idx, separator=c["sep"], **kw, **c["attrs"])
    except Exception as e:
        return dict(error=type(e).__name__)
    items = []
    for k, a in d.items():
        a = _via(a, c.get("via", "direct"))
        # probe each created agent and the individually built twin (property oracle input)
        items.append(dict(key=list(k) if isinstance(k, tuple) else k, fields=_fields(a),
                          routes=[(o, a.route(o)) for o in NAMES],
                          hosting=[(o, a.hosting_cost(o)) for o in NAMES]))
    return dict(items=items)


def _eff(c):
    """effective constructor arguments"""
    dr = 1 if c["use_defaults"] else c["default_route"]
    dh = 0 if c["use_defaults"] else c["default_hosting"]
    return dr, dict(c["routes"] or {}), dh, dict(c["hosting"] or {})


def oracle(c, o):
    """independent statement of C31 on the implementation's observation"""
    dr, routes, dh, hosting = _eff(c)
    if c["kind"] == "probe":
        for other, val in o["routes"]:
            exp = 0 if other == c["name"] else routes.get(other, dr)
            if val != exp:
                return "route(%s) = %r, expected %r" % (other, val, exp)
        for comp, val in o["hosting"]:
            exp = hosting.get(comp, dh)
            if val != exp:
                return "hosting_cost(%s) = %r, expected %r" % (comp, val, exp)
        for k, val in o["attrs"]:
            if val != c["attrs"].get(k):
                return "attribute %s reads %r, expected %r" % (k, val, c["attrs"].get(k))
        return None
    if "error" in o:
        return "create_agents raised " + o["error"]
    for it in o["items"]:
        name = it["fields"]["name"]
        for other, val in it["routes"]:
            exp = 0 if other == name else routes.get(other, dr)
            if val != exp:
                return "mass-created %s: route(%s) = %r, individually built agent gives %r" % (name, other, val, exp)
        for comp, val in it["hosting"]:
            exp = hosting.get(comp, dh)
            if val != exp:
                return "mass-created %s: hosting_cost(%s) = %r, individually built agent gives %r" % (name, comp, val, exp)
        if dict(it["fields"]["attrs"]) != c["attrs"]:
            return "mass-created %s: extra attributes %r, expected %r" % (name, it["fields"]["attrs"], c["attrs"])
    return None


def _agent_term(f):
    return "(mkAgent %s %s %s %s %s %s)" % (
        q.s(f["name"]), q.z(f["default_route"]), q.szdict(f["routes"]),
        q.z(f["default_hosting"]), q.szdict(f["hosting"]), q.szdict(f["attrs"]))


def coq_case(c, o):
    dr, routes, dh, hosting = _eff(c)
    attrs = sorted(c["attrs"].items())
    if c["kind"] == "probe":
        agent = dict(name=c["name"], default_route=dr, routes=list(routes.items()), default_hosting=dh,
                     hosting=list(hosting.items()), attrs=attrs)
        return "CProbe (mkProbe %s %s %s %s)" % (
            _agent_term(agent), q.szdict(o["routes"]), q.szdict(o["hosting"]),
            q.lst([q.pair(q.s(k), q.opt(v, q.z)) for k, v in o["attrs"]]))
    if "error" in o:
        return None
    if c["idx_kind"] == "range":
        idx = "(IdxRange %s %s)" % (q.N(c["idx"][0]), q.N(c["idx"][1]))
    elif c["idx_kind"] == "tuple":
        idx = "(IdxTuple %s)" % q.lst([q.slist(l) for l in c["idx"]])
    else:
        idx = "(IdxList %s)" % q.slist([str(i) for i in c["idx"]])
    observed = q.lst([q.pair("(KTuple %s)" % q.slist(it["key"]) if isinstance(it["key"], list)
                             else "(KName %s)" % q.s(it["key"]), _agent_term(it["fields"]))
                      for it in o["items"]])
    return "CCreate (mkCreate %s %s %s %s %s %s %s %s %s)" % (
        q.s(c["prefix"]), idx, q.z(dr), q.szdict(routes), q.z(dh), q.szdict(hosting),
        q.s(c["sep"]), q.szdict(attrs), observed)


def nontrivial(c, o):
    if c["kind"] == "probe":
        return bool(c["routes"] or c["hosting"] or c["attrs"])
    return "items" in o and len(o["items"]) >= 2


def histogram(cases, obs):
    h = {}
    for c in cases:
        k = c["kind"] + ("/" + c["idx_kind"] if c["kind"] == "create" else "")
        h[k] = h.get(k, 0) + 1
        k = "via/" + c.get("via", "direct")
        h[k] = h.get(k, 0) + 1
    return h


def classify(c, o, msg):
    return None


def shrink_candidates(c):
    if c.get("via", "direct") != "direct":
        d = dict(c); d["via"] = "direct"; yield d
    for k in ("routes", "hosting"):
        if c.get(k):
            for key in list(c[k]):
                d = dict(c); d[k] = {a: b for a, b in c[k].items() if a != key}; yield d
    if c.get("attrs"):
        for key in list(c["attrs"]):
            d = dict(c); d["attrs"] = {a: b for a, b in c["attrs"].items() if a != key}; yield d
    if c["kind"] == "create" and c["idx_kind"] in ("list", "strlist") and len(c["idx"]) > 1:
        d = dict(c); d["idx"] = c["idx"][:-1]; yield d
