"""C14 -- DCOP YAML files round-trip and load faithfully.

Every case runs the REAL pydcop.dcop.yamldcop: dcop_yaml on a generated DCOP (the trees handed to
yaml.dump are captured), then load_dcop / load_dcop_from_file on the text (one string, one file
given as str, or 1..3 files), and the loaded DCOP is observed through its public API.  The Coq
model (M_Yaml.to_tree / load_files / of_tree) is evaluated on the same inputs.  The oracle states
the property independently: an expressible DCOP must come back equivalent.
"""
import itertools
import os
import shutil
import tempfile

from harness import coqio as q

ID = "C14"
COQ_REQUIRE = ["M_AgentDef", "M_Yaml"]
COQ_CASE_TYPE = "M_Yaml.case"
COQ_CHECK = "M_Yaml.check_case"
COQ_PREAMBLE = "Import M_AgentDef M_Yaml."
OBLIGATIONS = ["multi_file_concat", "assignments_text_roundtrip_partial", "extensional_table_roundtrip",
               "extensional_same_str_refuted",
               "domains_roundtrip", "variables_roundtrip", "constraints_roundtrip",
               "constraint_values_preserved", "agents_roundtrip", "routes_load_order_independent",
               "yaml_roundtrip", "multi_file_split", "yaml_roundtrip_files",
               "default_route_guard_refuted", "unregistered_domain_guard_refuted",
               "extensional_values_order_independent", "agents_roundtrip_any_key_order",
               "yaml_roundtrip_any_key_order", "yaml_roundtrip_pipeline"]
N_QUICK, N_THOROUGH = 400, 6000
SHARD = 100
PARALLEL = 1
RULE = ("seeded random DCOPs (70 % assembled by filling the DCOP's dicts, 30 % through the public API "
        "add_variable / add_constraint / add_agents, which decides which domains are registered): 1-3 domains (int / str / mixed values, sizes 0-4, a few hostile ones: "
        "equal str(), blanks, '|'; some with values differing only by case), 1-5 variables with/without initial value, 0-4 constraints "
        "(matrix, function-without-expression, expression) of arity 1-3, 0-4 agents with capacity, "
        "symmetric / one-sided / unknown-target routes, default and specific hosting costs; dumped "
        "and read back from a string, a str path, or 1-3 files (optionally an extra file "
        "re-defining the agents; in 40 % of the file cases the same paths first held another DCOP "
        "that was loaded earlier in the process); plus hand-written trees using the syntax dcop_yaml never emits "
        "(default value, 'variables: v', agents as a list, global default hosting cost) and "
        "malformed trees.  non-trivial = at least one constraint or one agent; distinct = distinct "
        "case JSON")
MODELLED = ("dump side (_yaml_domains/_yaml_variables/_yaml_constraints/yaml_agents) and load side "
            "(_build_domains/_build_variables/_build_constraints/_build_agents, multi-file "
            "concatenation at section level) are modelled incl. the string encoding of "
            "extensional tables; theorems: see Prop_C14.v.  Only checked by this run: PyYAML's text "
            "layer (load(dump(t)) == t), evaluation of expression constraints (Python eval), "
            "external variables, cost functions of variables, distribution hints, '..' ranges")
META = dict(
    level_text=("Proof (Coq) about an executable model of yamldcop.py's dump and load functions: for "
                "every well-formed DCOP (any number/size of domains, variables, constraints, agents) "
                "loading the dumped tree succeeds and yields the same domains, variables, extensional "
                "tables (every assignment), expression texts and agents' capacity/route/hosting costs; "
                "the model is tied to the code by a differential run on generated DCOPs and trees."),
    level_note=("Partial: PyYAML's text layer and Python's eval of expression constraints are outside "
                "the model (checked by the run's oracle only); the well-formedness guard lists exactly "
                "what 'expressible' means."),
    technique="Coq proof over executable Gallina model + differential correspondence run",
    design_ref="DESIGN.md §5 C14",
)
TRUSTED = ["PyYAML text layer (yaml.dump / yaml.load FullLoader); checked per case: load(text) == dumped tree"]

WORK = "/verif/.work"

# ----------------------------------------------------------------------------- generator
INT_POOL = list(range(-3, 10))
STR_POOL = ["a", "b", "c", "R", "G", "B", "x1", "on", "no", "1", "2", "-1", "null", "7.5", "v_1"]
HOSTILE = ["a b", "", "x|y", " a", "a..b"]
TYPES = ["", "color", "lum"]


def _gen_domain(rng, name):
    r = rng.random()
    size = rng.choice([1, 2, 2, 3, 3, 4]) if rng.random() > 0.03 else 0
    if r < 0.45:
        if rng.random() < 0.5:
            start = rng.randint(-2, 3)
            vals = list(range(start, start + size))
        else:
            vals = rng.sample(INT_POOL, size)
    elif r < 0.8:
        vals = rng.sample(STR_POOL, size)
    else:
        vals = rng.sample(INT_POOL + STR_POOL, size)
    if vals and rng.random() < 0.06:
        vals[rng.randrange(len(vals))] = rng.choice(HOSTILE)
    if len(vals) >= 2 and rng.random() < 0.03:
        vals[0] = 1
        vals[1] = "1"
    if len(vals) >= 2 and rng.random() < 0.08:
        # two distinct values whose str() differ only by case ("R" / "r")
        strs = [x for x in vals if isinstance(x, str) and x.swapcase() != x and x.swapcase() not in vals]
        if strs:
            x = rng.choice(strs)
            others = [i for i, y in enumerate(vals) if y != x]
            vals[rng.choice(others)] = x.swapcase()
    return dict(name=name, type=rng.choice(TYPES), values=vals)


def _expr_for(rng, vars_, doms):
    names = [v["name"] for v in vars_]
    all_int = all(isinstance(x, int) for v in vars_ for x in doms[v["domain"]]["values"])
    if len(names) == 1:
        (a,) = names
        opts = ["3 if %s == %r else 1" % (a, (doms[vars_[0]["domain"]]["values"] or [0])[0])]
        if all_int:
            opts += ["%s * 2" % a, "abs(%s - 1)" % a, "%s + 10" % a]
    elif len(names) == 2:
        a, b = names
        opts = ["1 if %s == %s else 0" % (a, b), "0 if %s != %s else 10" % (a, b)]
        if all_int:
            opts += ["%s + %s" % (a, b), "abs(%s - %s)" % (a, b), "%s * %s + 1" % (a, b)]
    else:
        a, b, c = names
        opts = ["1 if %s == %s else (2 if %s == %s else 0)" % (a, b, b, c)]
        if all_int:
            opts += ["%s + %s - %s" % (a, b, c)]
    return rng.choice(opts)


def _gen_dcop(rng):
    nd = rng.randint(1, 3)
    domains = [_gen_domain(rng, "d%d" % i) for i in range(nd)]
    registered = [d["name"] for d in domains]
    if rng.random() < 0.04 and nd > 1:
        registered = registered[:-1]
    if rng.random() < 0.15:
        rng.shuffle(registered)
    doms = {d["name"]: d for d in domains}
    nv = rng.randint(1, 5)
    variables = []
    for i in range(nv):
        d = rng.choice(domains)
        init = None
        if d["values"] and rng.random() < 0.5:
            init = rng.choice(d["values"])
        variables.append(dict(name="v%d" % i, domain=d["name"], init=init))
    constraints = []
    for i in range(rng.randint(0, 4)):
        ar = min(nv, rng.choice([1, 2, 2, 2, 3]))
        vs = rng.sample(variables, ar)
        size = 1
        for v in vs:
            size *= len(doms[v["domain"]]["values"])
        if size > 40:
            vs = vs[:1]
            size = len(doms[vs[0]["domain"]]["values"])
        kind = rng.choice(["ext", "ext", "func", "int"])
        c = dict(name="c%d" % i, kind=kind, vars=[v["name"] for v in vs])
        if kind == "int":
            c["expr"] = _expr_for(rng, vs, doms)
        else:
            pool = rng.choice([[0, 1], [0, 1, 5, 10], list(range(-5, 21))])
            c["table"] = [rng.choice(pool) for _ in range(size)]
        constraints.append(c)
    na = rng.choice([0, 1, 2, 2, 3, 3, 4])
    names = ["a%d" % i for i in range(na)]
    if na and rng.random() < 0.02:
        names[-1] = "default"
    comps = [v["name"] for v in variables] + [c["name"] for c in constraints]
    dr_common = rng.choice([1, 1, 2, 5])
    routes = {n: [] for n in names}
    mode = rng.random()
    for a, b in itertools.combinations(names, 2):
        if rng.random() < 0.45:
            c = rng.randint(0, 9)
            routes[a].append([b, c])
            if mode < 0.85:
                routes[b].append([a, c])
            elif mode < 0.93:
                pass                      # one-sided
            else:
                routes[b].append([a, c + 1])  # conflicting
    if names and rng.random() < 0.04:
        routes[names[0]].append(["zz", 3])    # unknown agent
    if names and rng.random() < 0.04:
        routes[names[0]].append([names[0], 4])  # route to self
    agents = []
    for n in names:
        rs = routes[n]
        rng.shuffle(rs)
        agents.append(dict(
            name=n,
            capacity=rng.choice([None, 10, 100, rng.randint(0, 50)]),
            foo=rng.choice([None, None, None, 7]),
            default_route=dr_common if rng.random() < 0.93 else rng.randint(0, 6),
            routes=rs,
            default_hosting=rng.choice([0, 0, 0, 1, 5, rng.randint(0, 20)]),
            hosting=[[c, rng.randint(0, 30)] for c in comps if rng.random() < 0.25]))
    if len(agents) >= 2 and rng.random() < 0.12:
        # heterogeneous default hosting costs: a non-zero value shared by most agents and one
        # agent that relies on the implicit default 0 (no entry at all in hosting_costs)
        h = rng.choice([1, 5, 8, rng.randint(1, 20)])
        for a in agents:
            a["default_hosting"] = h
        z = rng.choice(agents)
        z["default_hosting"] = 0
        z["hosting"] = []
    name, objective = rng.choice(["dcop", "t1", "graph coloring"]), rng.choice(["min", "max"])
    build = "api" if rng.random() < 0.3 else "dict"
    if build == "api":
        # the DCOP is assembled with DCOP.add_variable / add_constraint / add_agents only: its
        # domains are the ones the API registers (the domains of its variables, in that order)
        used = []
        for v in variables:
            if v["domain"] not in used:
                used.append(v["domain"])
        domains = [doms[n] for n in used]
        registered = list(used)
    return dict(name=name, objective=objective, build=build,
                domains=domains, registered=registered, variables=variables,
                constraints=constraints, agents=agents)


def _alt_tree(rng, d):
    """An independent writer of the YAML tree of DCOP description d using the parts of the
    format that dcop_yaml never emits.  Returns a plain tree."""
    doms = {x["name"]: x for x in d["domains"]}
    vars_ = {v["name"]: v for v in d["variables"]}
    t = {"name": d["name"], "objective": d["objective"]}
    if rng.random() < 0.3:
        t["description"] = "some text"
    t["domains"] = {}
    for n in d["registered"]:
        e = {"values": list(doms[n]["values"])}
        if doms[n]["type"] != "" or rng.random() < 0.5:
            e["type"] = doms[n]["type"]
        t["domains"][n] = e
    t["variables"] = {}
    for v in d["variables"]:
        e = {"domain": v["domain"]}
        if v["init"] is not None or rng.random() < 0.2:
            e["initial_value"] = v["init"]
        t["variables"][v["name"]] = e
    cs = {}
    for c in d["constraints"]:
        if c["kind"] == "int":
            cs[c["name"]] = {"type": "intention", "function": c["expr"]}
            continue
        vs = [vars_[n] for n in c["vars"]]
        shape = [len(doms[v["domain"]]["values"]) for v in vs]
        tuples = list(itertools.product(*[range(k) for k in shape]))
        table = dict(zip(tuples, c["table"]))
        e = {"type": "extensional"}
        default = None
        if c["table"] and rng.random() < 0.7:
            default = max(set(c["table"]), key=c["table"].count)
            e["default"] = default
        groups = {}
        order = list(tuples)
        rng.shuffle(order)
        for tp in order:
            if table[tp] == default and rng.random() < 0.9:
                continue
            groups.setdefault(table[tp], []).append(tp)
        single = len(vs) == 1 and rng.random() < 0.6
        vals = {}
        for cost, tps in groups.items():
            toks = []
            for tp in tps:
                words = [str(doms[v["domain"]]["values"][i]) for v, i in zip(vs, tp)]
                sep = rng.choice([" ", " ", "  "])
                toks.append(sep.join(words))
            if single and len(tps) == 1 and rng.random() < 0.4 and \
                    not isinstance(doms[vs[0]["domain"]]["values"][tps[0][0]], str):
                vals[cost] = doms[vs[0]["domain"]]["values"][tps[0][0]]
            else:
                vals[cost] = rng.choice([" | ", "|", " |  "]).join(toks)
        e["values"] = vals
        e["variables"] = (rng.choice(["%s", " %s", "%s "]) % c["vars"][0]) if single else list(c["vars"])
        cs[c["name"]] = e
    t["constraints"] = cs
    ags = d["agents"]
    if ags:
        if all(a["capacity"] is None for a in ags) and rng.random() < 0.5:
            t["agents"] = [a["name"] for a in ags]
        else:
            t["agents"] = {a["name"]: ({"capacity": a["capacity"]} if a["capacity"] is not None
                                       else rng.choice([None, {}])) for a in ags}
        rt = {}
        seen = set()
        for a in ags:
            tb = {}
            for b, c in a["routes"]:
                if (b, a["name"]) in seen and rng.random() < 0.6:
                    continue   # the format needs only one direction
                tb[b] = c
                seen.add((a["name"], b))
            if tb:
                rt[a["name"]] = tb
        if ags[0]["default_route"] != 1 or rng.random() < 0.5:
            rt["default"] = ags[0]["default_route"]
        if rt:
            items = list(rt.items())
            rng.shuffle(items)
            t["routes"] = dict(items)
        hc = {}
        dh = [a["default_hosting"] for a in ags]
        glob = max(set(dh), key=dh.count)
        if glob != 0 or rng.random() < 0.3:
            hc["default"] = glob
        else:
            glob = 0
        for a in ags:
            e = {}
            if a["default_hosting"] != glob or rng.random() < 0.2:
                e["default"] = a["default_hosting"]
            if a["hosting"] or rng.random() < 0.1:
                e["computations"] = dict((c, v) for c, v in a["hosting"])
            if e:
                hc[a["name"]] = e
        if hc:
            t["hosting_costs"] = hc
    return t


def _mutate(rng, t):
    """malformed trees: the loader must raise"""
    import copy
    t = copy.deepcopy(t)
    kind = rng.choice(["noname", "objective", "ctype", "notype", "unkvar", "unkdom", "badtoken",
                       "unkroute", "unkhost", "badinit", "novalues", "intassign"])
    cs = t.get("constraints") or {}
    ext = [n for n, c in cs.items() if c.get("type") == "extensional"]
    if kind == "noname":
        t.pop("name")
    elif kind == "objective":
        t["objective"] = rng.choice(["minimize", "MAX", ""])
    elif kind == "ctype" and cs:
        cs[rng.choice(list(cs))]["type"] = "intensional"
    elif kind == "notype" and cs:
        cs[rng.choice(list(cs))].pop("type")
    elif kind == "unkvar" and ext:
        c = cs[rng.choice(ext)]
        c["variables"] = ["nope"] if isinstance(c["variables"], list) else "nope"
    elif kind == "unkdom":
        v = rng.choice(list(t["variables"]))
        t["variables"][v]["domain"] = "nodom"
    elif kind == "badtoken" and ext:
        c = cs[rng.choice(ext)]
        if not c["values"]:
            return None
        k = rng.choice(list(c["values"]))
        if not isinstance(c["values"][k], str):
            return None
        words = c["values"][k].split()
        words[rng.randrange(len(words))] = "zzz"
        c["values"][k] = " ".join(words)
    elif kind == "unkroute" and t.get("agents"):
        t.setdefault("routes", {})["ghost"] = {"a0": 2}
    elif kind == "unkhost" and t.get("agents"):
        t.setdefault("hosting_costs", {})["ghost"] = {"default": 2}
    elif kind == "badinit":
        v = rng.choice(list(t["variables"]))
        t["variables"][v]["initial_value"] = "not-a-value"
    elif kind == "novalues" and ext:
        cs[rng.choice(ext)].pop("values")
    elif kind == "intassign" and ext:
        c = cs[rng.choice(ext)]
        if not isinstance(c["variables"], list) or not c["values"]:
            return None
        c["values"][rng.choice(list(c["values"]))] = 3
    else:
        return None
    return dict(tree=t, mutation=kind)


def gen(rng, n, tier):
    cases = []
    while len(cases) < n:
        d = _gen_dcop(rng)
        r = rng.random()
        if r < 0.6:
            how = rng.choice(["string", "string", "files", "files", "files", "strpath"])
            c = dict(kind="round", dcop=d, how=how, nfiles=rng.randint(1, 3), cutseed=rng.randint(0, 10 ** 6))
            if how == "files" and d["agents"] and rng.random() < 0.25:
                other = _gen_dcop(rng)["agents"]
                if other:
                    c["override_agents"] = other
            if how != "string" and rng.random() < 0.4:
                # the same path(s) held another DCOP that was loaded earlier in this process
                c["previous"] = _gen_dcop(rng)
            cases.append(c)
        elif r < 0.85:
            if not _expressible(d):
                continue
            cases.append(dict(kind="load", dcop=d, tree=_alt_tree(rng, d), mutation=None))
        else:
            if not _expressible(d):
                continue
            m = _mutate(rng, _alt_tree(rng, d))
            if m is None:
                continue
            cases.append(dict(kind="load", dcop=d, tree=m["tree"], mutation=m["mutation"]))
    return cases


# ----------------------------------------------------------------------------- implementation driver
class _YamlProxy:
    """stands for the `yaml` module inside pydcop.dcop.yamldcop: records the trees"""

    def __init__(self, real):
        self._real = real
        self.dumped = []
        self.loaded = []

    def dump(self, data, *a, **kw):
        import copy
        self.dumped.append(copy.deepcopy(data))
        return self._real.dump(data, *a, **kw)

    def load(self, *a, **kw):
        import copy
        r = self._real.load(*a, **kw)
        self.loaded.append(copy.deepcopy(r))
        return r

    def __getattr__(self, k):
        return getattr(self._real, k)


def _plain(x):
    """numpy scalars etc. -> python"""
    try:
        import numpy as np
        if isinstance(x, np.generic):
            return x.item()
    except Exception:
        pass
    return x


def _err(e):
    return {"error": type(e).__name__}


def _build_dcop(d):
    from pydcop.dcop.dcop import DCOP
    from pydcop.dcop.objects import Domain, Variable, AgentDef
    from pydcop.dcop.relations import NAryMatrixRelation, NAryFunctionRelation, constraint_from_str
    import numpy as np
    doms = {x["name"]: Domain(x["name"], x["type"], x["values"]) for x in d["domains"]}
    dcop = DCOP(d["name"], d["objective"])
    api = d.get("build") == "api"
    if not api:
        for n in d["registered"]:
            dcop.domains[n] = doms[n]
    vars_ = {}
    for v in d["variables"]:
        vars_[v["name"]] = Variable(v["name"], doms[v["domain"]], v["init"])
        if api:
            dcop.add_variable(vars_[v["name"]])
        else:
            dcop.variables[v["name"]] = vars_[v["name"]]
    for c in d["constraints"]:
        vs = [vars_[n] for n in c["vars"]]
        if c["kind"] == "int":
            r = constraint_from_str(c["name"], c["expr"], list(vars_.values()))
        elif c["kind"] == "ext":
            shape = tuple(len(v.domain) for v in vs)
            r = NAryMatrixRelation(vs, np.array(c["table"], dtype=np.int64).reshape(shape), name=c["name"])
        else:
            shape = [len(v.domain) for v in vs]
            tuples = list(itertools.product(*[range(k) for k in shape]))
            table = dict(zip(tuples, c["table"]))

            def f(_vs=vs, _table=table, **kw):
                return _table[tuple(v.domain.index(kw[v.name]) for v in _vs)]
            r = NAryFunctionRelation(f, vs, name=c["name"], f_kwargs=True)
        if api:
            dcop.add_constraint(r)
        else:
            dcop.constraints[c["name"]] = r
    dcop.add_agents([_build_agent(a) for a in d["agents"]])
    return dcop


def _build_agent(a):
    from pydcop.dcop.objects import AgentDef
    kw = {}
    if a["capacity"] is not None:
        kw["capacity"] = a["capacity"]
    if a.get("foo") is not None:
        kw["foo"] = a["foo"]
    return AgentDef(a["name"], default_route=a["default_route"], routes=dict((b, c) for b, c in a["routes"]),
                    default_hosting_cost=a["default_hosting"],
                    hosting_costs=dict((c, v) for c, v in a["hosting"]), **kw)


def _obs_domain(d):
    return dict(name=d.name, type=d.type, values=[_plain(x) for x in d.values])


def _obs_variable(v):
    return dict(name=v.name, domain=_obs_domain(v.domain), init=_plain(v.initial_value),
                cls=type(v).__name__)


def _obs_loaded(dcop, probe_agents, probe_comps):
    import numpy as np
    from pydcop.dcop.relations import NAryMatrixRelation
    o = dict(name=dcop.name, objective=dcop.objective,
             domains=[[k, _obs_domain(d)] for k, d in dcop.domains.items()],
             variables=[[k, _obs_variable(v)] for k, v in dcop.variables.items()],
             constraints=[], agents=[], evals={}, agent_probes={})
    for k, c in dcop.constraints.items():
        dims = [_obs_variable(v) for v in c.dimensions]
        if isinstance(c, NAryMatrixRelation):
            m = c._m
            table = [[list(idx), _plain(m[idx])] for idx in np.ndindex(*m.shape)]
            o["constraints"].append([k, dict(kind="ext", rname=c.name, dims=dims, table=table)])
        else:
            o["constraints"].append([k, dict(kind="int", rname=c.name, dims=dims, expr=c.expression)])
        # evaluation on every assignment, through the public call interface
        ev = []
        n = 1
        for v in c.dimensions:
            n *= len(v.domain)
        if n <= 200:
            for combo in itertools.product(*[list(v.domain.values) for v in c.dimensions]):
                ass = {v.name: x for v, x in zip(c.dimensions, combo)}
                try:
                    val = _plain(c(**ass)) if ass else _plain(c())
                except Exception as e:
                    val = "raised " + type(e).__name__
                ev.append([[[kk, _plain(vv)] for kk, vv in ass.items()], val])
        o["evals"][k] = ev
    for k, a in dcop.agents.items():
        o["agents"].append([k, dict(name=a.name, default_route=a.default_route, routes=list(a.routes.items()),
                                    default_hosting=a.default_hosting_cost,
                                    hosting=list(a.hosting_costs.items()),
                                    attrs=list(a.extra_attr().items()))])
        o["agent_probes"][k] = dict(
            capacity=a.extra_attr().get("capacity"),
            routes=[[p, a.route(p)] for p in probe_agents],
            hosting=[[p, a.hosting_cost(p)] for p in probe_comps])
    return o


def _top_blocks(text):
    """split the YAML text into its top-level key blocks (lines starting in column 0)"""
    blocks, cur = [], []
    for line in text.splitlines(keepends=True):
        if line[:1] not in (" ", "-", "\n", "") and cur and any(l.strip() for l in cur):
            blocks.append("".join(cur))
            cur = []
        cur.append(line)
    if cur:
        blocks.append("".join(cur))
    return blocks


def _probes(d):
    ags = [a["name"] for a in d["agents"]] + ["zz", "other"]
    comps = [v["name"] for v in d["variables"]] + [c["name"] for c in d["constraints"]] + ["cx"]
    return ags, comps


def run_impl(c):
    import random
    import yaml as real_yaml
    import pydcop.dcop.yamldcop as Y
    d = c["dcop"]
    probe_agents, probe_comps = _probes(d)
    proxy = _YamlProxy(real_yaml)
    old = Y.yaml
    Y.yaml = proxy
    tmp = None
    try:
        if c["kind"] == "load":
            text = real_yaml.dump(c["tree"], default_flow_style=False, sort_keys=False)
            try:
                l = Y.load_dcop(text)
                res = _obs_loaded(l, probe_agents, probe_comps)
            except Exception as e:
                res = _err(e)
            return dict(loaded_trees=proxy.loaded, result=res, text_ok=(proxy.loaded[:1] == [c["tree"]]))
        dcop = _build_dcop(d)
        registered_obs = [dom.name for dom in dcop.domains.values()]
        try:
            text = Y.dcop_yaml(dcop)
        except Exception as e:
            return dict(dump=_err(e), registered_obs=registered_obs)
        merged = {}
        for t in proxy.dumped:
            merged.update(t)
        out = dict(dump=dict(tree=merged), how=c["how"], registered_obs=registered_obs)
        try:
            out["text_ok"] = (real_yaml.load(text, Loader=real_yaml.FullLoader) == merged)
        except Exception as e:
            out["text_ok"] = "yaml.load raised " + type(e).__name__
        if c["how"] == "string":
            files_text = [text]
            try:
                res = _obs_loaded(Y.load_dcop(text), probe_agents, probe_comps)
            except Exception as e:
                res = _err(e)
        else:
            blocks = _top_blocks(text)
            rr = random.Random(c["cutseed"])
            nf = 1 if c["how"] == "strpath" else min(c["nfiles"], len(blocks))
            cuts = sorted(rr.sample(range(1, len(blocks)), nf - 1)) if nf > 1 else []
            files_text = ["".join(blocks[i:j]) for i, j in zip([0] + cuts, cuts + [len(blocks)])]
            if c.get("override_agents"):
                files_text.append(Y.yaml_agents([_build_agent(a) for a in c["override_agents"]]))
            files_text = [t for t in files_text if t.strip()]
            os.makedirs(WORK, exist_ok=True)
            tmp = tempfile.mkdtemp(prefix="c14-", dir=WORK)
            paths = [os.path.join(tmp, "part%d.yaml" % i) for i in range(len(files_text))]
            if c.get("previous") and paths:
                # second use of the same paths in one process: first store and load another DCOP
                try:
                    ptext = Y.dcop_yaml(_build_dcop(c["previous"]))
                except Exception:
                    ptext = "name: previous\nobjective: min\n"
                for i, p in enumerate(paths):
                    with open(p, "w", encoding="utf-8") as f:
                        f.write(ptext if i == 0 else "")
                try:
                    Y.load_dcop_from_file(paths[0] if c["how"] == "strpath" else paths)
                except Exception:
                    pass
            for p, t in zip(paths, files_text):
                with open(p, "w", encoding="utf-8") as f:
                    f.write(t)
            try:
                arg = paths[0] if c["how"] == "strpath" else paths
                res = _obs_loaded(Y.load_dcop_from_file(arg), probe_agents, probe_comps)
            except Exception as e:
                res = _err(e)
        out["files"] = [real_yaml.load(t, Loader=real_yaml.FullLoader) for t in files_text]
        out["result"] = res
        return out
    finally:
        Y.yaml = old
        if tmp:
            shutil.rmtree(tmp, ignore_errors=True)


# ----------------------------------------------------------------------------- oracle
def _clean_token(s):
    return s != "" and not any(ch.isspace() or ch == "|" for ch in s)


def _same_str_scope(d):
    """a table constraint whose scope has a domain with two values of equal str() (1 and "1")"""
    doms = {x["name"]: x for x in d["domains"]}
    vars_ = {v["name"]: v for v in d["variables"]}
    for c in d["constraints"]:
        if c["kind"] == "int":
            continue
        for n in c["vars"]:
            strs = [str(v) for v in doms[vars_[n]["domain"]]["values"]]
            if len(set(strs)) != len(strs):
                return True
    return False


def _expressible(d, allow_same_str=False):
    """the DCOP can be written in the YAML format without loss (Python twin of Coq's guards)"""
    doms = {x["name"]: x for x in d["domains"]}
    if sorted(d["registered"]) != sorted(doms):
        return False
    for x in d["domains"]:
        if len(x["values"]) == 1 and isinstance(x["values"][0], str) and ".." in x["values"][0]:
            return False
    vars_ = {v["name"]: v for v in d["variables"]}
    for c in d["constraints"]:
        if c["kind"] == "int":
            continue
        if not c["vars"]:
            return False
        for n in c["vars"]:
            vals = doms[vars_[n]["domain"]]["values"]
            if not vals or not all(_clean_token(str(v)) for v in vals):
                return False
    if _same_str_scope(d) and not allow_same_str:
        return False
    names = [a["name"] for a in d["agents"]]
    if "default" in names or len(set(names)) != len(names):
        return False
    if len(set(a["default_route"] for a in d["agents"])) > 1:
        return False
    tables = {a["name"]: dict((b, c) for b, c in a["routes"]) for a in d["agents"]}
    for a, tb in tables.items():
        for b, c in tb.items():
            if b not in tables or tables[b].get(a) != c:
                return False
    return True


def _expected_evals(d, c):
    doms = {x["name"]: x for x in d["domains"]}
    vars_ = {v["name"]: v for v in d["variables"]}
    vs = c["vars"]
    vals = [doms[vars_[n]["domain"]]["values"] for n in vs]
    exp = {}
    for k, combo in enumerate(itertools.product(*vals)):
        ass = dict(zip(vs, combo))
        if c["kind"] == "int":
            v = eval(c["expr"], {"__builtins__": {"abs": abs, "min": min, "max": max}}, dict(ass))
        else:
            v = c["table"][k]     # itertools.product order == row-major order of the table
        exp[frozenset(ass.items())] = v
    return exp


def _equivalent(d, res):
    """None if the loaded DCOP (observation res) is equivalent to description d"""
    if "error" in res:
        return "loading raised %s" % res["error"]
    doms = {x["name"]: x for x in d["domains"]}
    got = {k: v for k, v in res["domains"]}
    if set(got) != set(d["registered"]):
        return "domains %r, expected %r" % (sorted(got), sorted(d["registered"]))
    for n in d["registered"]:
        g = got[n]
        if g["name"] != n or g["type"] != doms[n]["type"] or g["values"] != doms[n]["values"] \
                or [type(x) for x in g["values"]] != [type(x) for x in doms[n]["values"]]:
            return "domain %s loaded as %r, expected %r" % (n, g, doms[n])
    gv = {k: v for k, v in res["variables"]}
    if set(gv) != set(v["name"] for v in d["variables"]):
        return "variables %r" % sorted(gv)
    for v in d["variables"]:
        g = gv[v["name"]]
        if g["name"] != v["name"] or g["domain"]["name"] != v["domain"] \
                or g["domain"]["values"] != doms[v["domain"]]["values"] or g["cls"] != "Variable":
            return "variable %s loaded as %r" % (v["name"], g)
        if g["init"] != v["init"] or type(g["init"]) != type(v["init"]):
            return "variable %s: initial value %r, expected %r" % (v["name"], g["init"], v["init"])
    gc = {k: v for k, v in res["constraints"]}
    if set(gc) != set(c["name"] for c in d["constraints"]):
        return "constraints %r" % sorted(gc)
    for c in d["constraints"]:
        g = gc[c["name"]]
        if g["rname"] != c["name"]:
            return "constraint %s is named %s" % (c["name"], g["rname"])
        if sorted(v["name"] for v in g["dims"]) != sorted(c["vars"]):
            return "constraint %s has scope %r, expected %r" % (c["name"], [v["name"] for v in g["dims"]], c["vars"])
        exp = _expected_evals(d, c)
        seen = {}
        for ass, val in res["evals"][c["name"]]:
            seen[frozenset((k, v) for k, v in ass)] = val
        if set(seen) != set(exp):
            return "constraint %s: assignments differ" % c["name"]
        for k in exp:
            if seen[k] != exp[k] or isinstance(seen[k], str):
                return "constraint %s on %r = %r, expected %r" % (c["name"], sorted(k), seen[k], exp[k])
    ga = {k: v for k, v in res["agents"]}
    if set(ga) != set(a["name"] for a in d["agents"]):
        return "agents %r" % sorted(ga)
    pa, pc = _probes(d)
    for a in d["agents"]:
        pr = res["agent_probes"][a["name"]]
        if ga[a["name"]]["name"] != a["name"]:
            return "agent %s is named %s" % (a["name"], ga[a["name"]]["name"])
        if pr["capacity"] != a["capacity"]:
            return "agent %s: capacity %r, expected %r" % (a["name"], pr["capacity"], a["capacity"])
        tb = dict((b, c) for b, c in a["routes"])
        for o, val in pr["routes"]:
            e = 0 if o == a["name"] else tb.get(o, a["default_route"])
            if val != e:
                return "agent %s: route(%s) = %r, expected %r" % (a["name"], o, val, e)
        hc = dict((k, v) for k, v in a["hosting"])
        for o, val in pr["hosting"]:
            e = hc.get(o, a["default_hosting"])
            if val != e:
                return "agent %s: hosting_cost(%s) = %r, expected %r" % (a["name"], o, val, e)
    return None


def oracle(c, o):
    d = c["dcop"]
    if c["kind"] == "load":
        if not o.get("text_ok"):
            return "PyYAML did not return the tree that was written (text layer)"
        if c["mutation"]:
            if "error" not in o["result"]:
                return "malformed tree (%s) was loaded without an error" % c["mutation"]
            return None
        return _equivalent(d, o["result"])
    if c.get("override_agents"):
        return None
    if not _expressible(d):
        if _expressible(d, allow_same_str=True) and "error" not in o["dump"]:
            # known finding C14-ext-same-str: the only obstacle is a table over 1 / "1"
            msg = _equivalent(d, o["result"])
            return (SAME_STR + msg) if msg else None
        return None
    if "error" in o["dump"]:
        return "dcop_yaml raised %s" % o["dump"]["error"]
    if o["text_ok"] is not True:
        return "yaml.load(dcop_yaml(d)) differs from the dumped tree: %r" % (o["text_ok"],)
    msg = _equivalent(d, o["result"])
    return ("round trip via %s: %s" % (c["how"], msg)) if msg else None


# ----------------------------------------------------------------------------- Gallina printer
class NotModelled(Exception):
    pass


def _val(v):
    if isinstance(v, bool) or not isinstance(v, (int, str)):
        raise NotModelled("value %r" % (v,))
    return "(VInt %s)" % q.z(v) if isinstance(v, int) else "(VStr %s)" % q.s(v)


def _int(v):
    if isinstance(v, bool) or not isinstance(v, int):
        raise NotModelled("cost %r" % (v,))
    return q.z(v)


def _str(v):
    if not isinstance(v, str):
        raise NotModelled("string expected: %r" % (v,))
    return q.s(v)


def _dom(d):
    return "(mkDom %s %s %s)" % (q.s(d["name"]), q.s(d["type"]), q.lst([_val(x) for x in d["values"]]))


def _var(v, doms=None):
    dom = doms[v["domain"]] if doms is not None else v["domain"]
    return "(mkVar %s %s %s)" % (q.s(v["name"]), _dom(dom), q.opt(v["init"], _val))


def _tuple(t):
    return q.lst([q.nat(i) for i in t])


def _szd(items):
    return q.lst([q.pair(_str(k), _int(v)) for k, v in items])


def _agent(f):
    return "(mkAgent %s %s %s %s %s %s)" % (q.s(f["name"]), _int(f["default_route"]), _szd(f["routes"]),
                                            _int(f["default_hosting"]), _szd(f["hosting"]), _szd(f["attrs"]))


def _dcop_term(d, registered=None):
    """registered = names of the domains found in dcop.domains of the object given to dcop_yaml
    (the model's input is that object); default: the generator's list"""
    if registered is None:
        registered = d["registered"]
    doms = {x["name"]: x for x in d["domains"]}
    vars_ = {v["name"]: v for v in d["variables"]}
    cons = []
    for c in d["constraints"]:
        if c["kind"] == "int":
            cons.append("(CInt %s %s)" % (q.s(c["name"]), q.s(c["expr"])))
        else:
            vs = [vars_[n] for n in c["vars"]]
            shape = [len(doms[v["domain"]]["values"]) for v in vs]
            tuples = list(itertools.product(*[range(k) for k in shape]))
            cons.append("(CExt %s %s %s)" % (
                q.s(c["name"]), q.lst([_var(v, doms) for v in vs]),
                q.lst([q.pair(_tuple(t), q.z(x)) for t, x in zip(tuples, c["table"])])))
    ags = []
    for a in d["agents"]:
        attrs = []
        if a["capacity"] is not None:
            attrs.append(("capacity", a["capacity"]))
        if a.get("foo") is not None:
            attrs.append(("foo", a["foo"]))
        ags.append(_agent(dict(name=a["name"], default_route=a["default_route"], routes=a["routes"],
                               default_hosting=a["default_hosting"], hosting=a["hosting"], attrs=attrs)))
    return "(mkDcop %s %s %s %s %s %s)" % (
        q.s(d["name"]), q.s(d["objective"]), q.lst([_dom(doms[n]) for n in registered]),
        q.lst([_var(v, doms) for v in d["variables"]]), q.lst(cons), q.lst(ags))


def _items(x, what):
    if not isinstance(x, dict):
        raise NotModelled("%s is not a mapping" % what)
    for k in x:
        if not isinstance(k, str):
            raise NotModelled("%s key %r" % (what, k))
    return x.items()


def _sec_domains(x):
    out = []
    for n, e in _items(x, "domains"):
        if not isinstance(e, dict) or "values" not in e or not isinstance(e["values"], list):
            raise NotModelled("domain entry")
        out.append(q.pair(q.s(n), "(mkYDom %s %s)" % (q.lst([_val(v) for v in e["values"]]),
                                                      q.opt(e.get("type") if "type" in e else None, _str))))
    return q.lst(out)


def _sec_variables(x):
    out = []
    for n, e in _items(x, "variables"):
        if not isinstance(e, dict) or set(e) - {"domain", "initial_value"}:
            raise NotModelled("variable entry")
        out.append(q.pair(q.s(n), "(mkYVar %s %s)" % (q.opt(e.get("domain"), _str),
                                                      q.opt(e.get("initial_value"), _val))))
    return q.lst(out)


def _sec_constraints(x):
    out = []
    for n, e in _items(x, "constraints"):
        if not isinstance(e, dict) or set(e) - {"type", "function", "variables", "values", "default"}:
            raise NotModelled("constraint entry")
        vs = e.get("variables")
        if vs is None:
            vterm = "None"
        elif isinstance(vs, list):
            vterm = "(Some (YVList %s))" % q.lst([_str(s) for s in vs])
        else:
            vterm = "(Some (YVOne %s))" % _str(vs)
        vals = e.get("values")
        if vals is None:
            valterm = "None"
        else:
            if not isinstance(vals, dict):
                raise NotModelled("values")
            valterm = "(Some %s)" % q.lst([
                q.pair(_int(k), "(AStr %s)" % q.s(v) if isinstance(v, str) else "(AVal %s)" % _val(v))
                for k, v in vals.items()])
        out.append(q.pair(q.s(n), "(mkYCons %s %s %s %s %s)" % (
            q.opt(e.get("type"), _str), q.opt(e.get("function"), _str), vterm, valterm,
            q.opt(e.get("default"), _int))))
    return q.lst(out)


def _sec_agents(x):
    if isinstance(x, list):
        return "(YAList %s)" % q.lst([_str(s) for s in x])
    out = []
    for n, e in _items(x, "agents"):
        if e is not None and not isinstance(e, dict):
            raise NotModelled("agent entry")
        out.append(q.pair(q.s(n), _szd((e or {}).items())))
    return "(YAMap %s)" % q.lst(out)


def _sec_routes(x):
    out = []
    for n, e in _items(x, "routes"):
        if isinstance(e, dict):
            out.append(q.pair(q.s(n), "(YRTable %s)" % _szd(e.items())))
        else:
            out.append(q.pair(q.s(n), "(YRScalar %s)" % _int(e)))
    return q.lst(out)


def _sec_hosting(x):
    out = []
    for n, e in _items(x, "hosting_costs"):
        if isinstance(e, dict):
            if set(e) - {"default", "computations"}:
                raise NotModelled("hosting entry")
            comps = e.get("computations")
            out.append(q.pair(q.s(n), "(YHTable %s %s)" % (
                q.opt(e.get("default"), _int),
                "None" if comps is None else "(Some %s)" % _szd(comps.items()))))
        else:
            out.append(q.pair(q.s(n), "(YHScalar %s)" % _int(e)))
    return q.lst(out)


_SECTIONS = [("name", "SecName", _str), ("objective", "SecObjective", _str),
             ("domains", "SecDomains", _sec_domains), ("variables", "SecVariables", _sec_variables),
             ("constraints", "SecConstraints", _sec_constraints), ("agents", "SecAgents", _sec_agents),
             ("routes", "SecRoutes", _sec_routes), ("hosting_costs", "SecHosting", _sec_hosting)]
_IGNORED_TOP = {"description"}


def _check_top(t):
    if not isinstance(t, dict):
        raise NotModelled("top level is not a mapping")
    extra = set(t) - {k for k, _, _ in _SECTIONS} - _IGNORED_TOP
    if extra:
        raise NotModelled("top-level keys %r" % sorted(extra))


def _tree_term(t):
    _check_top(t)
    parts = []
    for k, _, f in _SECTIONS:
        parts.append("(Some %s)" % f(t[k]) if k in t and (t[k] is not None or k in ("name", "objective")) else "None")
    return "(mkTree %s)" % " ".join(parts)


def _sections_term(t):
    _check_top(t)
    out = []
    for k in t:                      # document order
        for kk, ctor, f in _SECTIONS:
            if k == kk:
                out.append("(%s %s)" % (ctor, f(t[k])))
    return q.lst(out)


_ERR = {"ValueError": "EValue", "KeyError": "EKey", "TypeError": "EType", "AttributeError": "EAttr",
        "IndexError": "EIndex", "DcopInvalidFormatError": "EFormat"}


def _err_term(e):
    if e not in _ERR:
        raise NotModelled("exception " + e)
    return "(Err %s)" % _ERR[e]


def _loaded_term(res):
    if "error" in res:
        return _err_term(res["error"])
    doms = q.lst([q.pair(q.s(k), _dom(d)) for k, d in res["domains"]])
    vars_ = q.lst([q.pair(q.s(k), _var(v)) for k, v in res["variables"]])
    cons = []
    for k, c in res["constraints"]:
        if c["kind"] == "int":
            cons.append(q.pair(q.s(k), "(LInt %s)" % q.s(c["expr"])))
        else:
            cons.append(q.pair(q.s(k), "(LExt %s %s)" % (
                q.lst([_var(v) for v in c["dims"]]),
                q.lst([q.pair(_tuple(t), q.opt(x, _int)) for t, x in c["table"]]))))
    ags = q.lst([q.pair(q.s(k), _agent(a)) for k, a in res["agents"]])
    return "(Ok (mkLoaded %s %s %s %s %s %s))" % (q.s(res["name"]), q.s(res["objective"]), doms, vars_,
                                                  q.lst(cons), ags)


def coq_case(c, o):
    try:
        if c["kind"] == "load":
            if not o["loaded_trees"]:
                return None
            return "CLoad %s %s" % (_tree_term(o["loaded_trees"][0]), _loaded_term(o["result"]))
        d = _dcop_term(c["dcop"], o.get("registered_obs"))
        if "error" in o["dump"]:
            return "CRound %s %s [] (Err EValue)" % (d, _err_term(o["dump"]["error"]))
        if c["how"] == "strpath" and "error" in o["result"] and o["result"]["error"] not in _ERR:
            return None
        return "CRound %s (Ok %s) %s %s" % (d, _tree_term(o["dump"]["tree"]),
                                           q.lst([_sections_term(t) for t in o["files"]]),
                                           _loaded_term(o["result"]))
    except NotModelled:
        return None
    except ValueError:      # non-printable string for a Coq literal
        return None


# ----------------------------------------------------------------------------- bookkeeping
SAME_STR = "[table over values with equal str()] "


def classify(c, o, msg):
    if c["kind"] == "round" and msg.startswith(SAME_STR) and _same_str_scope(c["dcop"]) \
            and _expressible(c["dcop"], allow_same_str=True):
        return "C14-ext-same-str"
    return None


def nontrivial(c, o):
    d = c["dcop"]
    return bool(d["constraints"] or d["agents"])


def histogram(cases, obs):
    h = {}

    def inc(k):
        h[k] = h.get(k, 0) + 1
    for c, o in zip(cases, obs):
        if c["kind"] == "load":
            inc("load/" + (c["mutation"] or "valid"))
            r = o.get("result", {}) if isinstance(o, dict) else {}
        else:
            inc("round/" + c["how"] + ("+override" if c.get("override_agents") else "")
                + ("+previous" if c.get("previous") else ""))
            inc("round/built-by-" + c["dcop"].get("build", "dict"))
            inc("round/expressible" if _expressible(c["dcop"]) else "round/not-expressible")
            r = o.get("result", o.get("dump", {})) if isinstance(o, dict) else {}
        if isinstance(r, dict) and "error" in r:
            inc("raised/" + r["error"])
        for k in c["dcop"]["constraints"]:
            inc("constraint/" + k["kind"])
    return h


def shrink_candidates(c):
    import copy
    d = c["dcop"]
    for key in ("constraints", "agents"):
        for i in range(len(d[key])):
            c2 = copy.deepcopy(c)
            del c2["dcop"][key][i]
            if key == "agents":
                gone = d[key][i]["name"]
                for a in c2["dcop"]["agents"]:
                    a["routes"] = [r for r in a["routes"] if r[0] != gone]
            if c["kind"] == "round":
                yield c2
    if c["kind"] == "round":
        used = set(n for k in d["constraints"] for n in k["vars"])
        for i, v in enumerate(d["variables"]):
            if v["name"] not in used and len(d["variables"]) > 1:
                c2 = copy.deepcopy(c)
                del c2["dcop"]["variables"][i]
                for a in c2["dcop"]["agents"]:
                    a["hosting"] = [h for h in a["hosting"] if h[0] != v["name"]]
                if d.get("build") == "api":     # the API registers the remaining variables' domains
                    used = []
                    for w in c2["dcop"]["variables"]:
                        if w["domain"] not in used:
                            used.append(w["domain"])
                    c2["dcop"]["domains"] = [x for x in d["domains"] if x["name"] in used]
                    c2["dcop"]["domains"].sort(key=lambda x: used.index(x["name"]))
                    c2["dcop"]["registered"] = used
                yield c2
        if c.get("override_agents"):
            c2 = copy.deepcopy(c)
            c2.pop("override_agents")
            yield c2
        if c.get("previous"):
            c2 = copy.deepcopy(c)
            c2.pop("previous")
            yield c2
            c2 = copy.deepcopy(c)
            c2["previous"] = dict(c["previous"], constraints=[], agents=[])
            if c2 != c:
                yield c2
        if c["how"] != "string":
            c2 = copy.deepcopy(c)
            c2["how"] = "string"
            yield c2
