"""C13 -- solution cost accounting matches the DCOP definition."""
import itertools
import math
import os
import shutil
import tempfile

from harness import coqio as q

ID = "C13"
COQ_REQUIRE = ["ECost", "M_Dcop"]
COQ_CASE_TYPE = "M_Dcop.case"
COQ_CHECK = "M_Dcop.check_case"
OBLIGATIONS = [
    "solution_cost_spec", "solution_cost_incomplete", "solution_cost_size_mismatch",
    "solution_cost_ok_iff", "dcop_solution_cost_external", "dcop_solution_cost_spec",
    "solution_cost_hard_bounds", "solution_cost_soft_not_infinite",
    "assignment_cost_spec", "assignment_cost_defined_iff",
]
N_QUICK, N_THOROUGH = 450, 8000
RULE = ("seeded random DCOPs: 1-5 variables (plain, cost dict, cost function, cost expression) over an "
        "int domain of 2-3 values, 0-2 external variables, 0-5 constraints of arity 0-3 (matrix, "
        "python function, expression, function in an external source file) written with the same / "
        "re-created / cloned variable objects, matrices from lists or from a numpy buffer overwritten "
        "afterwards, a later-loaded source file redefining the same function names; total cost tables holding small ints, the finite "
        "'infinity' 10000, inf, and rarely -inf / nan; infinity in {inf, 10000, 0, -inf}; "
        "assignments complete / one variable missing / one extra key / one missing AND one extra / "
        "external variable given with another value / None for a variable outside every scope; "
        "called through DCOP.solution_cost (objective min or max), the module function solution_cost, and "
        "assignment_cost (with and without consider_variable_cost, values partly in kwargs, "
        "missing values); constraints / variables handed over as list, tuple, generator, filter "
        "object, iterator, dict values view or set; non-trivial = at least one constraint and two cost terms; distinct = "
        "distinct case JSON")
MODELLED = ("solution_cost (completeness test, constraint terms then variable-cost terms, hard/soft "
            "split), DCOP.solution_cost (external values override and count as variables) and "
            "assignment_cost (variable cost once per scope variable, kwargs fallback, KeyError) are "
            "modelled; every clause of C13 is a theorem about the model (Prop_C13.v). The value a "
            "relation returns for given scope values is an input of the model (a table); relation "
            "evaluation itself is C11/C12. The exception type raised when a relation is called with "
            "a partial assignment is not modelled (only reachable when a scope variable is not a "
            "variable of the DCOP).")
META = dict(
    level_text=("Proof (Coq) that in the model of dcop.py/relations.py: for every DCOP, external "
                "values, infinity value and complete assignment, solution_cost returns (number of "
                "constraint and variable-cost terms equal to infinity, sum of all other terms); an "
                "assignment that misses a variable, or whose size differs from the number of "
                "variables, is rejected with ValueError; external variable values override the "
                "assignment; assignment_cost is the sum of the constraint values plus, when "
                "requested, the cost of each distinct scope variable, and is defined exactly when "
                "the needed values are present -- for all sizes. The model is tied to the code by a "
                "differential run on generated DCOPs on every check."),
    level_note=("Trusted: Coq kernel/vm_compute, the hand-written model M_Dcop.v (costs as extended "
                "integers ECost.v: generated costs are ints/inf/nan so float addition is exact), the "
                "harness. Relation values are table inputs of the model."),
    technique="Coq proof over executable Gallina model + differential correspondence run",
    design_ref="DESIGN.md §5 C13",
)

VARS = ["x", "y", "z", "w", "u"]
EXTS = ["e1", "e2"]
EXTRA = ["q", "r"]
RELS = ["c0", "c1", "c2", "c3", "c4"]
NID = {n: i for i, n in enumerate(VARS + EXTS + EXTRA + RELS)}
DOMAINS = [[0, 1], [0, 1, 2], [1, 5, 7]]
INFS = ["inf", "inf", "inf", 10000, 10000, 0, "-inf"]


ITERABLES = ["list", "tuple", "generator", "filter", "iterator", "dict_values", "set"]
SIZED = ["list", "tuple", "dict_values", "set"]


def _as(kind, objs):
    """the same objects as another kind of iterable"""
    objs = list(objs)
    if kind == "tuple":
        return tuple(objs)
    if kind == "generator":
        return (o for o in objs)
    if kind == "filter":
        return filter(lambda o: True, objs)
    if kind == "iterator":
        return iter(objs)
    if kind == "dict_values":
        return {i: o for i, o in enumerate(objs)}.values()
    if kind == "set":
        try:
            st = set(objs)
        except TypeError:
            return objs
        return st if len(st) == len(objs) else objs
    return objs


def _cost(rng):
    r = rng.random()
    if r < 0.68:
        return rng.randint(0, 9)
    if r < 0.80:
        return "inf"
    if r < 0.90:
        return 10000
    if r < 0.94:
        return rng.randint(-20, -1)
    if r < 0.97:
        return "-inf"
    return "nan"


def gen(rng, n, tier):
    cases = []
    for i in range(n):
        mode = rng.choice(["dcop", "dcop", "func", "acost"])
        dom = rng.choice(DOMAINS)
        vs = rng.sample(VARS, rng.randint(1, 5))
        variables = []
        for v in vs:
            kind = rng.choice(["plain", "plain", "dict", "func", "expr"] if mode != "acost"
                              else ["plain", "dict", "dict", "func", "expr"])
            if kind == "plain":
                costs = []
            elif kind == "dict":
                costs = [[d, _cost(rng)] for d in dom if rng.random() < 0.7]
            else:
                costs = [[d, _cost(rng)] for d in dom]
            variables.append(dict(name=v, kind=kind, costs=costs))
        exts = []
        if mode == "dcop":
            for e in rng.sample(EXTS, rng.choice([0, 0, 1, 1, 2])):
                exts.append(dict(name=e, value=rng.choice(dom)))
        allv = vs + [e["name"] for e in exts]
        rels = []
        for cn in rng.sample(RELS, rng.randint(0, 5) if mode != "acost" else rng.randint(1, 5)):
            ar = min(rng.choice([0, 1, 1, 2, 2, 2, 3]), len(allv))
            scope = rng.sample(allv, ar)
            # "source": intention constraint `source.f(x, y)` whose function lives in an external file
            kind = rng.choice(["matrix", "matrix", "func", "expr", "source"]) if ar else "matrix"
            table = [[list(t), _cost(rng)] for t in itertools.product(dom, repeat=ar)]
            rels.append(dict(name=cn, scope=scope, kind=kind, table=table))
        scoped = set(x for r in rels for x in r["scope"])
        asg = [[v, rng.choice(dom)] for v in vs]
        rng.shuffle(asg)
        c = dict(mode=mode, dom=dom, vars=variables, exts=exts, rels=rels, infinity=rng.choice(INFS))
        # how constraints refer to their variables (same object / equal object created again / clone()),
        # and where a matrix constraint's numbers come from (list, or a numpy buffer that the caller
        # overwrites after the constraint was built)
        c["inst"] = rng.choice(["shared", "fresh", "fresh", "clone"])
        c["matrix_buf"] = rng.choice(["list", "refilled", "refilled"])
        # the signatures take iterables: hand the constraints (and the variables, which must be
        # sized and re-iterable) over as different kinds of iterable, one-shot ones included
        if mode != "dcop":
            c["rels_as"] = rng.choice(ITERABLES)
        if mode == "func":
            c["vars_as"] = rng.choice(SIZED)
        if mode == "dcop":
            # the accounting must not depend on the DCOP's objective
            c["objective"] = rng.choice(["min", "max"])
        if mode in ("dcop", "func"):
            r = rng.random()
            shape = "complete"
            if exts and rng.random() < 0.25:
                # the caller also gives a (different) value for an external variable
                e = rng.choice(exts)
                asg.insert(rng.randint(0, len(asg)), [e["name"], rng.choice(dom)]); shape = "ext-given"
            elif r < 0.12 and asg:
                del asg[rng.randrange(len(asg))]; shape = "missing"
            elif r < 0.22:
                asg.insert(rng.randint(0, len(asg)), [rng.choice(EXTRA), rng.choice(dom)]); shape = "extra"
            elif r < 0.36 and asg:
                del asg[rng.randrange(len(asg))]
                asg.insert(rng.randint(0, len(asg)), [rng.choice(EXTRA), rng.choice(dom)]); shape = "missing+extra"
            elif r < 0.44 and exts:
                e = rng.choice(exts)
                asg.insert(rng.randint(0, len(asg)), [e["name"], rng.choice(dom)]); shape = "ext-given"
            elif r < 0.52:
                free = [a for a in asg if a[0] not in scoped]
                pick = rng.choice(free) if free else (rng.choice(asg) if rng.random() < 0.3 else None)
                if pick is not None:
                    pick[1] = None; shape = "none-value"
            elif r < 0.56 and mode == "func" and len(variables) > 1:
                # the module function called with a sub-list of the variables
                drop = rng.choice(vs)
                c["vars"] = [v for v in variables if v["name"] != drop]
                c["hidden"] = [v for v in variables if v["name"] == drop]
                asg = [a for a in asg if a[0] != drop]; shape = "subset"
            c["shape"] = shape
            c["asg"] = asg
        else:
            kw = []
            r = rng.random()
            shape = "complete"
            if r < 0.25 and asg:
                a = asg.pop(rng.randrange(len(asg))); kw.append([a[0], rng.choice(dom)]); shape = "kwargs"
            elif r < 0.40 and asg:
                asg.pop(rng.randrange(len(asg))); shape = "missing"
            elif r < 0.50 and asg:
                kw.append([rng.choice(asg)[0], rng.choice(dom)]); shape = "kwargs-shadowed"
            elif r < 0.60:
                asg.append([rng.choice(EXTRA), rng.choice(dom)]); shape = "extra"
            c.update(shape=shape, asg=asg, kwargs=kw, consider=rng.random() < 0.6)
        cases.append(c)
    return cases


# ------------------------------------------------------------------ values
def _f(c):
    """case cost -> python number"""
    return {"inf": math.inf, "-inf": -math.inf, "nan": math.nan}.get(c, c) if isinstance(c, str) else c


def _canon(x):
    """python / numpy number -> case cost (exact)"""
    if hasattr(x, "item") and not isinstance(x, (int, float)):
        x = x.item()
    if isinstance(x, bool):
        raise ValueError("bool cost")
    if isinstance(x, int):
        return x
    if isinstance(x, float):
        if math.isnan(x):
            return "nan"
        if math.isinf(x):
            return "inf" if x > 0 else "-inf"
        if x != int(x):
            raise ValueError("non integral cost %r" % x)
        return int(x)
    raise ValueError("cost of type %s" % type(x).__name__)


def _lit(c):
    return {"inf": "1e999", "-inf": "-1e999", "nan": "(1e999-1e999)"}.get(c, repr(c)) if isinstance(c, str) else repr(c)


# ------------------------------------------------------------------ implementation driver
def _build(case):
    import numpy as np
    from pydcop.dcop.objects import (Variable, Domain, VariableWithCostDict, VariableWithCostFunc,
                                     ExternalVariable)
    from pydcop.dcop.relations import NAryMatrixRelation, NAryFunctionRelation, constraint_from_str
    from pydcop.utils.expressionfunction import ExpressionFunction
    from pydcop.dcop.relations import constraint_from_external_definition
    dom = case["dom"]
    d = Domain("d", "", list(dom))

    def make_var(v):
        tbl = {k: _f(c) for k, c in v["costs"]}
        if v["kind"] == "plain":
            return Variable(v["name"], d)
        if v["kind"] == "dict":
            return VariableWithCostDict(v["name"], d, dict(tbl))
        if v["kind"] == "func":
            return VariableWithCostFunc(v["name"], d, (lambda t: (lambda val: t[val]))(tbl))
        expr = "{%s}[%s]" % (", ".join("%r: %s" % (k, _lit(c)) for k, c in v["costs"]), v["name"])
        return VariableWithCostFunc(v["name"], d, ExpressionFunction(expr))
    objs = {}
    defs = {}
    for v in case["vars"] + case.get("hidden", []):
        objs[v["name"]] = make_var(v)
        defs[v["name"]] = v
    exts = {}
    for e in case["exts"]:
        exts[e["name"]] = ExternalVariable(e["name"], d, e["value"])
    pool = dict(objs); pool.update(exts)
    inst = case.get("inst", "shared")

    def use(n):
        """the variable object a constraint is written with"""
        if inst == "clone":
            return pool[n].clone()
        if inst == "fresh":
            if n in defs:
                return make_var(defs[n])
            return ExternalVariable(n, d, pool[n].value)
        return pool[n]
    rels = []
    sources = []       # (function name, arity) defined in the external source file of this case
    for r in case["rels"]:
        svars = [use(n) for n in r["scope"]]
        tbl = {tuple(k): _f(c) for k, c in r["table"]}
        if r["kind"] == "matrix":
            m = np.zeros([len(dom)] * len(svars), dtype=float)
            for k, c in tbl.items():
                m[tuple(dom.index(x) for x in k)] = c
            buf = case.get("matrix_buf", "keep")
            o = NAryMatrixRelation(svars, m.tolist() if buf == "list" else m, name=r["name"])
            if buf == "refilled":
                m[...] = 4242.0          # the caller reuses its scratch buffer
        elif r["kind"] == "source":
            tmpdir = case["__tmp__"]
            path = os.path.join(tmpdir, "defs_%s.py" % r["name"])
            with open(path, "w") as f:
                f.write("def f_%s(%s):\n    return {%s}[(%s,)]\n" % (
                    r["name"], ", ".join(r["scope"]),
                    ", ".join("%r: %s" % (tuple(k), _lit(c)) for k, c in r["table"]),
                    ", ".join(r["scope"])))
            o = constraint_from_external_definition(
                r["name"], path, "source.f_%s(%s)" % (r["name"], ", ".join(r["scope"])), svars)
            sources.append((r["name"], list(r["scope"])))
        elif r["kind"] == "func":
            o = NAryFunctionRelation((lambda t, sc: (lambda **kw: t[tuple(kw[n] for n in sc)]))(tbl, list(r["scope"])),
                                     svars, name=r["name"], f_kwargs=True)
        else:
            expr = "{%s}[(%s,)]" % (", ".join("%r: %s" % (tuple(k), _lit(c)) for k, c in r["table"]),
                                    ", ".join(r["scope"]))
            o = constraint_from_str(r["name"], expr, svars)
        rels.append(o)
    # another problem loaded later in the same process: its source file defines functions of the
    # same names with other costs; it must not change the constraints built above
    for name, scope in sources:
        path = os.path.join(case["__tmp__"], "other_%s.py" % name)
        with open(path, "w") as f:
            f.write("def f_%s(%s):\n    return 777\n" % (name, ", ".join(scope)))
        other = ExpressionFunction("source.f_%s(%s)" % (name, ", ".join(scope)), path)
        if other(**{n: dom[0] for n in scope}) != 777:
            raise AssertionError("decoy source function not loaded")
    return objs, exts, rels


def _err(e):
    if isinstance(e, ValueError) and str(e).startswith("Cannot compute solution cost"):
        return dict(error="incomplete")
    return dict(error=type(e).__name__, msg=str(e)[:160])


def run_impl(case):
    case = dict(case)
    tmp = None
    if any(r["kind"] == "source" for r in case["rels"]):
        os.makedirs("/verif/.work", exist_ok=True)
        tmp = tempfile.mkdtemp(prefix="c13src_", dir="/verif/.work")
        case["__tmp__"] = tmp
    try:
        return _run_impl(case)
    finally:
        if tmp:
            shutil.rmtree(tmp, ignore_errors=True)


def _run_impl(case):
    from pydcop.dcop.dcop import DCOP, solution_cost
    from pydcop.dcop.relations import assignment_cost
    objs, exts, rels = _build(case)
    dims = [[v.name for v in r.dimensions] for r in rels]
    asg = {k: v for k, v in case["asg"]}
    inf = _f(case["infinity"])
    if case["mode"] == "acost":
        try:
            c = assignment_cost(asg, _as(case.get("rels_as", "list"), rels), case["consider"],
                                **{k: v for k, v in case["kwargs"]})
        except Exception as e:
            return dict(_err(e), dims=dims)
        return dict(cost=_canon(c), dims=dims)
    try:
        if case["mode"] == "dcop":
            dcop = DCOP("t", case.get("objective", "min"))
            dcop.variables = dict(objs)
            dcop.external_variables = dict(exts)
            dcop._constraints = {r.name: r for r in rels}
            before = dict(asg)
            res = dcop.solution_cost(asg, inf)
            if asg != before:
                return dict(error="assignment-mutated", dims=dims)
        else:
            res = solution_cost(_as(case.get("rels_as", "list"), rels),
                                _as(case.get("vars_as", "list"), [objs[v["name"]] for v in case["vars"]]),
                                asg, inf)
    except Exception as e:
        return dict(_err(e), dims=dims)
    hard, soft = res
    if isinstance(hard, bool) or not isinstance(hard, int):
        return dict(error="hard-not-int:%r" % (hard,), dims=dims)
    return dict(hard=hard, soft=_canon(soft), dims=dims)


# ------------------------------------------------------------------ independent oracle
def _same(a, b):
    return a == b       # canonical costs: ints or 'inf' / '-inf' / 'nan'


def _total(terms):
    """exact sum of python numbers (ints exact; inf/nan by float rules)"""
    ints = sum(t for t in terms if isinstance(t, int))
    rest = [t for t in terms if not isinstance(t, int)]
    s = ints
    for t in rest:
        s = s + t
    return s


def _var_cost(v, val):
    tbl = {k: _f(c) for k, c in v["costs"]}
    return tbl.get(val, 0)


def _rel_value(r, full):
    tbl = {tuple(k): _f(c) for k, c in r["table"]}
    return tbl[tuple(full[n] for n in r["scope"])]


def oracle(case, o):
    if "error" in o and o["error"] in ("assignment-mutated",) or str(o.get("error", "")).startswith("hard-not-int"):
        return "solution_cost misbehaved: %s" % o["error"]
    asg = {k: v for k, v in case["asg"]}
    if case["mode"] == "acost":
        kw = {k: v for k, v in case["kwargs"]}
        need = [n for r in case["rels"] for n in r["scope"]]
        lacking = [n for n in need if n not in asg and n not in kw]
        if lacking:
            return None if "error" in o else "assignment_cost returned %r although %r has no value" % (o, lacking)
        only_kw = [n for n in need if n not in asg]
        full = dict(kw); full.update(asg)
        terms = [_rel_value(r, full) for r in case["rels"]]
        if case["consider"]:
            byname = {v["name"]: v for v in case["vars"]}
            for n in dict.fromkeys(need):
                terms.append(_var_cost(byname[n], full[n]))
        exp = _canon(_total(terms))
        if "error" in o:
            if case["consider"] and only_kw and o["error"] == "KeyError":
                return None     # kwargs are not consulted for the variable's own cost (documented limit)
            return "assignment_cost raised %s on a complete assignment" % o["error"]
        if not _same(o["cost"], exp):
            return "assignment_cost = %r, sum of constraint values%s = %r" % (
                o["cost"], " + variable costs" if case["consider"] else "", exp)
        return None
    # ---- solution cost
    names = [v["name"] for v in case["vars"]] + [e["name"] for e in case["exts"]]
    full = dict(asg)
    for e in case["exts"]:
        full[e["name"]] = e["value"]
    missing = [n for n in names if n not in full]
    extra = [n for n in full if n not in names]
    if missing:
        if o.get("error") == "incomplete":
            return None
        if "error" in o and not extra:
            return "incomplete assignment (no value for %r) raised %s, not the ValueError" % (missing, o["error"])
        return "incomplete assignment (no value for %r) was not rejected with ValueError: %r" % (
            missing, {k: o[k] for k in o if k != "dims"})
    if extra:
        if o.get("error") == "incomplete":
            return None         # the code also refuses assignments with unknown extra keys
    if any(v is None for v in full.values()):
        return None             # None values: behaviour pinned by the model only
    uncovered = [n for r in case["rels"] for n in r["scope"] if n not in full]
    if uncovered:
        return None if "error" in o else "result although scope variable %r has no value" % uncovered
    inf = _f(case["infinity"])
    terms = [_rel_value(r, full) for r in case["rels"]]
    byname = {v["name"]: v for v in case["vars"]}
    for n in names:
        terms.append(_var_cost(byname[n], full[n]) if n in byname else 0)
    hard = sum(1 for t in terms if t == inf)
    soft = _canon(_total([t for t in terms if not (t == inf)]))
    if "error" in o:
        return "solution_cost raised %s on a complete assignment" % o["error"]
    if o["hard"] != hard or not _same(o["soft"], soft):
        return "solution_cost = (%r, %r); %d terms equal infinity %r and the others sum to %r" % (
            o["hard"], o["soft"], hard, case["infinity"], soft)
    return None


# ------------------------------------------------------------------ Gallina printer
def _ec(c):
    if isinstance(c, str):
        return {"inf": "PInf", "-inf": "NInf", "nan": "NaN"}[c]
    return "(Fin %s)" % q.z(c)


def _val(v):
    return "VNone" if v is None else "(VInt %s)" % q.z(v)


def _asg(pairs):
    return q.lst([q.pair(q.z(NID[k]), _val(v)) for k, v in pairs])


def _rels(case, o):
    out = []
    for r, dims in zip(case["rels"], o["dims"]):
        if sorted(dims) != sorted(r["scope"]):
            raise ValueError("relation %s has dimensions %r, generated scope %r" % (r["name"], dims, r["scope"]))
        perm = [r["scope"].index(n) for n in dims]      # scope order as the relation object has it
        tbl = q.lst([q.pair(q.lst([_val(k[j]) for j in perm]), _ec(c)) for k, c in r["table"]])
        out.append("(mk_rel %s %s %s)" % (q.z(NID[r["name"]]), q.zlist([NID[n] for n in dims]), tbl))
    return q.lst(out)


def _vars(case):
    return q.lst(["(mk_var %s %s)" % (q.z(NID[v["name"]]),
                                       q.lst([q.pair(_val(k), _ec(c)) for k, c in v["costs"]]))
                  for v in case["vars"]])


def coq_case(case, o):
    if "error" in o and (o["error"] == "assignment-mutated" or o["error"].startswith("hard-not-int")):
        raise ValueError(o["error"])
    if case["mode"] == "acost":
        obs = "OKeyError" if o.get("error") == "KeyError" else ("(OACost %s)" % _ec(o["cost"]) if "cost" in o else "OOtherError")
        return "CACost %s %s %s %s %s %s" % (_rels(case, o), _vars(case), q.b(case["consider"]),
                                             _asg(case["asg"]), _asg(case["kwargs"]), obs)
    if "error" in o:
        obs = "OIncomplete" if o["error"] == "incomplete" else "OOtherError"
    else:
        obs = "(OCost %s %s)" % (q.z(o["hard"]), _ec(o["soft"]))
    exts = q.lst(["(mkExt %s %s)" % (q.z(NID[e["name"]]), q.z(e["value"])) for e in case["exts"]])
    return "CSol %s %s %s %s %s %s" % (_rels(case, o), _vars(case), exts, _asg(case["asg"]),
                                       _ec(case["infinity"]), obs)


def nontrivial(case, o):
    nterms = len(case["rels"]) + sum(1 for v in case["vars"] if v["costs"])
    return len(case["rels"]) >= 1 and nterms >= 2


def histogram(cases, obs):
    h = {}
    for c, o in zip(cases, obs):
        for k in ("mode=" + c["mode"], "shape=" + c["shape"], "infinity=%s" % c["infinity"],
                  "objective=" + c.get("objective", "-"), "rels_as=" + c.get("rels_as", "-"),
                  "inst=" + c.get("inst", "shared"), "matrix_buf=" + c.get("matrix_buf", "keep"),
                  "outcome=" + (o.get("error", "ok") if isinstance(o, dict) else "?")):
            h[k] = h.get(k, 0) + 1
    return h


def classify(case, o, msg):
    return None


def shrink_candidates(c):
    for j in range(len(c["rels"])):
        d = dict(c); d["rels"] = c["rels"][:j] + c["rels"][j + 1:]; yield d
    for j, v in enumerate(c["vars"]):
        if v["costs"]:
            d = dict(c); d["vars"] = list(c["vars"]); d["vars"][j] = dict(v, kind="plain", costs=[]); yield d
    scoped = set(x for r in c["rels"] for x in r["scope"])
    for j, v in enumerate(c["vars"]):
        if v["name"] not in scoped and len(c["vars"]) > 1:
            d = dict(c); d["vars"] = c["vars"][:j] + c["vars"][j + 1:]
            d["asg"] = [a for a in c["asg"] if a[0] != v["name"]]; yield d
    for j, e in enumerate(c["exts"]):
        if e["name"] not in scoped:
            d = dict(c); d["exts"] = c["exts"][:j] + c["exts"][j + 1:]; yield d
