"""C19 -- messages held across start or pause keep their original order."""
import logging

from harness import coqio as q

ID = "C19"
COQ_REQUIRE = ["M_Messaging", "M_Lifecycle"]
COQ_CASE_TYPE = "M_Lifecycle.case"
COQ_CHECK = "M_Lifecycle.check_case"
OBLIGATIONS = ["held_posts_sent_in_order", "held_handled_exactly_once", "held_handled_once_in_order",
               "held_handled_all_when_quiescent", "held_order_refuted", "held_priority_refuted"]
N_QUICK, N_THOROUGH = 400, 6000
RULE = ("seeded random histories of Recv / Next / Start / Stop / Pause / Resume / Post (0-40 ops, 1-3 "
        "senders, 1-3 targets drawn from plain, underscore-prefixed (technical), all-digit names and, rarely, the "
        "computation itself; 63% default message type, 12% one other type 10/15/19/25 for all messages, "
        "25% mixed types 10/15/19/20/25 and explicit post priorities) on one real MessagePassingComputation hosted on a real (unthreaded) "
        "Agent + Messaging; 70% of the histories end with Start, Resume and enough Next to drain; every 5th "
        "case is a fault history: the message sender raises on chosen posts (inside a resume flush and "
        "outside) within pause/post/resume cycles followed by further resumes; every 10th case has targets the "
        "agent's discovery learns about only after the resume (>= 3 held messages, then a registration); "
        "every 10th case runs a SynchronousComputationMixin computation paused before/after its start; "
        "non-trivial = at least one message was buffered on reception or on posting; distinct = distinct "
        "op list")
MODELLED = ("start/stop/pause/on_message/post_msg and the agent queue are modelled (M_Lifecycle.v); theorems "
            "for all histories: posts are sent exactly once in posting order; every received message is "
            "in exactly one of handled/held/queued; when all messages have one type > 19 (the default 20) "
            "and no re-injection happens while re-injected messages still wait, handled++held++queued is "
            "the reception sequence (once, in order, before newer); each excluded case is refuted by a "
            "witness (two known findings). The theorems are about failure-free histories; a raising message "
            "sender is modelled (frun, fail set as input) and covered by oracle + correspondence only; the "
            "synchronous mixin's posts across a pause and the delivery order to late-registered targets are "
            "checked by the oracle only (ground truth computed from the case). Real "
            "threads are not involved (C18/C21).")
META = dict(
    level_text=("Proof (Coq) over all histories of receptions, posts, starts, stops, pauses and resumes of a "
                "model of MessagePassingComputation composed with the agent's priority queue: messages "
                "posted while paused are sent exactly once, in posting order, on resume; every received "
                "message is handled at most once and is never lost; when the messages have one type above 19 "
                "(the default 20) and no start/resume re-injects while earlier re-injected messages are "
                "still queued, the handled sequence followed by the held and queued messages is exactly the "
                "reception sequence. The two remaining cases (pause, pop, resume while re-injected messages "
                "wait; held messages of type <= 19, which are re-queued as type 19) violate the order in "
                "the real code: each is proved as a refutation witness and recorded as a known finding. The model is tied to computations.py / communication.py by a differential run on "
                "generated histories on every check."),
    level_note=("Trusted: Coq kernel/vm_compute, the hand-written model M_Lifecycle.v (+ the queue of "
                "M_Messaging.v), the harness driver. Handlers and on_start/on_pause hooks are the base "
                "class's (no posting from hooks); targets of posts are other computations."),
    technique="Coq proof over executable Gallina model + differential correspondence run",
    design_ref="DESIGN.md §5 C19",
)

ME = 0
# target ids -> computation names (opaque to the model): plain, technical (underscore prefix, the
# naming convention of _mgt_* / _discovery_* / _replication_*), all digits, and the computation itself
TARGETS = {1: "t1", 2: "t2", 11: "_mgt_a1", 12: "_discovery_x", 13: "_replication_a2", 14: "42", ME: "c0"}
NAME2ID = {v: k for k, v in TARGETS.items()}
FINDING = "C19-reinject-behind-queued"
FINDING_PRIO = "C19-held-requeued-as-19"


# ------------------------------------------------------------------ generator
def gen(rng, n, tier):
    cases = []
    for k in range(n):
        if k % 10 == 2:
            cases.append(_gen_late(rng))
            continue
        if k % 10 == 7:
            cases.append(_gen_sync(rng))
            continue
        mixed = rng.random() < 0.25
        uniform = None if mixed or rng.random() < 0.84 else rng.choice([10, 15, 19, 25])
        nsend = rng.randint(1, 3)
        tgts = rng.sample([1, 2, 11, 12, 13, 14], rng.randint(1, 3))
        if rng.random() < 0.06:
            tgts.append(ME)          # the computation posts to itself (always with the default priority)
        length = rng.choice([0, 1, 2, 3, 5, 8, 12, 20, 30, 40]) if rng.random() < 0.5 else rng.randint(0, 40)
        # weights of the op kinds vary per case so that long buffered runs occur
        w = dict(recv=rng.choice([1, 3, 6]), next=rng.choice([1, 3, 6]), start=rng.choice([0.3, 1]),
                 stop=rng.choice([0, 0.2, 0.6]), pause=rng.choice([0.3, 1, 2]),
                 resume=rng.choice([0.3, 1, 2]), post=rng.choice([0, 2, 5]))
        kinds = list(w)
        ops = []
        mid = 0
        for _ in range(length):
            kind = rng.choices(kinds, [w[x] for x in kinds])[0]
            if kind == "recv":
                mid += 1
                ty = rng.choice([None, None, 20, 10, 15, 19, 25]) if mixed else \
                    uniform if uniform is not None else rng.choice([None, None, None, 20])
                ops.append(["recv", 5 + rng.randrange(nsend), mid, ty])
            elif kind == "post":
                mid += 1
                prio = rng.choice([None, None, 20, 10, 19]) if mixed else None
                tg = rng.choice(tgts)
                ops.append(["post", tg, mid, None if tg == ME else prio])
            else:
                ops.append([kind])
        fail = []
        if k % 5 == 4:
            # fault stream: the message sender raises on chosen posts (during a resume flush and
            # outside), followed by further pause / resume cycles
            ops = _fault_ops(rng, ops, mid)
            post_ids = [op[2] for op in ops if op[0] == "post"]
            fail = sorted(i for i in post_ids if rng.random() < 0.3)
            if not fail and post_ids:
                fail = [rng.choice(post_ids)]
            nposts = len(post_ids)
            ops += [["start"]] + [["resume"]] * rng.randint(1, nposts + 1) + [["next"]] * 3
        elif rng.random() < 0.7:
            ops += [["start"], ["resume"]] + [["next"]] * (mid + 2)
        c = dict(ops=ops)
        if fail:
            c["fail"] = fail
        cases.append(c)
    return cases


def _gen_late(rng):
    """late-target stream: >= 3 messages held (or kept) for a target that the agent's discovery
    only learns about after the resume; the order in which they reach the communication layer is
    observed"""
    pool = [1, 2, 11, 12, 13, 14]
    late = rng.sample(pool, rng.randint(1, 2))
    t0 = late[0]
    others = [t for t in pool if t not in late][:2]
    ops, nid = [], 0
    if rng.random() < 0.5:
        ops.append(["start"])
    for cyc in range(rng.randint(1, 2)):
        paused = rng.random() < 0.8
        if paused:
            ops.append(["pause"])
        for _ in range(rng.randint(3, 7)):
            nid += 1
            ops.append(["post", t0 if rng.random() < 0.75 else rng.choice(late + others), nid, None])
        if paused:
            ops.append(["resume"])
        for _ in range(rng.randint(0, 2)):
            nid += 1
            ops.append(["post", rng.choice(late), nid, None])
        if rng.random() < 0.8:
            ops.append(["reg", rng.choice(late)])
    ops += [["reg", t] for t in late if rng.random() < 0.8]
    ops += [["start"], ["resume"], ["next"]]
    return dict(ops=ops, late=late)


def _gen_sync(rng):
    """synchronous-mixin stream: a SynchronousComputationMixin computation, possibly paused before
    it is started, whose start() posts algorithm messages to some neighbours and cycle_sync messages to
    the others; no reception, so the cycle never switches"""
    pool = [1, 2, 11, 12, 13, 14]
    neighbors = rng.sample(pool, rng.randint(1, 4))
    nid = 0
    onstart = []
    for t in neighbors:
        if rng.random() < 0.4:
            nid += 1
            onstart.append([t, nid])
    body = []
    for _ in range(rng.randint(0, 8)):
        k = rng.choices(["pause", "resume", "post"], [2, 2, 3])[0]
        if k == "post":
            nid += 1
            body.append(["post", rng.choice(neighbors), nid, None])
        else:
            body.append([k])
    pos = rng.randint(0, len(body))
    ops = ([["pause"]] if rng.random() < 0.6 else []) + body[:pos] + [["start"]] + body[pos:]
    if rng.random() < 0.8:
        ops += [["resume"]]
    return dict(kind="sync", neighbors=neighbors, onstart=onstart, ops=ops)


def _fault_ops(rng, ops, mid):
    """append 1-3 cycles pause; posts; resume(s) to a (shortened) random prefix"""
    ops = ops[:rng.randint(0, min(len(ops), 12))]
    nid = max([op[2] for op in ops if op[0] in ("recv", "post")] + [0])
    for _ in range(rng.randint(1, 3)):
        ops.append(["pause"])
        for _ in range(rng.randint(1, 5)):
            nid += 1
            if rng.random() < 0.8:
                ops.append(["post", rng.choice([1, 2, 11, 12, 13, 14]), nid, None])
            else:
                ops.append(["recv", 5, nid, None])
        if rng.random() < 0.3:
            ops.append(["next"])
        ops += [["resume"]] * rng.randint(1, 2)
        if rng.random() < 0.5:
            nid += 1
            ops.append(["post", 1, nid, None])      # a post outside a flush (may fail too)
    return ops


# ------------------------------------------------------------------ implementation driver
def _mk(late=()):
    from pydcop.infrastructure.agents import Agent
    from pydcop.infrastructure.communication import InProcessCommunicationLayer
    from pydcop.infrastructure.computations import MessagePassingComputation

    class Rec(MessagePassingComputation):
        def __init__(self, name):
            super().__init__(name)
            self.log = []
            self.flags = []      # (running, paused) at each handler invocation
            self._msg_handlers["m"] = self._h

        def _h(self, s, m, t):
            self.log.append((s, m.content))
            self.flags.append([bool(self.is_running), bool(self.is_paused)])

    logging.disable(logging.CRITICAL)
    a = Agent("a1", InProcessCommunicationLayer())
    b = Agent("a2", InProcessCommunicationLayer())
    a.discovery.register_agent("a2", b.address, publish=False)
    for t in (n for i, n in TARGETS.items() if i != ME):
        b.add_computation(Rec(t), publish=False)
        if NAME2ID[t] not in late:
            a.discovery.register_computation(t, "a2", publish=False)
    return a, b, Rec


def _payload(msg):
    return -1 if msg.type == "cycle_sync" else msg.content


def _cid(name):
    return NAME2ID[name] if name in NAME2ID else int(name[1:])


def run_impl(case):
    from pydcop.infrastructure.computations import Message, MessagePassingComputation, \
        SynchronousComputationMixin
    a, b, Rec = _mk(case.get("late", ()))
    msging = a._messaging
    delivered = []           # what reaches the communication layer, in order: (target, payload)
    real_send = a._comm.send_msg

    def recording_send(src_agent, dest_agent, fm, on_error=None, from_retry=False):
        delivered.append([_cid(fm.dest_comp), _payload(fm.msg)])
        return real_send(src_agent, dest_agent, fm, on_error=on_error)

    a._comm.send_msg = recording_send
    real = msging.post_msg
    calls = []
    calls_paused = []        # is_paused at each message_sender call

    from pydcop.infrastructure.communication import UnreachableAgent
    fail = set(case.get("fail", []))

    def recording_post_msg(src, dst, msg, prio=None, on_error=None):
        calls.append([_cid(src), _cid(dst), _payload(msg), prio])
        calls_paused.append(bool(c.is_paused))
        if src == "c0" and dst != "c0" and msg.content in fail:
            raise UnreachableAgent("link down")      # what a failing communication layer does
        return real(src, dst, msg, prio, on_error)

    msging.post_msg = recording_post_msg      # add_computation hands this to the computation
    if case.get("kind") == "sync":
        class SyncRec(SynchronousComputationMixin, Rec):
            neighbors = [TARGETS[t] for t in case["neighbors"]]

            def on_start(self):
                for t, i in case["onstart"]:
                    self.post_msg(TARGETS[t], Message("m", i))

        c = SyncRec("c0")
    else:
        c = Rec("c0")
    a.add_computation(c, publish=False)
    del msging.post_msg      # only the computation's message_sender is wrapped, not Messaging's own re-posts
    unsafe = False
    raised = []
    for op in case["ops"]:
        k = op[0]
        raised.append(False)
        if k == "recv":
            real("s%d" % op[1], "c0", Message("m", op[2]), op[3])
        elif k == "next":
            fm, t = msging.next_msg(0)
            if fm is not None:
                s, d, m, _ = fm
                a._handle_message(s, d, m, t)
        elif k in ("start", "resume"):
            if c._paused_messages_recv and any(e[0] <= 19 for e in msging._queue.queue):
                unsafe = True
            try:
                c.start() if k == "start" else c.pause(False)
            except UnreachableAgent:
                raised[-1] = True
        elif k == "reg":
            a.discovery.register_computation(TARGETS[op[1]], "a2", publish=False)
        elif k == "stop":
            c.stop()
        elif k == "pause":
            c.pause(True)
        elif k == "post":
            try:
                c.post_msg(TARGETS[op[1]], Message("m", op[2]), op[3])
            except UnreachableAgent:
                raised[-1] = True
    queue = [[e[0], e[1], _cid(e[3].src_comp), _cid(e[3].dest_comp), e[3].msg.content, e[3].msg_type]
             for e in sorted(msging._queue.queue, key=lambda e: (e[0], e[1]))]
    return dict(handled=[[_cid(s), i] for s, i in c.log], calls=calls, queue=queue,
                brecv=[[_cid(s), m.content] for s, m, _ in c._paused_messages_recv],
                bpost=[[_cid(t), _payload(m), p] for t, m, p, _ in c._paused_messages_post],
                delivered=delivered,
                running=bool(c.is_running), paused=bool(c.is_paused), unsafe=unsafe,
                handled_flags=c.flags, calls_paused=calls_paused, raised=raised)


# ------------------------------------------------------------------ oracle (independent of the model)
def _is_default(case):
    return all(op[3] in (None, 20) for op in case["ops"] if op[0] == "recv")


def _uniform_type(case):
    """the one effective type of all received messages, or None"""
    ts = {20 if op[3] is None else op[3] for op in case["ops"] if op[0] == "recv"}
    return ts.pop() if len(ts) == 1 else (20 if not ts else None)


def _oracle_sync(case, o):
    """ground truth from the case alone: the hand-over sequence of a synchronous computation"""
    exp, seen = [], []
    for op in case["ops"]:
        if op[0] == "post":
            exp.append([ME, op[1], op[2], None])
            seen.append(op[1])
        elif op[0] == "start":
            for t, i in case["onstart"]:
                exp.append([ME, t, i, None])
                seen.append(t)
            for t in case["neighbors"]:
                if t not in seen:
                    exp.append([ME, t, -1, None])      # cycle_sync
                    seen.append(t)
    if any(o["raised"]):
        return "sync: a call raised"
    sent = [c for c in o["calls"] if c[0] == ME]
    held = [[ME, t, i, p] for t, i, p in o["bpost"]]
    for cl, p in zip(o["calls"], o["calls_paused"]):
        if p and cl[0] == ME:
            return "sync posts: message %r sent while the computation is paused" % cl
    if sent != exp[:len(sent)]:
        return "sync posts: message_sender saw %r, expected hand-over order %r" % (sent[:8], exp[:8])
    if sent + held != exp:
        return "sync posts: sent %r + still held %r is not the posted sequence %r" % (sent, held, exp)
    if not o["paused"] and held:
        return "sync posts: %d messages still held although the computation is not paused" % len(held)
    if [[d, i] for _, d, i, _ in sent] != o["delivered"]:
        return "sync posts: reached the communication layer as %r, handed over as %r" % (o["delivered"], sent)
    return None


def _oracle_delivery(case, o, sent):
    """what reaches the communication layer, per target: the messages handed to message_sender, in
    posting order, each once; all of them once the target is known to the agent"""
    ops = case["ops"]
    fail = set(case.get("fail", []))
    known = {t for t in TARGETS if t != ME and t not in case.get("late", [])}
    known |= {op[1] for op in ops if op[0] == "reg"}
    for t in TARGETS:
        if t == ME:
            continue
        posted_t = [op[2] for op in ops if op[0] == "post" and op[1] == t]
        deliv_t = [i for d, i in o["delivered"] if d == t]
        if len(set(deliv_t)) != len(deliv_t):
            return "delivery: target %r got a message twice: %r" % (t, deliv_t)
        if any(o["raised"]):
            # after a failed flush the leftovers go out on a later resume and a direct post made in
            # between overtakes them: with send failures the order is claimed among the messages
            # posted while paused only (same as for the hand-over order above)
            paused, wp = False, set()
            for op in ops:
                if op[0] == "pause":
                    paused = True
                elif op[0] == "resume":
                    paused = False
                elif op[0] == "post" and paused:
                    wp.add(op[2])
            dd = [i for i in deliv_t if i in wp]
            if dd != [i for i in posted_t if i in dd]:
                return "delivery: target %r got the held messages as %r, posting order %r" % (t, dd, posted_t)
        elif deliv_t != [i for i in posted_t if i in deliv_t]:
            return "delivery: target %r got %r, posting order %r" % (t, deliv_t, posted_t)
        handed = [c[2] for c in sent if c[1] == t and c[2] not in fail]
        if t in known and sorted(deliv_t) != sorted(handed):
            return "delivery: target %r is known but got %r of the handed-over %r" % (t, deliv_t, handed)
        if t not in known and deliv_t:
            return "delivery: %r sent to the unknown target %r" % (deliv_t, t)
    return None


def oracle(case, o):
    if case.get("kind") == "sync":
        return _oracle_sync(case, o)
    ops = case["ops"]
    recv = [[op[1], op[2]] for op in ops if op[0] == "recv"]
    posts = [[ME, op[1], op[2], op[3]] for op in ops if op[0] == "post"]
    faulty = any(o["raised"])
    selfpost = any(op[0] == "post" and op[1] == ME for op in ops)
    # --- posted messages
    # own posts handed to message_sender (attempts); a call (x -> ME, 19) is a re-injection
    sent = [c for c in o["calls"] if c[0] == ME and not (c[1] == ME and c[3] == 19)]
    if selfpost:
        # a message the computation sent to itself is also a reception
        recv = recv + [[ME, c[2]] for c in sent if c[1] == ME]
    held_posts = [[ME, t, i, p] for t, i, p in o["bpost"]]
    for cl, p in zip(o["calls"], o["calls_paused"]):
        if p and cl[0] == ME and not (cl[1] == ME and cl[3] == 19):
            return "posts: message %r sent while the computation is paused" % cl
    for m in sent:
        if m not in posts:
            return "posts: %r handed to message_sender but never posted" % m
        if sent.count(m) > posts.count(m):
            return "posts: message %r handed to message_sender %d times, posted %d time(s)" % (
                m, sent.count(m), posts.count(m))
    if sorted(map(repr, sent + held_posts)) != sorted(map(repr, posts)):
        return "posts: sent %r + still held %r is not the posted multiset %r" % (sent, held_posts, posts)
    if not faulty:
        # sent exactly once, in posting order; nothing sent that was not posted
        if sent != posts[:len(sent)]:
            return "posts: message_sender saw %r, posting order is %r" % (sent[:8], posts[:8])
        if sent + held_posts != posts:
            return "posts: sent %r + still held %r is not the posted sequence %r" % (sent, held_posts, posts)
        if not o["paused"] and held_posts:
            return "posts: %d posted messages still held although the computation is not paused" % len(held_posts)
    else:
        # with send failures: the messages posted while paused are handed over in posting order
        # (each at most once, checked above), the ones left by a failed flush on a later resume
        paused, while_paused = False, []
        last_resume_failed = False
        for op, r in zip(ops, o["raised"]):
            if op[0] == "pause":
                paused = True
            elif op[0] == "resume":
                paused = False
                last_resume_failed = r
            elif op[0] == "post" and paused:
                while_paused.append([ME, op[1], op[2], op[3]])
        sub = [m for m in sent if m in while_paused]
        exp = [m for m in while_paused if m in sub]
        if sub != exp:
            return "posts: held messages handed over as %r, posting order %r" % (sub, exp)
        if not o["paused"] and not last_resume_failed and held_posts:
            return "posts: %d posted messages still held after a resume that did not fail" % len(held_posts)
    msg = _oracle_delivery(case, o, sent)
    if msg:
        return msg
    # --- received messages: never handled before start / while paused
    for (s, i), (r, p) in zip(o["handled"], o["handled_flags"]):
        if not r or p:
            return "held: message %r handed to the handler while running=%r paused=%r" % ([s, i], r, p)
    # --- received messages: exactly once
    pending = o["brecv"] + [[e[2], e[4]] for e in o["queue"]]
    if sorted(o["handled"] + pending) != sorted(recv):
        return "once: handled %r + pending %r is not the received multiset %r" % (o["handled"], pending, recv)
    if faulty:
        return None       # a failed resume skips the re-injection: order is only claimed without faults
    if o["running"] and not o["paused"] and o["brecv"]:
        return "once: %d messages still held although the computation runs" % len(o["brecv"])
    # --- order (one message type): handled in reception order and before newer ones
    if _uniform_type(case) is not None and not selfpost:
        h = o["handled"]
        if h != recv[:len(h)]:
            return "order: handled %r, reception order %r" % (h[:10], recv[:10])
        if h + pending != recv:
            return "order: handled+held+queued %r is not the reception order %r" % (h + pending, recv)
    return None


def classify(case, o, msg):
    # the one recorded defect: a start/resume re-injected held messages while messages re-injected
    # earlier (type 19) were still queued; only order failures of such histories are instances
    if not msg.startswith("order:"):
        return None
    t = _uniform_type(case)
    reinjected = any(c[1] == ME for c in o.get("calls", []))
    # held messages are re-queued with type 19: with an original type <= 19 they lose their place
    if t is not None and t <= 19 and reinjected:
        return FINDING_PRIO
    if o.get("unsafe"):
        return FINDING
    return None


# ------------------------------------------------------------------ Gallina
def _op(op):
    k = op[0]
    if k == "recv":
        return "Recv %s %s %s" % (q.z(op[1]), q.z(op[2]), q.opt(op[3], q.z))
    if k == "post":
        return "LPost %s %s %s" % (q.z(op[1]), q.z(op[2]), q.opt(op[3], q.z))
    return {"next": "LNext", "start": "Start", "stop": "Stop", "pause": "Pause", "resume": "Resume"}[k]


def coq_case(case, o):
    if case.get("kind") == "sync":
        return None        # the mixin is not modelled: oracle only
    zz = lambda l: q.lst([q.pair(q.z(a), q.z(b_)) for a, b_ in l])
    calls = q.lst(["mkCall %s %s %s %s" % (q.z(s), q.z(d), q.z(i), q.opt(p, q.z)) for s, d, i, p in o["calls"]])
    queue = q.lst(["mkQ %s %s (mkMsg %s %s %s %s)" % tuple(q.z(x) for x in e) for e in o["queue"]])
    bpost = q.lst(["(%s, %s, %s)" % (q.z(t), q.z(i), q.opt(p, q.z)) for t, i, p in o["bpost"]])
    return "M_Lifecycle.mkLCase %s %s %s %s %s %s %s %s %s %s %s %s" % (
        q.z(ME), q.lst([_op(x) for x in case["ops"] if x[0] != "reg"]), zz(o["handled"]), calls, queue,
        zz(o["brecv"]), bpost, q.b(o["running"]), q.b(o["paused"]), q.b(not o["unsafe"]),
        q.zlist(case.get("fail", [])),
        q.lst([q.b(x) for op, x in zip(case["ops"], o["raised"]) if op[0] != "reg"]))


def nontrivial(case, o):
    return any(c[1] == ME for c in o["calls"]) or bool(o["brecv"]) or bool(o["bpost"]) or \
        _buffered_post(case)


def _buffered_post(case):
    paused = False
    for op in case["ops"]:
        if op[0] == "pause":
            paused = True
        elif op[0] == "resume":
            paused = False
        elif op[0] == "post" and paused:
            return True
    return False


def histogram(cases, obs):
    h = {"late_target_stream": 0, "sync_mixin_stream": 0, "sync_paused_before_start": 0, "fault_stream": 0, "send_raised": 0, "failed_flush_then_resume": 0, "default_types": 0, "mixed_types": 0, "uniform_other_type": 0, "unsafe_reinject": 0, "reinjected>=2": 0, "buffered_posts": 0,
         "len0-5": 0, "len6-20": 0, "len>20": 0}
    for c, o in zip(cases, obs):
        if c.get("kind") == "sync":
            h["sync_mixin_stream"] += 1
            ks = [op[0] for op in c["ops"]]
            if "pause" in ks[:ks.index("start")]:
                h["sync_paused_before_start"] += 1
            continue
        if c.get("late"):
            h["late_target_stream"] += 1
        h["default_types" if _is_default(c) else "uniform_other_type" if _uniform_type(c) is not None
          else "mixed_types"] += 1
        if isinstance(o, dict) and o.get("unsafe"):
            h["unsafe_reinject"] += 1
        if isinstance(o, dict) and sum(1 for x in o.get("calls", []) if x[1] == ME) >= 2:
            h["reinjected>=2"] += 1
        if _buffered_post(c):
            h["buffered_posts"] += 1
        if c.get("fail"):
            h["fault_stream"] += 1
            if isinstance(o, dict) and any(o.get("raised", [])):
                h["send_raised"] += 1
                rs = [r for op, r in zip(c["ops"], o["raised"]) if op[0] == "resume"]
                if True in rs and rs.index(True) < len(rs) - 1:
                    h["failed_flush_then_resume"] += 1
        n = len(c["ops"])
        h["len0-5" if n <= 5 else "len6-20" if n <= 20 else "len>20"] += 1
    return h


def shrink_candidates(case):
    ops = case["ops"]
    for i in range(len(ops)):
        if case.get("kind") == "sync" and ops[i][0] == "start":
            continue
        d = dict(case)
        d["ops"] = ops[:i] + ops[i + 1:]
        yield d
    if case.get("kind") == "sync":
        for i in range(len(case["onstart"])):
            d = dict(case)
            d["onstart"] = case["onstart"][:i] + case["onstart"][i + 1:]
            yield d
        for t in case["neighbors"]:
            if t not in [op[1] for op in ops if op[0] == "post"] and t not in [x[0] for x in case["onstart"]] \
                    and len(case["neighbors"]) > 1:
                d = dict(case)
                d["neighbors"] = [x for x in case["neighbors"] if x != t]
                yield d
    for f in case.get("fail", []):
        d = dict(ops=ops, fail=[x for x in case["fail"] if x != f])
        if not d["fail"]:
            del d["fail"]
        yield d
