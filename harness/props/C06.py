"""C06 -- best-response helpers return exactly the optimal values and cost."""
import math

from harness import coqio as q
from harness.props import C12 as R

ID = "C06"
COQ_REQUIRE = ["ECost", "M_Rel"]
COQ_CASE_TYPE = "M_Rel.case"
COQ_CHECK = "M_Rel.check_case"
OBLIGATIONS = ["find_arg_optimal_spec", "find_optimal_spec", "optimal_cost_value_spec",
               "projection_spec", "dsa_moves_within_best", "dsatuto_moves_within_best"]
N_QUICK, N_THOROUGH = 600, 6000
SHARD = 150
RULE = ("seeded random variables (domains of 1-3 distinct integer values; plain, cost-dict and "
        "cost-function variables) and matrix constraints with small, tie-heavy, 2^31-boundary, "
        "2^40-scale and +/-inf tables, and (30 % of the multi-constraint cases) int8/int16/int32 "
        "numpy tables or int64 tables around 2^62 whose sums leave the dtype, min and max; calls of find_arg_optimal, find_optimal, "
        "optimal_cost_value, assignment_cost, projection, and one evaluation step of the real "
        "DsaComputation (variants A/B/C), ADsaComputation.tick and DsaTutoComputation.on_new_cycle "
        "with the random draws supplied by the case; a multi-cycle stream (one real DSA / A-DSA / "
        "dsatuto object with 2-3 neighbours fed 2-5 successive cycles of neighbour values in varying "
        "arrival orders, values often permuted between cycles); malformed stream: relation on the wrong "
        "scope, missing neighbour values. non-trivial = at least two domain values and a "
        "non-constant cost; distinct = distinct case JSON")
MODELLED = ("theorems (all domains, all extended costs without nan, both modes): find_arg_optimal / "
            "find_optimal return the optimum and exactly the domain values attaining it in domain "
            "order (find_optimal: constraints + own variable cost); optimal_cost_value returns an "
            "optimal value and its cost; projection is the pointwise optimum; the value chosen by "
            "the DSA / dsatuto step belongs to find_optimal's list.  Only checked by this run: the "
            "model equals the real code, incl. A-DSA (which has its own copy of the loop).")
META = dict(
    level_text=("Proof (Coq) that in the model of relations.py find_arg_optimal, find_optimal "
                "(constraints plus the variable's own cost) and optimal_cost_value return the optimal "
                "cost and exactly the values attaining it, for every domain and every finite, huge or "
                "infinite cost table in min and max mode, that projection is the pointwise optimum and "
                "that a DSA step only selects a value of that optimal set; tied to the code (relations.py, "
                "dsa.py, adsa.py, dsatuto.py) by a differential run on every check."),
    level_note=("Trusted: Coq kernel/vm_compute, M_Rel.v, the harness. nan costs are excluded from "
                "the theorems (compared only by the correspondence). Integer-valued costs below 2^50 "
                "in magnitude or +/-inf. A-DSA's own find_best_values is covered by the run, not by a "
                "separate theorem."),
    technique="Coq proof over executable Gallina model + differential correspondence run",
    design_ref="DESIGN.md §5 C06",
)


# ------------------------------------------------------------------ generator
def _maybe_fixed_width(rng, c, p=0.3):
    """30 %: all constraints are int8 / int16 / int32 numpy tables (or int64 ones around 2^62) whose
    entries fit the dtype but whose sums do not: the helpers add Python numbers, nothing may wrap"""
    if not c["cs"] or rng.random() >= p:
        return
    dt = rng.choice(["int8", "int8", "int16", "int32", "int64"])
    for r in c["cs"]:
        r["dtype"] = dt
        r["table"] = R.edge_table(rng, dt, len(r["table"]))
    c["fixed_width"] = dt
    if dt == "int64":
        # keep the whole sum in exact integer arithmetic: no float own cost (inf, or the 0.0 a
        # VariableWithCostDict returns for a missing value) next to 2^62-scale integers
        for v in c["vars"]:
            if v["kind"] != "plain":
                have = dict((d, t) for d, t in v["costs"])
                v["kind"] = "func"
                v["costs"] = [[d, have[d] if isinstance(have.get(d), int) else rng.randint(-5, 20)]
                              for d in v["dom"]]


def _gen_multi(rng, c):
    """several successive cycles of one real computation: variable 0 with 2-3 neighbours; per
    cycle one value per neighbour, delivered in a per-cycle arrival order"""
    nn = rng.choice([2, 2, 3])
    x = R.gen_var(rng, 0, with_cost=0.4)
    nbs = [R.gen_var(rng, j, with_cost=0.3) for j in range(1, nn + 1)]
    if rng.random() < 0.7:      # same domain for all neighbours: value tuples can be permuted
        for v in nbs[1:]:
            v["dom"] = list(nbs[0]["dom"])
            v["costs"] = [[d, t] for d, t in v["costs"] if d in v["dom"]]
            if v["kind"] == "func":
                v["kind"], v["costs"] = "plain", []
    c["vars"] = [x] + nbs
    c["algo"] = rng.choice(["dsa", "dsa", "dsa", "adsa", "dsatuto"])
    c["bad"] = False
    cs = []
    for nb in nbs:      # one binary constraint per neighbour, sometimes a ternary one
        dims = [x, nb] if rng.random() < 0.5 else [nb, x]
        r = R.gen_rel(rng, dims, arity=2, allow_inf=rng.random() < 0.2)
        r["dims"] = [v["id"] for v in dims]
        cs.append(r)
    if rng.random() < 0.25:
        dims = [x] + rng.sample(nbs, 2)
        r = R.gen_rel(rng, dims, arity=3, allow_inf=False)
        r["dims"] = [v["id"] for v in dims]
        cs.append(r)
    c["cs"] = cs
    _maybe_fixed_width(rng, c)
    c["variant"] = rng.choice(["A", "B", "C"])
    c["prob"] = rng.choice([0.7, 1.0, 1.0])
    c["cur"] = rng.choice(x["dom"])
    cycles = []
    prev = None
    for _ in range(rng.randint(2, 5)):
        order = [v["id"] for v in nbs]
        rng.shuffle(order)
        if prev is not None and rng.random() < 0.5:
            vals = [b for _, b in prev]
            rng.shuffle(vals)       # the previous cycle's values handed to other neighbours
            byid = {v["id"]: v for v in nbs}
            arrivals = [[i, val if val in byid[i]["dom"] else rng.choice(byid[i]["dom"])]
                        for i, val in zip(order, vals)]
        else:
            byid = {v["id"]: v for v in nbs}
            arrivals = [[i, rng.choice(byid[i]["dom"])] for i in order]
        prev = arrivals
        cycles.append(dict(arrivals=arrivals, draw=rng.choice([0.0, 0.1, 0.4, 0.6, 0.9]),
                           pick=rng.randint(0, 5)))
    c["cycles"] = cycles


def gen(rng, n, tier):
    cases = []
    kinds = ["argopt", "argopt", "findopt", "findopt", "findopt", "optcost", "asgcost", "proj",
             "dsa", "dsa", "adsa", "dsatuto", "isolated", "multi", "multi"]
    for i in range(n):
        kind = rng.choice(kinds)
        nv = rng.randint(1, 4)
        # neighbours carry own costs too: the helpers must count the optimised variable's cost only
        vs = [R.gen_var(rng, j, with_cost=0.5 if (j == 0 or kind == "asgcost") else
                        (0.4 if kind in ("findopt", "dsa", "adsa", "dsatuto") else 0.0)) for j in range(nv)]
        c = dict(kind=kind, vars=vs, mode=rng.choice(["min", "max"]), bad=rng.random() < 0.1, x=0)
        if kind == "argopt":
            r = R.gen_rel(rng, [vs[0]], arity=1)
            if c["bad"]:
                r = R.gen_rel(rng, vs, arity=rng.choice([0, 2])) if nv >= 2 and rng.random() < 0.6 else \
                    R.gen_rel(rng, vs[1:] or vs, arity=1)
            c["rel"] = r
        elif kind == "proj":
            r = R.gen_rel(rng, vs, arity=rng.choice([1, 2, 2, 3]))
            c["rel"] = r
            c["x"] = rng.choice(r["dims"])
        elif kind == "optcost":
            pass
        elif kind == "isolated":
            c["algo"] = rng.choice(["dsa", "adsa"])
        elif kind == "multi":
            _gen_multi(rng, c)
        else:
            ncs = rng.randint(0 if kind in ("findopt", "asgcost") else 1, 3)
            cs = []
            for _ in range(ncs):
                others = [v for v in vs if v["id"] != 0]
                k = rng.randint(0, min(2, len(others)))
                dims = rng.sample(others, k)
                if kind not in ("findopt", "asgcost") or rng.random() < 0.85:
                    dims.insert(rng.randint(0, len(dims)), vs[0])
                r = R.gen_rel(rng, dims, arity=len(dims), allow_inf=(rng.random() < 0.5))
                r["dims"] = [v["id"] for v in dims]
                cs.append(r)
            c["cs"] = cs
            _maybe_fixed_width(rng, c)
            used = []
            for r in cs:
                for d in r["dims"]:
                    if d != 0 and d not in used:
                        used.append(d)
            if kind in ("findopt", "asgcost"):
                for v in vs:     # extra variables in the assignment are allowed
                    if v["id"] != 0 and v["id"] not in used and rng.random() < 0.3:
                        used.append(v["id"])
            rng.shuffle(used)
            byid = {v["id"]: v for v in vs}
            asg = [[d, rng.choice(byid[d]["dom"])] for d in used]
            if kind in ("findopt", "asgcost") and rng.random() < 0.4:
                asg.insert(rng.randint(0, len(asg)), [0, rng.choice(vs[0]["dom"])])
            if kind == "asgcost" and not any(a[0] == 0 for a in asg):
                asg.append([0, rng.choice(vs[0]["dom"])])
            if c["bad"] and kind in ("findopt", "asgcost") and asg:
                del asg[rng.randrange(len(asg))]
            c["asg"] = asg
            c["consider"] = kind == "asgcost" and rng.random() < 0.5
            if kind in ("dsa", "adsa", "dsatuto"):
                c["bad"] = False
                c["cur"] = rng.choice(vs[0]["dom"])
                c["variant"] = rng.choice(["A", "B", "C"])
                c["prob"] = rng.choice([0.3, 0.7, 1.0])
                c["draw"] = rng.choice([0.0, 0.1, 0.4, 0.6, 0.9])
                c["pick"] = rng.randint(0, 5)
        # 25 %: the constraints are intentional ones defined through an external python file
        # (constraint_from_external_definition); the expression text is always
        # "source.cost(<scope>)", only the file differs from case to case
        rels = ([c["rel"]] if "rel" in c else []) + list(c.get("cs", []))
        if (kind in ("findopt", "asgcost", "argopt", "proj") and not c["bad"] and rels
                and all(1 <= len(r["dims"]) <= (2 if kind == "proj" else 3) for r in rels)
                and rng.random() < 0.25):
            c["ext"] = True
        cases.append(c)
    return cases


# ------------------------------------------------------------------ implementation
_EXT = {"dir": None, "n": 0}


def _ext_dir():
    import atexit
    import shutil
    import tempfile
    import os
    if _EXT["dir"] is None or not os.path.isdir(_EXT["dir"]):
        os.makedirs("/verif/.work", exist_ok=True)
        d = tempfile.mkdtemp(prefix="c06src_", dir="/verif/.work")
        _EXT["dir"] = d
        atexit.register(shutil.rmtree, d, True)
    return _EXT["dir"]


def build_ext_rel(c, r, objs, name):
    """the relation as an intentional constraint whose python code lives in its own file"""
    import os
    from pydcop.dcop.relations import constraint_from_external_definition
    import itertools
    dims = R.rel_dims(c, r)
    _EXT["n"] += 1
    path = os.path.join(_ext_dir(), "src_%d_%d.py" % (os.getpid(), _EXT["n"]))
    lines = ["INF = float('inf')", "T = {"]
    for pos, combo in enumerate(itertools.product(*[v["dom"] for v in dims])):
        t = r["table"][pos]
        lines.append("    %r: %s," % (tuple(combo), {"inf": "INF", "-inf": "-INF"}.get(t, repr(t))))
    lines += ["}", "", "def cost(*args):", "    return T[args]", ""]
    with open(path, "w") as f:
        f.write("\n".join(lines))
    _EXT.setdefault("files", []).append(path)     # removed when the case is over (slicing re-reads it)
    expr = "source.cost(%s)" % ", ".join(R.vname(v["id"]) for v in dims)
    return constraint_from_external_definition(name, path, expr, [objs[v["id"]] for v in dims])


def _ext_cleanup():
    import os
    for p in _EXT.pop("files", []):
        try:
            os.remove(p)
        except OSError:
            pass


def _rel(c, r, objs, name):
    return build_ext_rel(c, r, objs, name) if c.get("ext") else R.build_rel(c, r, objs, name)
class FakeRandom:
    """stands for the `random` module inside the algorithm module"""

    def __init__(self, draw, pick):
        self.draw, self.pick = draw, pick
        self.random_called = 0
        self.choice_args = None
        self.choice_idx = None

    def random(self):
        self.random_called += 1
        return self.draw

    def choice(self, seq):
        self.choice_args = list(seq)
        if not len(seq):    # as random.choice
            raise IndexError("Cannot choose from an empty sequence")
        self.choice_idx = self.pick % len(seq)
        return seq[self.choice_idx]

    def __getattr__(self, name):
        raise RuntimeError("unexpected use of random.%s" % name)


def _build_comp(c, objs, cs):
    import importlib
    from pydcop.computations_graph.constraints_hypergraph import VariableComputationNode
    from pydcop.algorithms import AlgorithmDef, ComputationDef
    name = c["kind"]
    mod = importlib.import_module("pydcop.algorithms." + name)
    params = {} if name == "dsatuto" else {"variant": c["variant"], "probability": c["prob"]}
    adef = AlgorithmDef.build_with_default_param(name, params, mode=c["mode"],
                                                 parameters_definitions=getattr(mod, "algo_params", []))
    cls = {"dsa": "DsaComputation", "adsa": "ADsaComputation", "dsatuto": "DsaTutoComputation"}[name]
    comp = getattr(mod, cls)(ComputationDef(VariableComputationNode(objs[0], cs), adef))
    comp.message_sender = lambda *a, **k: None
    return mod, comp


def _run_multi(c, objs):
    """feed successive cycles of neighbour values to ONE real computation object"""
    cs = [R.build_rel(c, r, objs, "c%d" % i) for i, r in enumerate(c["cs"])]
    c2 = dict(c, kind=c["algo"])
    mod, comp = _build_comp(c2, objs, cs)
    comp._running = True
    comp.value_selection(c["cur"], None)
    orig_sel = comp.value_selection
    cur_sel, cur_viol = [], []

    def rec(val, cost=None):
        cur_sel.append([val, R.tok(cost)])
        return orig_sel(val, cost)
    comp.value_selection = rec
    if hasattr(comp, "exists_violated_constraint"):
        orig_v = comp.exists_violated_constraint

        def wrapped():
            r = orig_v()
            cur_viol.append(bool(r))
            return r
        comp.exists_violated_constraint = wrapped
    saved = mod.random
    out = []
    try:
        for cy in c["cycles"]:
            fake = FakeRandom(cy["draw"], cy["pick"])
            mod.random = fake
            del cur_sel[:], cur_viol[:]
            before = comp.current_value
            n0 = comp.cycle_count
            try:
                if c["algo"] == "dsa":
                    for i, v in cy["arrivals"]:
                        comp._on_value_msg(R.vname(i), mod.DsaMessage(v), 0)
                elif c["algo"] == "adsa":
                    import io
                    import contextlib
                    for i, v in cy["arrivals"]:
                        comp._on_value_msg(R.vname(i), mod.ADsaMessage(v), 0)
                    with contextlib.redirect_stdout(io.StringIO()):
                        comp.tick()
                else:
                    comp.on_new_cycle({R.vname(i): (mod.DsaMessage(v), 0) for i, v in cy["arrivals"]}, 0)
            except Exception as e:
                out.append(dict(R.err_obs(e), before=before, violated=cur_viol[0] if cur_viol else False))
                break
            out.append(dict(before=before, selected=list(cur_sel), after=comp.current_value,
                            violated=cur_viol[0] if cur_viol else False, choice_idx=fake.choice_idx,
                            evaluated=(comp.cycle_count - n0) if c["algo"] == "dsa" else 1))
    finally:
        mod.random = saved
    return dict(cycles=out)


def _run_isolated(c, objs):
    """start of a DSA / A-DSA computation whose variable has no neighbour"""
    c2 = dict(c, kind=c["algo"], variant="B", prob=0.7)
    mod, comp = _build_comp(c2, objs, [])
    selected = []
    comp.value_selection = lambda v, cost=None: selected.append([v, R.tok(cost)])
    comp.finished = lambda: None
    comp.stop = lambda: None
    class _Periodic:
        def set_periodic_action(self, period, cb):
            return object()

        def remove_periodic_action(self, handle):
            pass
    if c["algo"] == "adsa":
        comp.periodic_action_handler = _Periodic()
    fake = FakeRandom(0.5, 0)
    saved = mod.random
    mod.random = fake
    try:
        comp.on_start()
        if c["algo"] == "adsa":
            comp.delayed_start()
    finally:
        mod.random = saved
    return dict(selected=selected)


def run_impl(c):
    try:
        return _run_impl(c)
    finally:
        _ext_cleanup()


def _run_impl(c):
    from pydcop.dcop import relations as Rel
    objs = R.build_vars(c)
    k = c["kind"]
    try:
        if k == "argopt":
            vals, cost = Rel.find_arg_optimal(objs[0], _rel(c, c["rel"], objs, "r"), c["mode"])
            return dict(values=list(vals), cost=R.tok(cost))
        if k == "proj":
            r = _rel(c, c["rel"], objs, "r")
            return dict(rel=R.obs_rel(Rel.projection(r, objs[c["x"]], c["mode"])))
        if k == "optcost":
            v, cost = Rel.optimal_cost_value(objs[0], c["mode"])
            return dict(value=v, cost=R.tok(cost))
        if k == "isolated":
            return _run_isolated(c, objs)
        if k == "multi":
            return _run_multi(c, objs)
        cs = [_rel(c, r, objs, "c%d" % i) for i, r in enumerate(c["cs"])]
        if k == "findopt":
            asg = R.asg_dict(c["asg"])
            vals, cost = Rel.find_optimal(objs[0], asg, cs, c["mode"])
            return dict(values=list(vals) if vals is not None else None, cost=R.tok(cost))
        if k == "asgcost":
            return dict(cost=R.tok(Rel.assignment_cost(R.asg_dict(c["asg"]), cs, c["consider"])))
    except Exception as e:
        return R.err_obs(e)
    # --- one step of a real DSA-family computation
    mod, comp = _build_comp(c, objs, cs)
    fake = FakeRandom(c["draw"], c["pick"])
    comp.value_selection(c["cur"], None)
    selected = []
    comp.value_selection = lambda v, cost=None: selected.append([v, R.tok(cost)])
    violated = []
    if hasattr(comp, "exists_violated_constraint"):
        orig = comp.exists_violated_constraint

        def wrapped():
            r = orig()
            violated.append(bool(r))
            return r
        comp.exists_violated_constraint = wrapped
    saved = mod.random
    mod.random = fake
    try:
        nb = R.asg_dict(c["asg"])
        if sorted(nb) != sorted(comp.neighbors):
            return {"__driver_error__": "neighbours %r vs assignment %r" % (comp.neighbors, nb)}
        if k == "dsa":
            comp.current_cycle = dict(nb)
            comp.evaluate_cycle()
        elif k == "adsa":
            comp.current_assignment = dict(nb)
            import io
            import contextlib
            with contextlib.redirect_stdout(io.StringIO()):
                comp.tick()
        else:
            comp.on_new_cycle({n: (mod.DsaMessage(v), 0) for n, v in nb.items()}, 0)
    except Exception as e:
        return dict(R.err_obs(e), violated=violated[0] if violated else False)
    finally:
        mod.random = saved
    return dict(selected=selected, violated=violated[0] if violated else False,
                random_called=fake.random_called, choice_args=fake.choice_args,
                choice_idx=fake.choice_idx)


# ------------------------------------------------------------------ oracle
def has_nan(xs):
    return any(isinstance(x, float) and math.isnan(x) for x in xs)


def local_costs(c, asg):
    """brute force: cost of every value of variable 0 given the others (constraints + own cost)"""
    fns = [R.table_fn(c, r)[0] for r in c["cs"]]
    x = c["vars"][0]
    own = {d: R.tok_num(t) for d, t in x["costs"]}
    out = []
    for d in x["dom"]:
        a = dict(asg)
        a[0] = d
        tot = 0
        for f in fns:
            tot = tot + f(a)
        out.append(tot + own.get(d, 0))
    return out


def covered(c, asg, need_x):
    d = dict((a, b) for a, b in asg)
    for r in c["cs"]:
        for i in r["dims"]:
            if i not in d and not (i == 0 and not need_x):
                return False
    return True


def _oracle_multi(c, o):
    """every value_selection of every cycle goes to a member of the brute-force best-response set
    for the neighbour values of THAT cycle (constraints + own cost) and announces that cost"""
    if "error" in o:
        return "multi-cycle %s run raised %s" % (c["algo"], o["error"])
    x = c["vars"][0]
    opt = min if c["mode"] == "min" else max
    cur = c["cur"]
    for n, (cy, oc) in enumerate(zip(c["cycles"], o["cycles"])):
        costs = local_costs(c, dict((a, b) for a, b in cy["arrivals"]))
        if has_nan(costs):
            return None         # undefined optimum: out of scope from here on
        if "error" in oc:
            return "%s cycle %d raised %s" % (c["algo"], n, oc["error"])
        if oc["before"] != cur:
            return "%s cycle %d starts from value %r, last selected value is %r" % (c["algo"], n, oc["before"], cur)
        if oc.get("evaluated") != 1:
            return "%s cycle %d: %r evaluations for one full set of neighbour values" % (c["algo"], n, oc.get("evaluated"))
        best = opt(costs)
        exp = [d for d, cst in zip(x["dom"], costs) if cst == best]
        if len(oc["selected"]) > 1:
            return "%s cycle %d selected a value twice" % (c["algo"], n)
        for v, cst in oc["selected"]:
            if v not in exp:
                return "%s cycle %d (arrivals %r): selected %r, best responses are %r (local costs %r, mode %s)" % (
                    c["algo"], n, cy["arrivals"], v, exp, costs, c["mode"])
            if cst != {"none": 1} and not R.same_num(R.tok_num(cst), best):
                return "%s cycle %d: selected %r announcing cost %r, optimal local cost is %r" % (c["algo"], n, v, cst, best)
            cur = v
        if oc["after"] != cur:
            return "%s cycle %d ends with value %r, expected %r" % (c["algo"], n, oc["after"], cur)
    if len(o["cycles"]) != len(c["cycles"]):
        return "%s run stopped after %d of %d cycles" % (c["algo"], len(o["cycles"]), len(c["cycles"]))
    return None


def oracle(c, o):
    k = c["kind"]
    x = c["vars"][0]
    opt = min if c["mode"] == "min" else max
    if k == "argopt":
        good = c["rel"]["dims"] == [0]
        if not good:
            return None if "error" in o else "find_arg_optimal accepted a relation on another scope"
        if "error" in o:
            return "find_arg_optimal raised " + o["error"]
        costs = [R.tok_num(t) for t in c["rel"]["table"]]
        if has_nan(costs):
            return None
        best = opt(costs)
        exp = [d for d, cst in zip(x["dom"], costs) if cst == best]
        if not R.same_num(R.tok_num(o["cost"]), best) or o["values"] != exp:
            return "find_arg_optimal(%s) over costs %r returned (%r, %r), expected (%r, %r)" % (
                c["mode"], costs, o["values"], o["cost"], exp, best)
        return None
    if k == "proj":
        c2 = dict(c, kind="proj")
        return R.oracle(c2, dict(o, orig_same=True))
    if k == "multi":
        return _oracle_multi(c, o)
    if k == "isolated":
        if "error" in o:
            return "start of an isolated %s variable raised %s" % (c["algo"], o["error"])
        own = {d: R.tok_num(t) for d, t in x["costs"]}
        costs = [own.get(d, 0) for d in x["dom"]]
        best = opt(costs)
        if len(o["selected"]) != 1:
            return "isolated %s variable selected %d values at start" % (c["algo"], len(o["selected"]))
        v, cost = o["selected"][0]
        if v not in x["dom"] or own.get(v, 0) != best:
            return "isolated %s variable selected %r (cost %r) at start; domain %r, own costs %r, mode %s" % (
                c["algo"], v, cost, x["dom"], costs, c["mode"])
        return None
    if k == "optcost":
        if "error" in o:
            return "optimal_cost_value raised " + o["error"]
        own = {d: R.tok_num(t) for d, t in x["costs"]}
        costs = [own.get(d, 0) for d in x["dom"]]
        best = opt(costs)
        if not R.same_num(R.tok_num(o["cost"]), best):
            return "optimal_cost_value cost %r, optimum %r" % (o["cost"], best)
        if o["value"] not in x["dom"] or own.get(o["value"], 0) != best:
            return "optimal_cost_value value %r does not attain the optimum %r" % (o["value"], best)
        return None
    if k == "asgcost":
        if not covered(c, c["asg"], True):
            return None if "error" in o else "assignment_cost accepted a partial assignment"
        if "error" in o:
            return "assignment_cost raised " + o["error"]
        asg = dict((a, b) for a, b in c["asg"])
        tot = 0
        for r in c["cs"]:
            tot = tot + R.table_fn(c, r)[0](asg)
        if c["consider"]:
            byid = {v["id"]: v for v in c["vars"]}
            seen = []
            for r in c["cs"]:
                for i in r["dims"]:
                    if i not in seen:
                        seen.append(i)
                        tot = tot + {d: R.tok_num(t) for d, t in byid[i]["costs"]}.get(asg[i], 0)
        if not R.same_num(R.tok_num(o["cost"]), tot):
            return "assignment_cost = %r, expected %r" % (o["cost"], tot)
        return None
    if k == "findopt":
        if not covered(c, c["asg"], False):
            return None if "error" in o else "find_optimal accepted a partial assignment"
        if "error" in o:
            return "find_optimal raised " + o["error"]
        costs = local_costs(c, dict((a, b) for a, b in c["asg"]))
        if has_nan(costs):
            return None
        best = opt(costs)
        exp = [d for d, cst in zip(x["dom"], costs) if cst == best]
        if o["values"] != exp or not R.same_num(R.tok_num(o["cost"]), best):
            return "find_optimal(%s) with local costs %r returned (%r, %r), expected (%r, %r)" % (
                c["mode"], costs, o["values"], o["cost"], exp, best)
        return None
    # DSA family: a selected value must be optimal for the neighbour values used
    costs = local_costs(c, dict((a, b) for a, b in c["asg"]))
    if has_nan(costs):
        # some candidate's cost is the undefined sum inf + (-inf): no optimum is defined, outside
        # the property (the theorems exclude nan too); still compared with the model
        return None
    if "error" in o:
        return "%s step raised %s" % (k, o["error"])
    best = opt(costs)
    exp = [d for d, cst in zip(x["dom"], costs) if cst == best]
    for v, cst in o["selected"]:
        if v not in exp:
            return "%s selected %r, best values are %r (local costs %r, mode %s)" % (k, v, exp, costs, c["mode"])
        if cst != {"none": 1} and not R.same_num(R.tok_num(cst), best):
            return "%s selected %r announcing cost %r, optimal local cost is %r" % (k, v, cst, best)
    if len(o["selected"]) > 1:
        return "%s selected a value twice in one step" % k
    return None


# ------------------------------------------------------------------ Gallina
def coq_case(c, o):
    k = c["kind"]
    byid = {v["id"]: v for v in c["vars"]}
    x = R.g_var(byid[0])
    m = R.g_mode(c["mode"])

    def g_opt(key):
        return R.g_res(o, key, lambda _: q.pair(q.zlist(o["values"]), R.ec(o["cost"])))
    if k == "argopt":
        return "CArgOpt %s %s %s %s" % (x, R.g_rel(c, c["rel"]), m, g_opt("values"))
    if k == "proj":
        return "CProj %s %s %s %s" % (R.g_rel(c, c["rel"]), R.g_var(byid[c["x"]]), m, R.g_res(o, "rel", R.g_obsrel))
    if k == "multi":
        if "error" in o:
            return None
        cs = q.lst([R.g_rel(c, r) for r in c["cs"]])
        steps = []
        for cy, oc in zip(c["cycles"], o["cycles"]):
            if "error" in oc:
                sel = R.g_res(oc, "selected", None)
                pick = 0
            else:
                if len(oc["selected"]) > 1:
                    raise ValueError("two selections in one cycle")
                sel = "(Ok %s)" % q.opt(oc["selected"][0][0] if oc["selected"] else None, q.z)
                pick = oc["choice_idx"] if oc["choice_idx"] is not None else 0
            if c["algo"] == "dsatuto":
                steps.append("CDsaTuto %s %s %s %s %s %s %s" % (
                    x, m, R.g_asg(cy["arrivals"]), cs, q.z(oc["before"]), q.b(0.5 > cy["draw"]), sel))
            else:
                steps.append("CDsa %s %s %s %s %s %s %s %s %s %s" % (
                    x, "V" + c["variant"], m, R.g_asg(cy["arrivals"]), cs, q.z(oc["before"]),
                    q.b(oc["violated"]), q.b(c["prob"] > cy["draw"]), q.nat(pick), sel))
        return "CMulti %s" % q.lst(steps)
    if k == "isolated":
        if "error" in o or len(o["selected"]) != 1 or not isinstance(o["selected"][0][0], int):
            return None
        return "COptCost %s %s (Ok %s)" % (x, m, q.pair(q.z(o["selected"][0][0]), R.ec(o["selected"][0][1])))
    if k == "optcost":
        return "COptCost %s %s %s" % (x, m, R.g_res(o, "value", lambda v: q.pair(q.z(v), R.ec(o["cost"]))))
    cs = q.lst([R.g_rel(c, r) for r in c["cs"]])
    if k == "findopt":
        if "values" in o and o["values"] is None:
            raise ValueError("find_optimal returned None as value list")
        return "CFindOpt %s %s %s %s %s" % (x, R.g_asg(c["asg"]), cs, m, g_opt("values"))
    if k == "asgcost":
        return "CAsgCost %s %s %s %s" % (R.g_asg(c["asg"]), cs, q.b(c["consider"]), R.g_res(o, "cost", R.ec))
    if "error" in o:
        sel = R.g_res(o, "selected", None)
        violated, pick = o.get("violated", False), 0
    else:
        sel = "(Ok %s)" % q.opt(o["selected"][0][0] if o["selected"] else None, q.z)
        violated = o["violated"]
        pick = o["choice_idx"] if o["choice_idx"] is not None else 0
    if k == "dsatuto":
        return "CDsaTuto %s %s %s %s %s %s %s" % (x, m, R.g_asg(c["asg"]), cs, q.z(c["cur"]),
                                                  q.b(0.5 > c["draw"]), sel)
    draw_ok = c["prob"] > c["draw"]
    return "CDsa %s %s %s %s %s %s %s %s %s %s" % (
        x, "V" + c["variant"], m, R.g_asg(c["asg"]), cs, q.z(c["cur"]), q.b(violated), q.b(draw_ok),
        q.nat(pick), sel)


def nontrivial(c, o):
    x = c["vars"][0]
    if len(x["dom"]) < 2:
        return False
    if c["kind"] == "multi":
        return True
    if c["kind"] in ("argopt", "proj"):
        return len(set(map(str, c["rel"]["table"]))) > 1
    if c["kind"] in ("optcost", "isolated"):
        return len(x["costs"]) > 0
    return any(len(set(map(str, r["table"]))) > 1 for r in c["cs"])


def histogram(cases, obs):
    h = {}
    for c, o in zip(cases, obs):
        k = c["kind"] + ("-" + c["algo"] if c["kind"] == "multi" else "") + "/" + c["mode"] + ("/bad" if c.get("bad") else "")
        h[k] = h.get(k, 0) + 1
        if isinstance(o, dict) and "error" in o:
            h["raised " + o["error"]] = h.get("raised " + o["error"], 0) + 1
        if c.get("ext"):
            h["external-file constraints"] = h.get("external-file constraints", 0) + 1
        if c.get("fixed_width"):
            h["fixed-width " + c["fixed_width"]] = h.get("fixed-width " + c["fixed_width"], 0) + 1
        if isinstance(o, dict) and c["kind"] == "multi" and "cycles" in o:
            h["multi cycles"] = h.get("multi cycles", 0) + len(o["cycles"])
            h["multi moves"] = h.get("multi moves", 0) + sum(1 for oc in o["cycles"] if oc.get("selected"))
        if isinstance(o, dict) and o.get("selected"):
            h[c["kind"] + " moved"] = h.get(c["kind"] + " moved", 0) + 1
    return h


def classify(c, o, msg):
    return None


def shrink_candidates(c):
    for key in ("rel",):
        if key in c:
            r = c[key]
            for i, t in enumerate(r["table"]):
                if t != 0:
                    d = dict(c)
                    d[key] = dict(r, table=r["table"][:i] + [0] + r["table"][i + 1:])
                    yield d
    if "cs" in c and len(c["cs"]) > 1 and c["kind"] in ("findopt", "asgcost"):
        for i in range(len(c["cs"])):
            d = dict(c)
            d["cs"] = c["cs"][:i] + c["cs"][i + 1:]
            yield d
