"""C20 -- discovery views converge to the directory for subscribed items."""
from harness import coqio as q

ID = "C20"
COQ_REQUIRE = ["Net", "M_Discovery"]
COQ_CASE_TYPE = "M_Discovery.case"
COQ_CHECK = "M_Discovery.check_case"
OBLIGATIONS = ["disc_comp_inv_partial", "disc_comp_converges_partial", "guard_check_sound",
               "callbacks_computation_added_partial", "callbacks_computation_removed_partial",
               "callbacks_agent_added_partial", "callbacks_replica_added_partial",
               "converges_unguarded_refuted", "removal_agreement_refuted", "replica_agreement_refuted",
               "disc_agent_inv", "disc_agent_converges", "agent_guard_check_sound",
               "agent_agreement_unguarded_refuted",
               "disc_replica_inv", "disc_replica_converges", "replica_guard_check_sound",
               "disc_comp2_inv_partial", "disc_comp2_converges_partial",
               "callbacks_trace_computation_added_partial",
               "disc_comp3_inv", "disc_comp3_converges", "dir_tables_agree",
               "callbacks_wf_reachable", "callbacks_trace_agent_added", "callbacks_trace_agent_removed",
               "callbacks_trace_computation_removed", "callbacks_trace_replica_added",
               "callbacks_trace_replica_removed", "callbacks_order_publish_computation",
               "callbacks_order_unpublish_agent",
               "disc_removal_inv_partial", "disc_removal_converges_partial", "removal_guard_check_sound"]
N_QUICK, N_THOROUGH = 400, 6000
PARALLEL = 8
SHARD = 100
RULE = ("histories of 1-14 operations of the Discovery API (register/unregister agent, computation, replica; "
        "subscribe/unsubscribe agent, all agents, computation, replica with callback ids or None, one-shot or "
        "not) spread over 1-3 agents, 1-3 DCOP computations plus technical ('_t', 'B') ones, agent names "
        "with and without a discovery node; styles: deployment-like (own name and address), arbitrary "
        "arguments (wrong agents, missing addresses: the error paths), mixed; every schedule starts all "
        "nodes, then interleaves operations and per-channel-FIFO deliveries under 6 policies, 80% drained "
        "to quiescence, 20% cut after 5-80 actions (in-flight messages compared); 1 case in 16 is the re-hosting "
        "race (subscriber registers the computation on itself while the old host's named un-publication is "
        "forwarded to it: forced schedule prefix, random tail), 1 in 16 an agent leaving while a subscriber holds "
        "several callbacks for it, pending one-shot ones first, 1 in 16 a computation with replicas un-registered and "
        "registered again while an observer is subscribed to its replicas only. non-trivial = at least "
        "one callback fired and at least one (subscriber, item) pair the directory had to keep informed; "
        "distinct = distinct case JSON")
MODELLED = ("Directory, DirectoryComputation, Discovery, DiscoveryComputation are modelled in full (every "
            "method reachable from the 13 operations and 8 message types, exceptions that escape a handler, "
            "the orchestrator's own discovery publishing back to the directory). Theorems: in-flight "
            "invariant and convergence of the computation sub-protocol for all histories/schedules under the "
            "guard 'the directory has an address for every hosting agent', callbacks fired per changing "
            "notification (computation added/removed, agent added, replica added), three refutations of the "
            "unguarded statement. Deepening (P_Discovery2*.v): agent sub-protocol (by name and '*') and replica "
            "sub-protocol: in-flight invariant + positive agreement at quiescence for EVERY history (no operation "
            "excluded) under per-step guards that are the exact negations of findings "
            "C20-unregister-agent-refused / C20-replica-of-unknown-computation; computation sub-protocol "
            "re-proved including unregister_computation(c, agent) (stale un-publication ignored by the directory) "
            "and register_computation without address (only unregister_agent excluded); callbacks along a trace: "
            "any step that makes an entry become g fires exactly one computation_added per registration, in "
            "order, and discards the one-shot ones. Deepening 2 (P_Discovery3C/T/N.v): computation sub-protocol for "
            "EVERY history (unregister_agent included: replay with filters, Directory table contained in the "
            "orchestrator's Discovery table); exact callback lists for all six kinds on every step of every reachable "
            "configuration, whole-handler event order for publish_computation (agent_added before "
            "computation_added) and unpublish_agent (computation_removed cascade before agent_removed), the one-shot "
            "quirk of computation_removed / replica_removed; agreement AFTER removal for non-technical computations "
            "under two single-step guards (exact replay of pending notifications). Still only checked by the "
            "correspondence run + oracle: agreement after removal of technical computations and of agents/replicas.")
META = dict(
    level_text=("Proof (Coq) over an executable model of discovery.py plugged into the generic asynchronous network "
                "(Net.v): for every history of Discovery operations (any except unregister_agent, "
                "register_computation without an address and unregister_computation naming an agent), every subscriber, start order and per-channel-FIFO "
                "schedule along which the directory holds an address for the agent of every computation it lists, "
                "an in-flight invariant holds and, whenever nothing travels between a subscriber and the "
                "directory, the subscriber's entry for each computation it is subscribed to and the directory "
                "lists is the directory's; a notification that changes an entry fires every callback registered "
                "for it. Deepened: the agent ('*' included) and replica sub-protocols are proved the same way for "
                "every history under per-step guards negating the recorded findings; the computation proof now "
                "covers unregister_computation naming an agent and register_computation without address; along "
                "every trace a step that makes an entry become g fires exactly one computation_added callback "
                "per registration and discards the one-shot ones. Second deepening: the computation theorem holds for EVERY history "
                "(unregister_agent included); exact callback lists (one invocation per registration, in order, table "
                "afterwards) are proved for all six callback kinds on every step from every reachable configuration, with the "
                "order of kinds inside the publish_computation and unpublish_agent handlers; agreement after removal is proved "
                "for non-technical computations under two single-step guards. The unguarded statement, agreement after removal and replica agreement are refuted by "
                "machine-checked witnesses (recorded findings). The model is tied to the code by replaying the "
                "same histories and schedules on the real Directory/Discovery objects (thread-free) and comparing "
                "every callback, exception, final table, subscription set and in-flight message."),
    level_note=("Partial: agreement after un-registration is refuted in general and proved only for non-technical "
                "computations under guards GN1 (shown necessary by the witness) and GN2 (shown sufficient only); agents and "
                "replicas after removal rest on the correspondence run + independent oracle. Trusted: Coq "
                "kernel/vm_compute, M_Discovery.v + Net.v as a rendering of the Python code, the thread-free "
                "driver (real agent threads and queues are C18/C21's subject); set iteration order of "
                "replica_agents() is canonicalised to sorted order in the driver."),
    technique="Coq invariant proof over an executable network model + history/schedule-replay correspondence",
    design_ref="DESIGN.md §5 C20",
)

# ------------------------------------------------------------------ naming (shared with M_Discovery.v)
# agents      : id 0 = "orchestrator" (hosts the directory), id k>=1 = "a%02d"; ids 1..n have a
#               discovery node, larger ids are names only.
# computations: id c>=0 = "c%02d" (non technical); technical ones are negative:
#               -1 "_directory", -2 "_t2", -3 "_t3", -4 "Bc4", -(100+k) "_discovery_<agent k>"
# nodes       : 0 = _directory (and _discovery_orchestrator, which only ever talks to _directory),
#               k>=1 = _discovery_a<k>, -k = the environment of agent k (issues its operations)
ORCH = "orchestrator"
TECH = {-1: "_directory", -2: "_t2", -3: "_t3", -4: "Bc4"}
TECH_INV = {v: k for k, v in TECH.items()}


def agent_name(i):
    return ORCH if i == 0 else "a%02d" % i


def agent_id(name):
    return 0 if name == ORCH else int(name[1:])


def comp_name(c):
    if c >= 0:
        return "c%02d" % c
    if c in TECH:
        return TECH[c]
    return "_discovery_" + agent_name(-c - 100)


def comp_id(name):
    if name in TECH_INV:
        return TECH_INV[name]
    if name.startswith("_discovery_"):
        return -(100 + agent_id(name[len("_discovery_"):]))
    return int(name[1:])


def node_name(n):
    if n == 0:
        return "_directory"
    if n > 0:
        return "_discovery_" + agent_name(n)
    return "env_" + agent_name(-n)


def node_id(name):
    if name in ("_directory", "_discovery_" + ORCH):
        return 0
    if name.startswith("_discovery_"):
        return agent_id(name[len("_discovery_"):])
    return -agent_id(name[len("env_"):])


def addr_of(i):
    return 1000 + i


OPS = ["reg_agent", "unreg_agent", "reg_comp", "unreg_comp", "reg_rep", "unreg_rep", "sub_agent", "unsub_agent",
       "sub_all", "sub_comp", "unsub_comp", "sub_rep", "unsub_rep"]
CB_KINDS = {"agent_added": 1, "agent_removed": 2, "computation_added": 3, "computation_removed": 4,
            "replica_added": 5, "replica_removed": 6}
EXC_KINDS = {"DiscoveryException": 1, "UnknownAgent": 2, "UnknownComputation": 3, "ValueError": 4, "KeyError": 5}


# ------------------------------------------------------------------ generator
def _gen_op(rng, a, n, style, agents, comps, cbs):
    """one operation issued by agent a"""
    def ag():
        return rng.choice(agents)

    def co():
        return rng.choice(comps)

    def cb(p_none=0.3):
        return None if rng.random() < p_none else rng.choice(cbs)
    own = a
    r = rng.random()
    if style == "natural":
        # what agents do in a deployment: publish themselves and what they host, subscribe with callbacks
        k = rng.choice(["reg_self", "reg_comp", "reg_comp", "unreg_comp", "sub_comp", "sub_comp", "unsub_comp",
                        "sub_agent", "unsub_agent", "sub_all", "reg_rep", "unreg_rep", "sub_rep", "unsub_rep",
                        "unreg_self"])
        if k == "reg_self":
            return ["reg_agent", own, addr_of(own)]
        if k == "unreg_self":
            return ["unreg_agent", own]
        if k == "reg_comp":
            return ["reg_comp", co(), own, addr_of(own)]
        if k == "unreg_comp":
            return ["unreg_comp", co(), rng.choice([None, own])]
        if k == "reg_rep":
            return ["reg_rep", co(), own]
        if k == "unreg_rep":
            return ["unreg_rep", co(), own]
        if k == "sub_all":
            return ["sub_all", cb()]
        if k in ("sub_comp", "sub_agent", "sub_rep"):
            return [k, co() if k != "sub_agent" else ag(), cb(), rng.random() < 0.25]
        return [k, co() if k != "unsub_agent" else ag(), cb(0.6)]
    k = rng.choice(OPS)
    if k == "reg_agent":
        return [k, ag(), rng.choice([addr_of(own), 7, 8, 9])]
    if k == "unreg_agent":
        return [k, ag()]
    if k == "reg_comp":
        return [k, co(), rng.choice([None, own, ag()]), rng.choice([None, addr_of(own), 7, 8])]
    if k == "unreg_comp":
        return [k, co(), rng.choice([None, None, own, ag()])]
    if k in ("reg_rep", "unreg_rep"):
        return [k, co(), rng.choice([own, ag()])]
    if k == "sub_all":
        return [k, cb()]
    if k in ("sub_agent", "sub_comp", "sub_rep"):
        return [k, ag() if k == "sub_agent" else co(), cb(), rng.random() < 0.3]
    return [k, ag() if k == "unsub_agent" else co(), cb(0.5)]


def _gen_rehost(rng):
    """re-hosting race (C27-stale-unpublication-kills-subscriber-thread, fixed in /repo 3fa7ad9): agent 2
    is subscribed to computation 0 hosted on agent 1, registers it on itself, and the un-publication of
    agent 1 (naming agent 1) is accepted by the directory and forwarded to 2 before 2's publication arrives:
    the handler of 2 gets an un-publication naming another agent than the one it lists"""
    na = rng.choice([2, 3])
    agents, comps, cbs = list(range(1, na + 1)), [0, 1], [1, 2]
    hist = {str(a): [] for a in agents}
    if rng.random() < 0.5:
        # variant (C27-directory-echo-erases-registration, fixed in /repo): the old host's un-publication is
        # processed by the directory, THEN the new host registers and its publication is processed -- before the
        # fix an un-publication the directory had sent to itself (channel 0 -> 0) was still waiting and erased it
        hist["1"] = [["reg_agent", 1, addr_of(1)], ["reg_comp", 0, 1, addr_of(1)],
                     ["unreg_comp", 0, rng.choice([None, 1])]]
        hist["2"] = [["reg_agent", 2, addr_of(2)], ["reg_comp", 0, 2, addr_of(2)]]
        if na == 3:
            hist["3"] = [["sub_comp", 0, rng.choice([None, 1]), False]]
        for _i in range(rng.randint(0, 3)):
            a = rng.randint(1, na)
            hist[str(a)].append(_gen_op(rng, a, na, "natural", agents, comps, cbs))
        sched = [["D", -3, 3], ["D", 3, 0], ["D", -1, 1], ["D", -1, 1], ["D", 1, 0], ["D", 1, 0], ["D", 0, 3],
                 ["D", -1, 1], ["D", 1, 0], ["D", 1, 0], ["D", -2, 2], ["D", -2, 2], ["D", 2, 0], ["D", 2, 0]]
        return dict(n=na, hist=hist, seed=rng.randrange(10 ** 9), drain=rng.random() < 0.85, steps=rng.randint(5, 40),
                    policy=rng.choice(["uniform", "drain", "newest"]), sched=sched)
    hist["1"] = [["reg_agent", 1, addr_of(1)], ["reg_comp", 0, 1, addr_of(1)], ["unreg_comp", 0, 1]]
    hist["2"] = [["reg_agent", 2, addr_of(2)], ["sub_comp", 0, rng.choice([None, 1, 2]), rng.random() < 0.3],
                 ["reg_comp", 0, 2, addr_of(2)]]
    for _i in range(rng.randint(0, 4)):
        a = rng.randint(1, na)
        hist[str(a)].append(_gen_op(rng, a, na, "natural", agents, comps, cbs))
    sched = [["D", -1, 1], ["D", -1, 1], ["D", 1, 0], ["D", 1, 0], ["D", -2, 2], ["D", -2, 2], ["D", 2, 0], ["D", 2, 0],
             ["D", 0, 2], ["D", 0, 2], ["D", -2, 2], ["D", -1, 1], ["D", 1, 0], ["D", 1, 0], ["D", 0, 2], ["D", 0, 2]]
    if rng.random() < 0.3:      # sometimes the usual order: the new host's publication first
        sched.insert(12, ["D", 2, 0])
    return dict(n=na, hist=hist, seed=rng.randrange(10 ** 9), drain=rng.random() < 0.8, steps=rng.randint(5, 40),
                policy=rng.choice(["uniform", "drain", "newest"]), sched=sched)


def _gen_agent_leaves(rng):
    """an agent leaves while a subscriber holds SEVERAL callbacks for it, some of them one-shot and still pending
    (they were installed when the agent was already known, so the directory's answer changed nothing): every one
    of them must be told agent_removed (fix 413036a: the one-shot ones were removed from the list being iterated)"""
    na = rng.choice([2, 3])
    x = rng.choice([1, 1, na + 1])                # the agent that leaves: agent 1 itself or a name-only agent
    agents, comps, cbs = list(range(1, na + 1)) + [na + 1], [0, 1], [1, 2, 3]
    hist = {str(a): [] for a in range(1, na + 1)}
    hist["1"] = [["reg_agent", x, addr_of(x)]]
    ncb = rng.randint(2, 3)
    shots = [rng.random() < 0.6 for _i in range(ncb)]
    if not any(shots[:-1]):
        shots[rng.randrange(ncb - 1)] = True      # a one-shot one that is not the last
    hist["2"] = [["sub_agent", x, None, False]] + [["sub_agent", x, cbs[i], shots[i]] for i in range(ncb)]
    if rng.random() < 0.3:
        hist["2"].append(["sub_all", rng.choice([None, 3])])
    hist["1"].append(["unreg_agent", x])
    if rng.random() < 0.5:
        hist["1"].append(["reg_agent", x, addr_of(x)])
    for _i in range(rng.randint(0, 3)):
        a = rng.randint(1, na)
        hist[str(a)].append(_gen_op(rng, a, na, "natural", agents, comps, cbs))
    sched = [["D", -1, 1], ["D", 1, 0], ["D", -2, 2], ["D", 2, 0], ["D", 0, 2]]
    for _i in range(ncb):
        sched += [["D", -2, 2], ["D", 2, 0], ["D", 0, 2]]
    sched += [["D", -1, 1], ["D", 1, 0], ["D", 0, 2]]
    return dict(n=na, hist=hist, seed=rng.randrange(10 ** 9), drain=rng.random() < 0.85, steps=rng.randint(5, 40),
                policy=rng.choice(["uniform", "drain", "newest"]), sched=sched)


def _gen_replica_rehost(rng):
    """a computation with replicas is un-registered and registered again while an observer is subscribed to its
    REPLICAS only (it un-subscribed from the computation): nobody un-registered a replica, so the directory and the
    observer must still agree on the replica set afterwards"""
    na = rng.choice([2, 3])
    agents, comps, cbs = list(range(1, na + 1)), [0, 1], [1, 2]
    holders = rng.sample([1, 2, na + 1], rng.randint(1, 2))
    hist = {str(a): [] for a in agents}
    hist["1"] = [["reg_agent", 1, addr_of(1)], ["reg_comp", 0, 1, addr_of(1)]] + [["reg_rep", 0, g] for g in holders]
    hist["2"] = [["sub_comp", 0, rng.choice([None, 1]), False], ["sub_rep", 0, rng.choice([None, 2]), False],
                 ["unsub_comp", 0, None]]
    hist["1"] += [["unreg_comp", 0, rng.choice([None, 1])], ["reg_comp", 0, 1, addr_of(1)]]
    if rng.random() < 0.4:
        hist["1"].append(["unreg_rep", 0, holders[0]])
    for _i in range(rng.randint(0, 3)):
        a = rng.randint(1, na)
        hist[str(a)].append(_gen_op(rng, a, na, "natural", agents, comps, cbs))
    sched = [["D", -1, 1], ["D", 1, 0]] * (2 + len(holders))
    sched += [["D", -2, 2], ["D", 2, 0], ["D", 0, 2]] + [["D", -2, 2], ["D", 2, 0], ["D", 0, 2], ["D", 0, 2]] + \
             [["D", -2, 2], ["D", 2, 0]]
    sched += [["D", -1, 1], ["D", 1, 0], ["D", 1, 0], ["D", -1, 1], ["D", 1, 0]]
    return dict(n=na, hist=hist, seed=rng.randrange(10 ** 9), drain=rng.random() < 0.85, steps=rng.randint(5, 40),
                policy=rng.choice(["uniform", "drain", "newest"]), sched=sched)


def gen(rng, n, tier):
    cases = []
    for _k in range(n):
        if _k % 16 == 3:
            cases.append(_gen_replica_rehost(rng))
            continue
        if _k % 16 == 7:
            cases.append(_gen_rehost(rng))
            continue
        if _k % 16 == 11:
            cases.append(_gen_agent_leaves(rng))
            continue
        na = rng.choice([1, 2, 2, 3, 3])
        style = rng.choice(["natural", "natural", "any", "mixed"])
        agents = list(range(1, na + 1)) + ([na + 1] if rng.random() < 0.5 else [])
        ncomp = rng.randint(1, 3)
        comps = list(range(ncomp))
        if rng.random() < 0.4:
            comps.append(rng.choice([-2, -3, -4]))
        cbs = [1, 2, 3][: rng.randint(1, 3)]
        nops = rng.randint(1, 14)
        hist = {str(a): [] for a in range(1, na + 1)}
        for _i in range(nops):
            a = rng.randint(1, na)
            st = style if style != "mixed" else rng.choice(["natural", "any"])
            hist[str(a)].append(_gen_op(rng, a, na, st, agents, comps, cbs))
        cases.append(dict(n=na, hist=hist, seed=rng.randrange(10 ** 9), drain=rng.random() < 0.8,
                          steps=rng.randint(5, 80), policy=rng.choice(["uniform", "uniform", "drain", "newest", "ops_first",
                                                                       "ops_last"])))
    return cases


# ------------------------------------------------------------------ implementation driver
class _Env:
    """environment node of one agent: start() puts the agent's operations in the channel env -> discovery"""

    def __init__(self, a, ops):
        self.name = node_name(-a)
        self.target = node_name(a)
        self.ops = ops
        self.message_sender = None

    def start(self):
        for op in self.ops:
            self.message_sender(self.name, self.target, list(op), None, None)


class _DiscNode:
    """the discovery computation of one agent + the operations of its Discovery object"""

    def __init__(self, disc, cbf):
        self.disc = disc
        self.comp = disc.discovery_computation
        self.cbf = cbf

    @property
    def message_sender(self):
        return self.comp.message_sender

    @message_sender.setter
    def message_sender(self, f):
        self.comp.message_sender = f

    def start(self):
        self.comp.start()

    def on_message(self, src, msg, t):
        if not isinstance(msg, list):
            return self.comp.on_message(src, msg, t)
        d, k = self.disc, msg[0]
        A, C = agent_name, comp_name
        if k == "reg_agent":
            d.register_agent(A(msg[1]), msg[2])
        elif k == "unreg_agent":
            d.unregister_agent(A(msg[1]))
        elif k == "reg_comp":
            d.register_computation(C(msg[1]), None if msg[2] is None else A(msg[2]), msg[3])
        elif k == "unreg_comp":
            d.unregister_computation(C(msg[1]), None if msg[2] is None else A(msg[2]))
        elif k == "reg_rep":
            d.register_replica(C(msg[1]), A(msg[2]))
        elif k == "unreg_rep":
            d.unregister_replica(C(msg[1]), A(msg[2]))
        elif k == "sub_agent":
            d.subscribe_agent(A(msg[1]), self.cbf(msg[2]), msg[3])
        elif k == "unsub_agent":
            d.unsubscribe_agent(A(msg[1]), self.cbf(msg[2]))
        elif k == "sub_all":
            d.subscribe_all_agents(self.cbf(msg[1]))
        elif k == "sub_comp":
            d.subscribe_computation(C(msg[1]), self.cbf(msg[2]), msg[3])
        elif k == "unsub_comp":
            d.unsubscribe_computation(C(msg[1]), self.cbf(msg[2]))
        elif k == "sub_rep":
            d.subscribe_replica(C(msg[1]), self.cbf(msg[2]), msg[3])
        elif k == "unsub_rep":
            d.unsubscribe_replica(C(msg[1]), self.cbf(msg[2]))
        else:
            raise RuntimeError("bad op " + str(msg))


def _wire(m):
    """canonical form of a discovery message (ids)"""
    t = m.type
    if t == "publish_agent":
        if isinstance(m.agents, str):
            return ["pub_agent", agent_id(m.agents), m.address]
        return ["pub_agents", [[agent_id(a), ad] for a, ad in zip(m.agents, m.address)]]
    if t == "unpublish_agent":
        return ["unpub_agent", agent_id(m.agent)]
    if t == "subscribe_agent":
        return ["sub_agent", -1 if m.agent == "*" else agent_id(m.agent), bool(m.subscribe)]
    if t == "publish_computation":
        return ["pub_comp", comp_id(m.computation), agent_id(m.agent), m.address]
    if t == "unpublish_computation":
        return ["unpub_comp", comp_id(m.computation), None if m.agent is None else agent_id(m.agent)]
    if t == "subscribe_computation":
        return ["sub_comp", comp_id(m.computation), bool(m.subscribe)]
    if t == "publish_replica":
        return ["pub_rep", comp_id(m.replica), agent_id(m.agent), bool(m.publish)]
    if t == "subscribe_replica":
        return ["sub_rep", comp_id(m.replica), bool(m.subscribe)]
    raise RuntimeError("unknown message " + t)


def _disc_state(d, cbid):
    def cbs(dd):
        return sorted([[key, [[cbid(f), bool(o)] for f, o in l]] for key, l in dd.items()])
    return dict(
        agents=[[agent_id(a), ad] for a, ad in d._agents_data.items()],
        comps=[[comp_id(c), agent_id(a)] for c, a in d._computations_data.items()],
        reps=sorted([[comp_id(r), sorted(agent_id(a) for a in s)] for r, s in d._replicas_data.items()]),
        acbs=cbs({agent_id(k): v for k, v in d._agent_cbs.items()}),
        ccbs=cbs({comp_id(k): v for k, v in d._computation_cbs.items()}),
        rcbs=cbs({comp_id(k): v for k, v in d._replicas_cbs.items()}),
        allcbs=[cbid(f) for f in d._all_agents_cbs])


def _subs(dd, keyf):
    out = []
    for k, s in dd.items():
        try:
            kk = keyf(k)
        except Exception:
            continue
        if s:
            out.append([kk, sorted(node_id(x) for x in s)])
    return sorted(out)


def _dir_state(directory):
    # the typo in Directory.unregister_agent stores computation subscriptions under computation names in
    # _subscription_agents; those entries are never read back (agent and computation names are disjoint here)
    def akey(k):
        if k != ORCH and not (k.startswith("a") and k[1:].isdigit()):
            raise ValueError(k)
        return agent_id(k)
    return dict(
        dagents=[[agent_id(a), ad] for a, ad in directory._agents_data.items()],
        dcomps=[[comp_id(c), agent_id(a)] for c, a in directory._computations_data.items()],
        sub_agents=_subs(directory._subscription_agents, akey),
        sub_comps=_subs(directory._subscription_computations, comp_id),
        sub_reps=_subs(directory._subscription_replicas, comp_id),
        sub_all=sorted(node_id(x) for x in directory._subscription_all_agents))


def _views(d):
    """(kind, item) -> value of one discovery: what the public accessors answer"""
    v = {}
    for a, ad in d._agents_data.items():
        v["A%d" % agent_id(a)] = ad
    for c, a in d._computations_data.items():
        v["C%d" % comp_id(c)] = agent_id(a)
    for r, s in d._replicas_data.items():
        for a in s:
            v["R%d:%d" % (comp_id(r), agent_id(a))] = 1
    return v


def _dir_views(directory):
    v = {}
    for a, ad in directory._agents_data.items():
        v["A%d" % agent_id(a)] = ad
    for c, a in directory._computations_data.items():
        v["C%d" % comp_id(c)] = agent_id(a)
    for r, s in directory.discovery._replicas_data.items():
        for a in s:
            v["R%d:%d" % (comp_id(r), agent_id(a))] = 1
    return v


def _dir_subscribed(directory, n, key):
    nm = node_name(n)
    if key[0] == "A":
        return (nm in directory._subscription_agents.get(agent_name(int(key[1:])), ())
                or nm in directory._subscription_all_agents)
    if key[0] == "C":
        return nm in directory._subscription_computations.get(comp_name(int(key[1:])), ())
    return nm in directory._subscription_replicas.get(comp_name(int(key[1:].split(":")[0])), ())


class _SubSnap:
    """copy of the directory's subscription sets (same attribute names, so _dir_subscribed works on it)"""

    def __init__(self, directory):
        self._subscription_agents = {k: set(v) for k, v in directory._subscription_agents.items()}
        self._subscription_computations = {k: set(v) for k, v in directory._subscription_computations.items()}
        self._subscription_replicas = {k: set(v) for k, v in directory._subscription_replicas.items()}
        self._subscription_all_agents = set(directory._subscription_all_agents)


def run_impl(c):
    import logging
    import random
    logging.disable(logging.CRITICAL)
    from pydcop.infrastructure.discovery import Discovery, Directory
    from harness.pydrv.netdriver import NetDriver
    na = c["n"]
    rng = random.Random(c["seed"])
    events = []          # callbacks and raises, in order: ["cb", node, cbid, kind, name, value] / ["raise", node, kind]
    cur = {"node": None}
    cbobjs = {}

    def mkcb(node, i):
        def f(kind, name, value, _n=node, _i=i):
            if kind.startswith("agent"):
                nm, val = agent_id(name), value
            else:
                nm, val = comp_id(name), (None if value is None else agent_id(value))
            events.append(["cb", _n, _i, CB_KINDS[kind], nm, val])
        f.cbid = i
        return f

    def cbf_for(node):
        def cbf(i):
            if i is None:
                return None
            if (node, i) not in cbobjs:
                cbobjs[(node, i)] = mkcb(node, i)
            return cbobjs[(node, i)]
        return cbf

    def cbid(f):
        return f.cbid

    dir_disc = Discovery(ORCH, addr_of(0))
    directory = Directory(dir_disc)
    dir_disc.use_directory(ORCH, addr_of(0))
    discs = {}
    comps = {"_directory": directory.directory_computation}
    for a in range(1, na + 1):
        d = Discovery(agent_name(a), addr_of(a))
        d.use_directory(ORCH, addr_of(0))
        discs[a] = d
        comps[node_name(a)] = _DiscNode(d, cbf_for(a))
        comps[node_name(-a)] = _Env(a, c["hist"][str(a)])
    names = ["_directory"] + [node_name(a) for a in range(1, na + 1)] + [node_name(-a) for a in range(1, na + 1)]
    drv = NetDriver(comps, names)
    # _discovery_orchestrator shares its state with the directory; it only ever sends to _directory
    dir_disc.discovery_computation.message_sender = drv._sender

    # -- property bookkeeping (independent of the model): what each subscriber should know
    expected = {}        # (node, key) -> value the directory last told / should have told the subscriber
    addr_unknown = []    # (node, computation): the directory had no address to answer / notify with
    addr_via_comp = []   # (node, agent): address learnt from a computation registration carrying an address
    cbmiss = []          # view changes at an agent that did not fire a registered callback
    treg = {}            # callbacks registered according to the HISTORY: (node, 'A'|'C'|'R', item) -> [[cb, one_shot]]
    keys_of = lambda *vs: set().union(*[set(v) for v in vs])

    def act(a):
        is_dir = a[0] == "D" and a[2] == "_directory"
        node = None if a[0] != "D" else node_id(a[2])
        if is_dir:
            dv0 = _dir_views(directory)
            sub0 = _SubSnap(directory)
            known0 = set(directory.discovery._computations_data)
        if node is not None and node > 0:
            d = discs[node]
            v0 = _views(d)
            head = drv.chans.get((a[1], a[2]), [None])
            head = head[0] if head else None
            is_sub_op = isinstance(head, list) and head[0].startswith(("sub_", "unsub_"))
            reg0 = dict(A={agent_id(k): [cbid(f) for f, _ in l] for k, l in d._agent_cbs.items()},
                        C={comp_id(k): [cbid(f) for f, _ in l] for k, l in d._computation_cbs.items()},
                        R={comp_id(k): [cbid(f) for f, _ in l] for k, l in d._replicas_cbs.items()},
                        all=[cbid(f) for f in d._all_agents_cbs])
        lens = {k: len(v) for k, v in drv.chans.items()}
        ne, nd = len(events), len(drv.events)
        hd = drv.chans.get((a[1], a[2])) if a[0] == "D" else None
        hd = hd[0] if hd else None
        wire = None if hd is None else (["op"] + hd if isinstance(hd, list) else _wire(hd))
        drv.do(a)
        raised = None
        for e in drv.events[nd:]:
            if e[0] == "raise":
                raised = e[2]
                events.append(["raise", node_id(e[1]), EXC_KINDS.get(e[2], 0), e[2], wire, node_id(a[1])])
                if e[2] not in EXC_KINDS:
                    raise RuntimeError("unexpected exception %s: %s" % (e[2], e[3]))
        if is_dir and wire is not None:
            # the directory could not tell: it lists the computation on an agent whose address it was never given
            if wire[0] == "sub_comp" and wire[2]:
                g = directory._computations_data.get(comp_name(wire[1]))
                if g is not None and g not in directory._agents_data:
                    addr_unknown.append([node_id(a[1]), "C%d" % wire[1]])
            if wire[0] == "sub_agent" and wire[1] == -1 and wire[2]:
                # the answer to '*' lists the agents of the directory's own Discovery object, which also holds
                # the addresses given with computation registrations (not in Directory._agents_data)
                for x in directory.discovery._agents_data:
                    if x != ORCH and x not in directory._agents_data:
                        for nm in directory._subscription_all_agents:
                            addr_via_comp.append([node_id(nm), "A%d" % agent_id(x)])
            if wire[0] == "pub_comp" and raised in ("UnknownAgent", "KeyError"):
                for nm in directory._subscription_computations.get(comp_name(wire[1]), ()):
                    addr_unknown.append([node_id(nm), "C%d" % wire[1]])
        # set iteration order of replica_agents() is hash dependent: one handler call emitting several
        # publish_replica messages to one subscriber -> canonical (sorted) order
        for k, ql in drv.chans.items():
            new = ql[lens.get(k, 0):]
            if len(new) >= 2 and all((not isinstance(m, list)) and m.type == "publish_replica" and m.publish for m in new):
                ql[lens.get(k, 0):] = sorted(new, key=lambda m: (m.replica, m.agent))
        if is_dir:
            dv1 = _dir_views(directory)
            for n in discs:
                for k in keys_of(dv0, dv1, [kk for (nn, kk) in expected if nn == n]):
                    s1 = _dir_subscribed(directory, n, k)
                    if not s1:
                        expected.pop((n, k), None)
                        continue
                    joined = not _dir_subscribed(sub0, n, k)
                    if dv0.get(k) != dv1.get(k):
                        expected[(n, k)] = dv1.get(k)
                    elif joined:
                        told = k in dv1
                        if k[0] == "R" and comp_name(int(k[1:].split(":")[0])) not in known0:
                            told = False     # replica_agents() raises for a computation the directory does not list
                        if told:
                            expected[(n, k)] = dv1[k]
                        else:
                            expected.pop((n, k), None)
        if node is not None and node > 0 and wire is not None and (wire[:2] == ["op", "reg_comp"] or wire[0] == "pub_comp"):
            v1 = _views(discs[node])
            for k in v1:
                if k[0] == "A" and k not in v0:
                    addr_via_comp.append([node, k])
        if node is not None and node > 0 and not is_sub_op:
            v1 = _views(discs[node])
            fired = [(e[3], e[4]) for e in events[ne:] if e[0] == "cb"]
            firedby = {}
            for e in events[ne:]:
                if e[0] == "cb":
                    firedby.setdefault((e[3], e[4], e[5]), []).append(e[2])
            for k in keys_of(v0, v1):
                if v0.get(k) == v1.get(k):
                    continue
                added = k in v1
                if k[0] == "A":
                    item = int(k[1:])
                    want = reg0["A"].get(item, []) + reg0["all"]
                    sig = (1, item, v1[k]) if added else (2, item, None)
                    got = firedby.get(sig, [])
                elif k[0] == "C":
                    item = int(k[1:])
                    want = reg0["C"].get(item, [])
                    got = [i for (kk, nm, _v), l in firedby.items() if kk == (3 if added else 4) and nm == item for i in l]
                else:
                    item, ag = [int(x) for x in k[1:].split(":")]
                    want = reg0["R"].get(item, [])
                    got = firedby.get((5 if added else 6, item, ag), [])
                hist_want = [x[0] for x in treg.get((node, k[0], item), [])]
                if k[0] == "A":
                    hist_want = hist_want + [x[0] for x in treg.get((node, "all", 0), [])]
                left = list(got)
                missing = [x for x in hist_want if not (x in left and (left.remove(x) or True))]
                if sorted(want) != sorted(got) or missing:
                    cbmiss.append(dict(node=node, key=k, old=v0.get(k), new=v1.get(k), registered=sorted(set(want + hist_want)),
                                       fired=got, action=a, nev=ne))
        if node is not None and node > 0:
            # callbacks registered according to the history of operations (docstrings of subscribe_* / unsubscribe_*)
            for e in events[ne:]:
                if e[0] == "cb":
                    l = treg.get((node, "ACR"[(e[3] - 1) // 2], e[4]), [])
                    if [e[2], True] in l:
                        l.remove([e[2], True])
            if wire is not None and wire[0] == "op":
                op = wire[1:]
                kind = {"agent": "A", "comp": "C", "rep": "R"}.get(op[0].split("_")[-1])
                if op[0] == "sub_all" and op[1] is not None:
                    treg.setdefault((node, "all", 0), []).append([op[1], False])
                elif op[0].startswith("sub_") and op[0] != "sub_all" and op[2] is not None:
                    treg.setdefault((node, kind, op[1]), []).append([op[2], bool(op[3])])
                elif op[0].startswith("unsub_") and raised != "ValueError":
                    l = treg.get((node, kind, op[1]), [])
                    l[:] = [x for x in l if op[2] is not None and x[0] != op[2]]
                elif op[0] == "unreg_comp" and raised is None and ("C%d" % op[1]) in v0:
                    treg.pop((node, "C", op[1]), None)

    # -- schedule: start everything, then interleave operations and deliveries
    for nm in names:
        act(["S", nm])
    for x in c.get("sched", []):
        x = [x[0], node_name(x[1]), node_name(x[2])]
        if x in drv.enabled():
            act(x)
    pol = c["policy"]
    steps = 0
    limit = c["steps"] if not c["drain"] else 100000
    while steps < limit:
        acts = [x for x in drv.enabled() if x[0] == "D"]
        if not acts:
            break
        opacts = [x for x in acts if x[1].startswith("env_")]
        netacts = [x for x in acts if not x[1].startswith("env_")]
        if pol == "ops_first" and opacts and rng.random() < 0.9:
            acts = opacts
        elif pol == "ops_last" and netacts and rng.random() < 0.9:
            acts = netacts
        elif pol == "newest" and netacts and rng.random() < 0.7:
            acts = netacts[-2:]
        elif pol == "drain" and drv.schedule and drv.schedule[-1] in acts and rng.random() < 0.85:
            acts = [drv.schedule[-1]]
        act(rng.choice(acts))
        steps += 1
    quiescent = not any(ql for ql in drv.chans.values())
    sched = [[x[0]] + [node_id(y) for y in x[1:]] for x in drv.schedule]
    inflight = []
    for (s, d), ql in sorted(drv.chans.items()):
        if ql and not s.startswith("env_"):
            inflight.append([node_id(s), node_id(d), [_wire(m) for m in ql]])
    pending_ops = {str(a): len(drv.chans.get((node_name(-a), node_name(a)), [])) for a in discs}
    # -- agreement of the views with the directory for what each agent is subscribed to
    dv = _dir_views(directory)
    disagree = []
    for (n, k), val in sorted(expected.items()):
        if not _dir_subscribed(directory, n, k):
            continue
        have = _views(discs[n]).get(k)
        if have != dv.get(k):
            disagree.append(dict(node=n, key=k, view=have, directory=dv.get(k)))
    local_not_dir = []
    for n, d in discs.items():
        for k in ["A%d" % agent_id(x) for x, l in d._agent_cbs.items() if l] + \
                 ["C%d" % comp_id(x) for x, l in d._computation_cbs.items() if l] + \
                 ["R%d:0" % comp_id(x) for x, l in d._replicas_cbs.items() if l]:
            if not _dir_subscribed(directory, n, k):
                local_not_dir.append([n, k.split(":")[0]])
    return dict(sched=sched, events=events, quiescent=quiescent, inflight=inflight, pending_ops=pending_ops,
                final={str(n): _disc_state(d, cbid) for n, d in discs.items()},
                dir=dict(_dir_state(directory), disc=_disc_state(dir_disc, cbid)),
                disagree=disagree, cbmiss=cbmiss, addr_unknown=addr_unknown, addr_via_comp=addr_via_comp, local_not_dir=local_not_dir,
                expected=[[n, k, v] for (n, k), v in sorted(expected.items())])


# ------------------------------------------------------------------ oracle
def oracle(c, o):
    """C20 on the observed run: (1) at quiescence every subscriber's view of an item equals the directory's
    whenever the directory changed the item while it was subscribed or knew it when it subscribed;
    (2) every view change at an agent fired each callback registered for the item; (3) an agent holding
    callbacks for an item is subscribed to it on the directory (unless it was un-registered as an agent)."""
    if o["cbmiss"]:
        m = o["cbmiss"][0]
        return "callback not fired: node %s item %s changed %r -> %r, registered %r fired %r" % (
            m["node"], m["key"], m["old"], m["new"], m["registered"], m["fired"])
    if not o["quiescent"]:
        return None
    if o["disagree"]:
        m = o["disagree"][0]
        return "views disagree at quiescence: node %s item %s view %r directory %r" % (
            m["node"], m["key"], m["view"], m["directory"])
    unreg = {op[1] for ops in c["hist"].values() for op in ops if op[0] == "unreg_agent"}
    for n, k in o["local_not_dir"]:
        if n not in unreg:
            return "node %s holds callbacks for %s but is not subscribed on the directory" % (n, k)
    return None


def classify(c, o, msg):
    """known findings: precise predicates on the first disagreement the oracle reported"""
    if not msg.startswith("views disagree") or not o.get("disagree"):
        return None
    m = o["disagree"][0]
    n, key = m["node"], m["key"]
    raises = [e for e in o["events"] if e[0] == "raise" and e[1] == n and e[4] is not None]
    if key[0] == "C":
        cid = int(key[1:])
        if [n, key] in o["addr_unknown"]:
            return "C20-dir-unknown-agent-address"
        if m["view"] is not None and any(e[2] == 4 and e[4][0] == "unpub_comp" and e[4][1] == cid for e in raises):
            return "C20-unpublish-agent-mismatch"
    if key[0] == "A" and m["view"] is not None and m["directory"] is None and [n, key] in o["addr_via_comp"]:
        return "C20-dir-unknown-agent-address"
    if key[0] == "A" and m["view"] != m["directory"] and m["directory"] is not None and any(
            e[0] == "raise" and e[1] == 0 and e[2] == 1 and e[4] == ["unpub_agent", int(key[1:])] and e[5] == n
            for e in o["events"]):
        return "C20-unregister-agent-refused"
    if key[0] == "R":
        r, a = [int(x) for x in key[1:].split(":")]
        if m["view"] is None and any(e[2] == 3 and e[4][:4] == ["pub_rep", r, a, True] for e in raises):
            return "C20-replica-of-unknown-computation"
    return None


# ------------------------------------------------------------------ Gallina
def _oz(x):
    return q.opt(x, q.z)


def _op(o):
    k = o[0]
    if k == "reg_agent":
        return "OpRegAgent %s %s" % (q.z(o[1]), q.z(o[2]))
    if k == "unreg_agent":
        return "OpUnregAgent %s" % q.z(o[1])
    if k == "reg_comp":
        return "OpRegComp %s %s %s" % (q.z(o[1]), _oz(o[2]), _oz(o[3]))
    if k == "unreg_comp":
        return "OpUnregComp %s %s" % (q.z(o[1]), _oz(o[2]))
    if k == "reg_rep":
        return "OpRegRep %s %s" % (q.z(o[1]), q.z(o[2]))
    if k == "unreg_rep":
        return "OpUnregRep %s %s" % (q.z(o[1]), q.z(o[2]))
    if k == "sub_all":
        return "OpSubAll %s" % _oz(o[1])
    con = {"sub_agent": "OpSubAgent", "sub_comp": "OpSubComp", "sub_rep": "OpSubRep",
           "unsub_agent": "OpUnsubAgent", "unsub_comp": "OpUnsubComp", "unsub_rep": "OpUnsubRep"}[k]
    if k.startswith("sub_"):
        return "%s %s %s %s" % (con, q.z(o[1]), _oz(o[2]), q.b(o[3]))
    return "%s %s %s" % (con, q.z(o[1]), _oz(o[2]))


def _msg(m):
    k = m[0]
    if k == "pub_agent":
        return "MPubAgent %s %s" % (q.z(m[1]), q.z(m[2]))
    if k == "pub_agents":
        return "MPubAgents %s" % q.zzdict(m[1])
    if k == "unpub_agent":
        return "MUnpubAgent %s" % q.z(m[1])
    if k == "sub_agent":
        return "MSubAgent %s %s" % (q.z(m[1]), q.b(m[2]))
    if k == "pub_comp":
        return "MPubComp %s %s %s" % (q.z(m[1]), q.z(m[2]), _oz(m[3]))
    if k == "unpub_comp":
        return "MUnpubComp %s %s" % (q.z(m[1]), _oz(m[2]))
    if k == "sub_comp":
        return "MSubComp %s %s" % (q.z(m[1]), q.b(m[2]))
    if k == "pub_rep":
        return "MPubRep %s %s %s" % (q.z(m[1]), q.z(m[2]), q.b(m[3]))
    if k == "sub_rep":
        return "MSubRep %s %s" % (q.z(m[1]), q.b(m[2]))
    raise ValueError(k)


def _cbs(l):
    return q.lst([q.pair(q.z(k), q.lst([q.pair(q.z(f), q.b(o)) for f, o in v])) for k, v in l])


def _zl(l):
    return q.lst([q.pair(q.z(k), q.zlist(v)) for k, v in l])


def _dstate(own, d):
    return "(mkD %s %s %s %s %s %s %s %s)" % (q.z(own), q.zzdict(d["agents"]), q.zzdict(d["comps"]), _zl(d["reps"]),
                                              _cbs(d["acbs"]), _cbs(d["ccbs"]), _cbs(d["rcbs"]), q.zlist(d["allcbs"]))


def coq_case(c, o):
    na = c["n"]
    hist = q.lst([q.pair(q.z(a), q.lst([_op(x) for x in c["hist"][str(a)]])) for a in range(1, na + 1)])
    sched = q.lst(["Start %s" % q.z(a[1]) if a[0] == "S" else "Deliver %s %s" % (q.z(a[1]), q.z(a[2]))
                   for a in o["sched"]])
    evs = []
    for e in o["events"]:
        if e[0] == "cb":
            evs.append("EvCb %s %s %s %s %s" % (q.z(e[1]), q.z(e[2]), q.z(e[3]), q.z(e[4]), _oz(e[5])))
        else:
            evs.append("EvRaise %s %s" % (q.z(e[1]), q.z(e[2])))
    final = q.lst([q.pair(q.z(a), _dstate(a, o["final"][str(a)])) for a in range(1, na + 1)])
    g = o["dir"]
    dirst = "(mkDir %s %s %s %s %s %s)" % (q.zzdict(g["dagents"]), q.zzdict(g["dcomps"]), _zl(g["sub_agents"]),
                                           _zl(g["sub_comps"]), _zl(g["sub_reps"]), q.zlist(g["sub_all"]))
    infl = {(s, d): l for s, d, l in o["inflight"]}
    chans = q.lst(["(%s, %s, %s)" % (q.z(s), q.z(d), q.lst([_msg(m) for m in infl.get((s, d), [])]))
                   for s in range(0, na + 1) for d in range(0, na + 1)])
    pend = q.lst([q.pair(q.z(a), q.z(o["pending_ops"][str(a)])) for a in range(1, na + 1)])
    return "mkCase %s %s %s %s %s %s %s %s" % (hist, sched, q.lst(evs), final, _dstate(0, g["disc"]), dirst, chans, pend)


def nontrivial(c, o):
    return any(e[0] == "cb" for e in o.get("events", [])) and bool(o.get("expected"))


def histogram(cases, obs):
    h = {"quiescent": 0, "cb_events": 0, "raises": 0, "expected_pairs": 0, "sched_len": 0}
    for c, o in zip(cases, obs):
        if "events" not in o:
            continue
        h["quiescent"] += 1 if o["quiescent"] else 0
        h["cb_events"] += sum(1 for e in o["events"] if e[0] == "cb")
        h["raises"] += sum(1 for e in o["events"] if e[0] == "raise")
        h["expected_pairs"] += len(o["expected"])
        h["sched_len"] += len(o["sched"])
    return h
