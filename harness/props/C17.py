"""C17 -- the pseudo-tree is a valid DFS forest for every constraint graph."""
import sys

from harness import coqio as q

ID = "C17"
COQ_REQUIRE = ["M_PseudoTree", "M_PseudoTree2"]
COQ_CASE_TYPE = "M_PseudoTree.case"
COQ_CHECK = "M_PseudoTree2.check_case2"   # check_case && wf_graphb (hypothesis of build_valid)
OBLIGATIONS = ["pt_check_sound", "pt_valid_ancestral", "pt_valid_order", "pt_valid_rooted",
               "pt_valid_wf", "pt_valid_scope_chain", "pt_constraints_exact",
               "pt_nodes_partial", "pt_links_partial",
               "build_valid", "build_no_fuel_exhaustion", "pt_nodes", "pt_links_converse",
               "pt_acyclic", "pt_edges_ancestral", "pt_roots", "wf_graphb_sound", "build_needs_wf_refuted",
               "build_parent_shares_constraint", "build_pp_shares_constraint"]
N_QUICK, N_THOROUGH = 500, 5000
PARALLEL = 8
SHARD = 80
RULE = ("seeded random constraint graphs given to the real build_computation_graph through a DCOP "
        "object or as variables/constraints lists: sparse/dense random binary graphs, trees, cliques, "
        "stars, rings, grids, disconnected unions, n-ary (arity 1-5) hypergraphs, isolated variables, "
        "no constraint at all, 1-22 variables, shuffled variable and constraint order, plus long "
        "structures (chains, rings, caterpillars, grids, deep trees, wide stars) of 200-3000 variables; "
        "scopes may also contain external (read-only) variables, which are not nodes (lists / DCOP "
        "constructor + external_variables / yaml loader paths); the Iterable arguments are given as list, "
        "tuple, generator, iter/filter/map object or dict view; a quarter of the cases build the same "
        "problem twice in the process and compare, and check that the caller's objects are untouched; "
        "non-trivial = at least one constraint with >= 2 decision variables; distinct = distinct case JSON")
MODELLED = ("the whole builder (neighbour derivation, both stable re-sorts, root choice, token-passing "
            "DFS, forest loop, preorder node listing) is an executable Gallina model compared node by "
            "node and in list order with the real graph.  THEOREMS about that model, for every "
            "well-formed graph of any size (distinct variables, no constraint lists a variable twice, "
            "constraints range over the variables): it never exhausts its recursion fuel and its result "
            "is PT_valid -- one node per variable, converse and repeat-free links, no cycle, every "
            "constraint-sharing pair in ancestor/descendant relation and linked by a tree or back edge, "
            "exact constraints, roots = parentless nodes (build_valid, pt_nodes, pt_links_converse, "
            "pt_acyclic, pt_edges_ancestral, pt_roots, pt_constraints_exact).  Independently the validity "
            "checker pt_check is proved sound w.r.t. PT_valid and evaluated inside Coq on every tree the "
            "real builder returns (<= 400 variables), and the executable wf_graphb (proved to imply the "
            "theorems' hypothesis) is evaluated on every graph handed to the real builder.  'Never "
            "crashes' of CPython (stack/time) is checked only by running the real code on long structures")
META = dict(
    level_text=("Proof (Coq), all graphs and all sizes, that the executable model of the pseudo-tree "
                "builder (token-passing DFS of handle_token/_propagate, forest loop, node listing) "
                "terminates within its recursion fuel and returns a valid DFS forest: one node per "
                "variable, converse parent/children and pseudo-parent/pseudo-children links, no cycle, "
                "every constraint-sharing pair linked by a tree or back edge to an ancestor, exact "
                "constraints, roots = parentless nodes (Hoare-style contract over the traversal: "
                "visited set, token = root-to-node path, every edge of a finished node has carried the "
                "token).  The model is compared node by node with the real builder on generated graphs; "
                "in addition a checker pt_check, proved sound for the same statement, is evaluated in "
                "Coq on every tree the real builder returns."),
    level_note=("The theorems are about the Gallina model (tied to the code by the differential run) and "
                "assume a well-formed constraint graph (distinct variables; a constraint does not list a "
                "variable twice and ranges over the problem's variables) -- evaluated on every generated "
                "input; build_needs_wf_refuted shows the assumption is necessary (real code: ValueError). "
                "Absence of crashes (recursion depth, time) is a property of CPython, exercised by the "
                "driver on structures up to 3000 variables. Trusted: Coq kernel/vm_compute, "
                "M_PseudoTree.v, harness."),
    technique=("Coq proof of DFS correctness of an executable Gallina model (invariant over the explicit "
               "token traversal) + Coq-verified result checker + differential correspondence run"),
    design_ref="DESIGN.md §5 C17",
)

BIG_COQ_CHECK = 400     # largest tree passed through pt_check inside Coq
BIG_COQ_BUILD = 220     # largest graph on which the Gallina builder is run (quick tier; thorough: 400)


# ---------------------------------------------------------------- generators
def _rand_tree_edges(rng, ids):
    e = []
    for i in range(1, len(ids)):
        e.append([ids[rng.randrange(i)], ids[i]])
    return e


def _small(rng):
    kind = rng.choice(["sparse", "sparse", "dense", "tree", "clique", "star", "ring", "grid", "union",
                       "nary", "nary", "mixed", "empty", "unary", "chain", "union_ext", "union_ext"])
    n = rng.randint(2, 22) if rng.random() < 0.9 else rng.randint(1, 5)
    ids = list(range(n))
    sc = []
    if kind == "sparse":
        m = rng.randint(0, max(0, 2 * n))
        for _ in range(m):
            if n >= 2:
                sc.append(rng.sample(ids, 2))
    elif kind == "dense":
        n = min(n, 10); ids = list(range(n))
        p = rng.choice([0.4, 0.6, 0.8])
        sc = [[a, b] for a in ids for b in ids if a < b and rng.random() < p]
    elif kind == "tree":
        sc = _rand_tree_edges(rng, ids)
    elif kind == "clique":
        n = min(n, 8); ids = list(range(n))
        sc = [[a, b] for a in ids for b in ids if a < b]
    elif kind == "star":
        sc = [[ids[0], a] for a in ids[1:]]
    elif kind == "chain":
        sc = [[ids[i], ids[i + 1]] for i in range(n - 1)]
    elif kind == "ring":
        sc = [[ids[i], ids[(i + 1) % n]] for i in range(n)] if n >= 3 else []
    elif kind == "grid":
        w = rng.randint(1, 4); h = rng.randint(1, 5); n = w * h; ids = list(range(n))
        for x in range(w):
            for y in range(h):
                if x + 1 < w: sc.append([x * h + y, (x + 1) * h + y])
                if y + 1 < h: sc.append([x * h + y, x * h + y + 1])
    elif kind in ("union", "union_ext"):
        k = rng.randint(2, 4)
        parts = [[] for _ in range(k)]
        for i in ids:
            parts[rng.randrange(k)].append(i)
        for p in parts:
            sc += _rand_tree_edges(rng, p)
            for _ in range(rng.randint(0, 3)):
                if len(p) >= 2: sc.append(rng.sample(p, 2))
    elif kind in ("nary", "mixed"):
        m = rng.randint(1, max(1, n))
        for _ in range(m):
            hi = min(n, 5 if kind == "nary" else 3)
            ar = rng.randint(1, hi)
            sc.append(rng.sample(ids, ar))
    elif kind == "unary":
        sc = [[rng.choice(ids)] for _ in range(rng.randint(1, 4))]
        if n >= 2 and rng.random() < 0.5:
            sc.append(rng.sample(ids, 2))
    # random flips / repeats of the same scope (two constraints on the same pair)
    sc = [list(s) if rng.random() < 0.5 else list(reversed(s)) for s in sc]
    if sc and rng.random() < 0.25:
        sc.append(list(rng.choice(sc)))
    rng.shuffle(sc)
    # rename: ids are positions in a shuffled order so that name order != input order
    perm = ids[:]
    if rng.random() < 0.7:
        rng.shuffle(perm)
    sc = [[perm[i] for i in s] for s in sc]
    order = list(range(n))
    rng.shuffle(order)
    c = dict(kind=kind, n=n, order=order, scopes=sc,
             api=rng.choice(["dcop", "dcop_pre", "lists", "lists", "dcop_ctor"]),
             ctype=rng.choice(["fun", "matrix", "expr"]))
    # external (read-only) variables: ids >= n inside scopes; they are not variables of the graph
    if sc and (kind == "union_ext" or rng.random() < 0.12):
        next_ = rng.randint(1, 2)
        p = rng.choice([0.3, 0.6, 1.0])
        for s_ in sc:
            if rng.random() < p and len(s_) <= 4:
                s_.insert(rng.randint(0, len(s_)), n + rng.randrange(next_))
        c["api"] = rng.choice(["lists", "dcop_ctor", "yaml"])
    if c["api"] == "lists":
        # how the caller hands over the two Iterable arguments
        c["citer"] = rng.choice(["list", "list", "tuple", "gen", "iter", "filter", "map", "dictvalues"])
        c["viter"] = rng.choice(["list", "list", "tuple", "gen", "dictvalues"])
    if rng.random() < 0.25:
        c["twice"] = True          # a second build of the same problem in the same process
    return c


def _big(rng, tier, i):
    kind = ["chain", "ring", "caterpillar", "grid", "deeptree", "widestar", "chain_nary"][i % 7]
    top = 3000 if tier == "thorough" else 1500
    n = rng.choice([200, 350, 520, 700, 1000, top])
    if i < 2:
        n = top
    sc = []
    if kind == "chain":
        sc = [[i, i + 1] for i in range(n - 1)]
    elif kind == "ring":
        sc = [[i, (i + 1) % n] for i in range(n)]
    elif kind == "caterpillar":
        spine = n // 2
        sc = [[i, i + 1] for i in range(spine - 1)] + [[rng.randrange(spine), j] for j in range(spine, n)]
    elif kind == "grid":
        w = max(2, int(n ** 0.5) // 2); h = w; n = w * h
        for x in range(w):
            for y in range(h):
                if x + 1 < w: sc.append([x * h + y, (x + 1) * h + y])
                if y + 1 < h: sc.append([x * h + y, x * h + y + 1])
    elif kind == "deeptree":
        # random tree biased to depth: attach to one of the last 3 nodes
        sc = [[rng.randrange(max(0, j - 3), j), j] for j in range(1, n)]
    elif kind == "widestar":
        sc = [[0, j] for j in range(1, n)]
    elif kind == "chain_nary":
        sc = [[i, i + 1, i + 2] for i in range(0, n - 2, 2)]
    order = list(range(n))
    if rng.random() < 0.5:
        rng.shuffle(sc)
    return dict(kind="big_" + kind, n=n, order=order, scopes=sc, api="lists", ctype="fun",
                model_build_max=BIG_COQ_CHECK if tier == "thorough" else BIG_COQ_BUILD)


def gen(rng, n, tier):
    nbig = 10 if tier == "quick" else 40
    big = [_big(rng, tier, i) for i in range(nbig)]
    # fixed small corner cases
    cases = [
        dict(kind="fixed", n=1, order=[0], scopes=[], api="dcop_pre", ctype="fun"),
        dict(kind="fixed", n=1, order=[0], scopes=[[0]], api="dcop", ctype="fun"),
        dict(kind="fixed", n=2, order=[0, 1], scopes=[], api="lists", ctype="fun"),
        dict(kind="fixed", n=3, order=[0, 1, 2], scopes=[[0, 1], [1, 2], [0, 2]], api="dcop", ctype="matrix"),
        dict(kind="fixed", n=4, order=[3, 1, 0, 2], scopes=[[0, 1, 2, 3]], api="lists", ctype="fun"),
    ]
    while len(cases) + len(big) < n:
        cases.append(_small(rng))
    # long structures last: the first failing case (the one that is shrunk and written to the
    # replay file) is then a small one whenever a small one fails
    return cases + big


# ---------------------------------------------------------------- implementation driver
def _vname(i):
    return "v%05d" % i


def _build_inputs(c):
    from pydcop.dcop.objects import Variable, Domain, ExternalVariable
    from pydcop.dcop.relations import NAryFunctionRelation, NAryMatrixRelation, constraint_from_str
    dom = Domain("d", "d", [0, 1])
    vs = {i: Variable(_vname(i), dom) for i in range(c["n"])}
    for sc in c["scopes"]:
        for i in sc:
            if i >= c["n"] and i not in vs:
                vs[i] = ExternalVariable(_vname(i), dom, 0)
    cons = []
    for k, sc in enumerate(c["scopes"]):
        name = "c%05d" % k
        dims = [vs[i] for i in sc]
        ct = c["ctype"]
        if ct == "matrix" and len(sc) <= 3:
            cons.append(NAryMatrixRelation(dims, name=name))
        elif ct == "expr" and len(sc) <= 4:
            expr = " + ".join(_vname(i) for i in sc)
            cons.append(constraint_from_str(name, expr, dims))
        else:
            cons.append(NAryFunctionRelation(lambda *a: 0, dims, name=name))
    return vs, cons


def _id(name):
    return int(name[1:])


def _iterable(kind, items, names):
    if kind == "tuple":
        return tuple(items)
    if kind == "gen":
        return (x for x in items)
    if kind == "iter":
        return iter(list(items))
    if kind == "filter":
        return filter(lambda x: True, list(items))
    if kind == "map":
        return map(lambda x: x, list(items))
    if kind == "dictvalues":
        return dict(zip(names, items)).values()
    return list(items)


def _yaml(c, vs):
    ext = sorted(i for i in vs if i >= c["n"])
    L = ["name: t", "objective: min", "domains:", "  d:", "    values: [0, 1]", "variables:"]
    for i in c["order"]:
        L.append("  %s: {domain: d}" % _vname(i))
    if not c["order"]:
        L[-1] = "variables: {}"
    if ext:
        L.append("external_variables:")
        for i in ext:
            L.append("  %s: {domain: d, initial_value: 0}" % _vname(i))
    L.append("constraints:" if c["scopes"] else "constraints: {}")
    for k, sc in enumerate(c["scopes"]):
        L.append("  c%05d:" % k)
        L.append("    type: intention")
        L.append("    function: %s" % " + ".join(_vname(i) for i in sc))
    L.append("agents: [a1]")
    return "\n".join(L) + "\n"


def _observe(pt, g, cid):
    roots = [_id(r.name) for r in g.roots]
    nodes = []
    for node in g.nodes:
        parent, pps, children, pcs = pt.get_dfs_relations(node)
        nodes.append(dict(
            id=_id(node.name), var=_id(node.variable.name),
            parent=None if parent is None else _id(parent),
            children=[_id(x) for x in children], pps=[_id(x) for x in pps], pcs=[_id(x) for x in pcs],
            rels=[cid[k.name] for k in node.constraints],
            neighbors=sorted(_id(x) for x in node.neighbors),
            nlinks=len(list(node.links)),
            linkbad=sum(1 for l in node.links if l.source != node.name)))
    return roots, nodes


def run_impl(c):
    from pydcop.dcop.dcop import DCOP
    from pydcop.computations_graph import pseudotree as pt
    vs, cons = _build_inputs(c)
    api = c["api"]
    ext = {vs[i].name: vs[i] for i in vs if i >= c["n"]}
    if api == "lists":
        variables = [vs[i] for i in c["order"]]
        constraints = list(cons)

        def mkargs():
            return dict(dcop=None,
                        variables=_iterable(c.get("viter", "list"), variables, [v.name for v in variables]),
                        constraints=_iterable(c.get("citer", "list"), constraints,
                                              [k.name for k in constraints]))
    else:
        if api == "yaml":
            from pydcop.dcop.yamldcop import load_dcop
            dcop = load_dcop(_yaml(c, vs))
        elif api == "dcop_ctor":
            dcop = DCOP("t", "min", variables={vs[i].name: vs[i] for i in c["order"]},
                        constraints={k.name: k for k in cons})
            dcop.external_variables = dict(ext)
        else:
            dcop = DCOP("t", "min")
            if api == "dcop_pre":
                for i in c["order"]:
                    dcop.add_variable(vs[i])
            for k in cons:
                dcop.add_constraint(k)
            for i in c["order"]:
                if vs[i].name not in dcop.variables:
                    dcop.add_variable(vs[i])
        variables = list(dcop.variables.values())
        constraints = list(dcop.constraints.values())

        def mkargs():
            return dict(dcop=dcop)
    obs = dict(vars=[_id(v.name) for v in variables],
               scopes=[[_id(v.name) for v in k.dimensions] for k in constraints])
    cid = {k.name: j for j, k in enumerate(constraints)}
    old = sys.getrecursionlimit()
    try:
        sys.setrecursionlimit(1000)      # CPython's default: what a user of the library gets
        a1 = mkargs()
        keep = {k: (list(v) if isinstance(v, list) else None) for k, v in a1.items()}
        g = pt.build_computation_graph(**a1)
        obs["roots"], obs["nodes"] = _observe(pt, g, cid)
        # the caller's objects are left as they were
        changed = [k for k, v in a1.items() if isinstance(v, list) and v != keep[k]]
        if api != "lists":
            if [_id(v.name) for v in dcop.variables.values()] != obs["vars"] or \
               [k.name for k in dcop.constraints.values()] != [k.name for k in constraints]:
                changed.append("dcop")
        if changed:
            obs["inputs_changed"] = changed
        if c.get("twice"):
            g2 = pt.build_computation_graph(**mkargs())
            r2, n2 = _observe(pt, g2, cid)
            if r2 != obs["roots"] or n2 != obs["nodes"]:
                obs["second_differs"] = True
    except RecursionError:
        obs["error"] = "RecursionError"
        return obs
    except Exception as e:
        obs["error"] = type(e).__name__
        return obs
    finally:
        sys.setrecursionlimit(old)
    return obs


# ---------------------------------------------------------------- independent oracle
def oracle(c, o):
    if "error" in o:
        return "build_computation_graph raised %s (%s, %d variables)" % (o["error"], c["kind"], c["n"])
    vars_, nodes = o["vars"], o["nodes"]
    if sorted(vars_) != list(range(c["n"])):
        return "driver: variable list is not the generated one"
    if [sorted(s) for s in o["scopes"]] != [sorted(s) for s in c["scopes"]]:
        return "driver: the constraints handed to the builder do not have the generated scopes"
    # ground truth = the generated constraint graph over the decision variables (ids < n);
    # ids >= n are external variables: no node, no edge
    scopes = [[v for v in sc if v < c["n"]] for sc in c["scopes"]]
    if o.get("inputs_changed"):
        return "build_computation_graph modified the caller's %s" % ", ".join(o["inputs_changed"])
    if o.get("second_differs"):
        return "a second build of the same problem in the same process returns a different graph"
    ids = [x["id"] for x in nodes]
    if sorted(ids) != sorted(vars_):
        return "nodes %r are not one per variable %r" % (sorted(ids)[:10], sorted(vars_)[:10])
    by = {x["id"]: x for x in nodes}
    for x in nodes:
        if x["var"] != x["id"]:
            return "node %d holds variable %d" % (x["id"], x["var"])
        for fld in ("children", "pps", "pcs", "rels"):
            if len(set(x[fld])) != len(x[fld]):
                return "node %d: repeated entry in %s %r" % (x["id"], fld, x[fld])
        for y in x["children"] + x["pps"] + x["pcs"] + ([] if x["parent"] is None else [x["parent"]]):
            if y not in by:
                return "node %d links to unknown node %r" % (x["id"], y)
        if x["parent"] is not None and x["id"] not in by[x["parent"]]["children"]:
            return "node %d has parent %d but is not among its children" % (x["id"], x["parent"])
        for ch in x["children"]:
            if by[ch]["parent"] != x["id"]:
                return "node %d lists child %d whose parent is %r" % (x["id"], ch, by[ch]["parent"])
        for p in x["pps"]:
            if x["id"] not in by[p]["pcs"]:
                return "node %d has pseudo-parent %d without the converse pseudo-child link" % (x["id"], p)
        for p in x["pcs"]:
            if x["id"] not in by[p]["pps"]:
                return "node %d has pseudo-child %d without the converse pseudo-parent link" % (x["id"], p)
        allnb = set(x["children"]) | set(x["pps"]) | set(x["pcs"]) | ({x["parent"]} - {None})
        if sorted(allnb) != x["neighbors"]:
            return "node %d: neighbors %r differ from its links %r" % (x["id"], x["neighbors"], sorted(allnb))
        if x["nlinks"] != len(x["children"]) + len(x["pps"]) + len(x["pcs"]) + (x["parent"] is not None) \
                or x["linkbad"]:
            return "node %d: links not all read back by get_dfs_relations" % x["id"]
        want = [k for k, sc in enumerate(scopes) if x["id"] in sc]
        if sorted(x["rels"]) != want:
            return "node %d carries constraints %r, the constraints on its variable are %r" % (
                x["id"], sorted(x["rels"]), want)
    # forest: walk down from the roots (iteratively), every node reached exactly once
    roots = [x["id"] for x in nodes if x["parent"] is None]
    if sorted(roots) != sorted(o["roots"]):
        return "roots %r differ from parentless nodes %r" % (o["roots"], roots)
    depth, path_anc = {}, {}
    tin, tout, clock = {}, {}, 0
    for r in roots:
        stack = [(r, 0, iter(by[r]["children"]))]
        if r in depth:
            return "cycle: root %d reached twice" % r
        depth[r] = 0; tin[r] = clock; clock += 1
        while stack:
            node, d, it = stack[-1]
            nxt = next(it, None)
            if nxt is None:
                tout[node] = clock; clock += 1
                stack.pop()
                continue
            if nxt in depth:
                return "cycle or shared child: node %d reached twice" % nxt
            depth[nxt] = d + 1; tin[nxt] = clock; clock += 1
            stack.append((nxt, d + 1, iter(by[nxt]["children"])))
    if len(depth) != len(nodes):
        return "nodes %r not reachable from any root (cycle)" % sorted(set(ids) - set(depth))[:10]

    def is_anc(a, b):      # a proper ancestor of b
        return a != b and tin[a] < tin[b] and tout[b] < tout[a]
    for x in nodes:
        for p in x["pps"]:
            if not is_anc(p, x["id"]):
                return "pseudo-parent %d of %d is not an ancestor" % (p, x["id"])
            if p == x["parent"]:
                return "node %d: parent %d also listed as pseudo-parent" % (x["id"], p)
    graph_edges = set()
    for sc in scopes:
        for a in sc:
            for b in sc:
                if a < b:
                    graph_edges.add((a, b))
    for a, b in sorted(graph_edges):
        if not (is_anc(a, b) or is_anc(b, a)):
            return "variables %d and %d share a constraint but neither is an ancestor of the other" % (a, b)
        lo, hi = (a, b) if is_anc(a, b) else (b, a)      # lo is the ancestor
        if not (by[hi]["parent"] == lo or lo in by[hi]["pps"]):
            return "variables %d and %d share a constraint but are linked by no tree or back edge" % (a, b)
    # a DFS forest of the constraint graph: every tree / back edge is an edge of the graph
    for x in nodes:
        for y in x["pps"] + ([] if x["parent"] is None else [x["parent"]]):
            if (min(x["id"], y), max(x["id"], y)) not in graph_edges:
                return "link %d -> %d joins variables that share no constraint" % (x["id"], y)
    return None


# ---------------------------------------------------------------- Gallina printer
def _node_term(x):
    return "(mkNode %s %s %s %s %s %s)" % (
        q.z(x["id"]), q.opt(x["parent"], q.z), q.zlist(x["children"]), q.zlist(x["pps"]),
        q.zlist(x["pcs"]), q.zlist(x["rels"]))


def coq_case(c, o):
    if "error" in o or c["n"] > BIG_COQ_CHECK:
        return None
    return "(mkCase (mkGraph %s %s) %s %s %s)" % (
        q.zlist(o["vars"]), q.lst([q.zlist([v for v in s if v < c["n"]]) for s in o["scopes"]]),
        q.zlist(o["roots"]), q.lst([_node_term(x) for x in o["nodes"]]),
        q.b(c["n"] <= c.get("model_build_max", BIG_COQ_BUILD)))


def nontrivial(c, o):
    return any(len(set(v for v in s if v < c["n"])) >= 2 for s in c["scopes"])


def histogram(cases, obs):
    h = {}
    for c, o in zip(cases, obs):
        k = c["kind"]
        h[k] = h.get(k, 0) + 1
        for tag in (["external"] if any(v >= c["n"] for s in c["scopes"] for v in s) else []) + \
                (["citer:" + c["citer"]] if c.get("citer", "list") != "list" else []) + \
                (["twice"] if c.get("twice") else []) + ["api:" + c["api"]]:
            h[tag] = h.get(tag, 0) + 1
        b = "n<=5" if c["n"] <= 5 else "n<=12" if c["n"] <= 12 else "n<=22" if c["n"] <= 22 else \
            "n<=400" if c["n"] <= 400 else "n>400"
        h[b] = h.get(b, 0) + 1
        if isinstance(o, dict) and "nodes" in o:
            if any(x["pps"] for x in o["nodes"]):
                h["has_back_edge"] = h.get("has_back_edge", 0) + 1
            if len(o["roots"]) > 1:
                h["forest>1"] = h.get("forest>1", 0) + 1
        if isinstance(o, dict) and "error" in o:
            h["error:" + o["error"]] = h.get("error:" + o["error"], 0) + 1
    return h


def classify(c, o, msg):
    return None


def shrink_candidates(c):
    sc = c["scopes"]
    for i in range(len(sc)):
        d = dict(c); d["scopes"] = sc[:i] + sc[i + 1:]; yield d
    if c["n"] > 1:
        last = c["n"] - 1
        d = dict(c); d["n"] = last
        d["order"] = [i for i in c["order"] if i != last]
        d["scopes"] = [s for s in sc if last not in s]
        yield d
