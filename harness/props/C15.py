"""C15 -- everything sent between agents survives the wire (simple_repr -> JSON -> from_repr)
and process spawn (AgentDef pickling)."""
import collections
import itertools
import json
import random

from harness import coqio as q

ID = "C15"
COQ_REQUIRE = ["M_Repr"]
COQ_CASE_TYPE = "M_Repr.case"
COQ_CHECK = "M_Repr.check_case"
OBLIGATIONS = [
    "generic_roundtrip_partial", "roundtrip_pseudotree_link", "roundtrip_order_link",
    "roundtrip_factor_graph_link", "agentdef_pickle_roundtrip", "agentdef_pickle_keeps_costs",
    "int_keyed_dict_refuted", "set_refuted", "namedtuple_nested_refuted",
    "mgm2_fake_offer_drops_offers_refuted", "nonfinite_float_refuted",
    "tuple_and_namedtuple_survive", "maxsum_int_keys_survive", "mgm2_offer_survives",
    # deepening (P_Repr2/3/4.v)
    "int_of_str_of_int", "sort_increasing_is_identity", "generic_roundtrip", "wf_extends_safe",
    "roundtrip_tuple", "roundtrip_maxsum_message", "roundtrip_mgm2_offer_message",
    "roundtrip_algorithm_def", "roundtrip_expression_function", "roundtrip_agentdef_wire",
    "agentdef_wire_keeps_costs", "roundtrip_variable_with_cost_dict", "roundtrip_ordered_node",
    "roundtrip_constraint_link", "roundtrip_domain", "roundtrip_computation_def_pseudotree",
    "roundtrip_computation_def_factor_graph", "roundtrip_computation_def_hypergraph",
    "roundtrip_computation_def_ordered_graph", "colliding_keys_refuted",
]
N_QUICK, N_THOROUGH = 200, 2500
PARALLEL = 8
SHARD = 40
RULE = ("seeded mix of: (tree) random python value trees over None/bool/int/float/str/list/tuple (up to 13 items)/"
        "set/dict/namedtuple/SimpleRepr test classes/message_type messages, wire-safe and unsafe; "
        "(custom) the classes with a hand written repr with generated contents; (agentdef) AgentDef "
        "with generated routes, costs and extra attributes through the wire and through pickle; "
        "(decode) malformed reprs given to from_repr; (enum) a generated DCOP, one algorithm, its "
        "computation graph: every node, link, ComputationDef, deploy/replication message and the "
        "messages really sent during a thread-free run; (census) one attempt to instantiate every "
        "SimpleRepr/Message subclass found by introspection. non-trivial = at least one container, "
        "object or message in the case; distinct = distinct case JSON")
MODELLED = ("theorems: generic mixin + JSON step round trip for every well-formed value (incl. tuples of any "
            "length, namedtuples, constructor conversions, every hand-written repr, nested), one round-trip "
            "theorem per hand-written repr, AgentDef pickling, refutation witnesses for the lossy "
            "shapes; whether each pyDCOP class satisfies the mixin contract is checked class by class "
            "by this run (model prediction of the decoded object + independent deep comparison "
            "through the public API)")
META = dict(
    level_text=("Proof (Coq) that the model of simple_repr -> JSON -> from_repr returns the original "
                "value for every wire-safe value tree (unbounded depth/width) built from scalars, "
                "lists, tuples, string-keyed dicts, namedtuples of scalars, message_type messages "
                "and objects of classes following the SimpleRepr constructor convention, plus one "
                "round-trip theorem for each hand-written repr (MaxSumMessage, Mgm2OfferMessage, "
                "PseudoTreeLink, OrderLink, FactorGraphLink, AlgorithmDef, ExpressionFunction, "
                "AgentDef, VariableWithCostDict, ordered-graph node), for the generic classes whose "
                "constructor converts an argument (Domain, Link, ConstraintLink), for the "
                "ComputationDef of each of the four graph models and for AgentDef pickling - all as "
                "corollaries of one theorem (generic_roundtrip) over an explicit well-formedness "
                "predicate; partial: that each of "
                "pyDCOP's ~90 serialisable classes follows the convention is established by the "
                "differential run that enumerates them, not by a theorem."),
    level_note=("Trusted: Coq kernel/vm_compute, M_Repr.v, the harness (object -> tree observation), "
                "CPython json, requests' body encoder (allow_nan=False). Not covered: HTTP sockets, "
                "non-ASCII strings, python expressions inside ExpressionFunction (treated as text)."),
    technique="Coq proof over executable Gallina model + differential correspondence run with class enumeration",
    design_ref="DESIGN.md §5 C15",
)

HMOD = "harness.props.C15"

# ------------------------------------------------------------------ test classes of the harness
try:
    from pydcop.utils.simple_repr import SimpleRepr, simple_repr, from_repr
    from pydcop.infrastructure.computations import message_type, Message

    class GenA(SimpleRepr):
        def __init__(self, a, b):
            self._a = a
            self._b = b

    class GenB(SimpleRepr):
        def __init__(self, x, y=None, z=3):
            self._x = x
            self._y = y
            self._z = z

    NTPair = collections.namedtuple("NTPair", ["x", "y"])
    NTOne = collections.namedtuple("NTOne", ["v"])
    TMsg = message_type("t_msg", ["foo", "bar"])
    TMsg0 = message_type("t_empty", [])
    # two factories with the SAME type name and different fields (like 'stop' of orchestrator.py and ncbb.py)
    TDupA = message_type("t_dup", [])
    TDupB = message_type("t_dup", ["a", "b"])
except Exception:  # pragma: no cover  (pydcop not importable: every case reports a driver error)
    pass

GEN_CLASSES = {"GenA": ["a", "b"], "GenB": ["x", "y", "z"]}
NT_CLASSES = {"NTPair": ["x", "y"], "NTOne": ["v"]}

# ------------------------------------------------------------------ trees
# ["N"] ["X"] ["B",b] ["I",n] ["F",repr] ["S",s] ["L",[..]] ["T",[..]] ["E",[..]] ["D",[[k,v]..]]
# ["NT",m,q,[[n,v]..]] ["O",m,q,[[n,v]..]] ["M",t,[[n,v]..]] ["U",typename]
MISSING = object()


def frepr(x):
    return float.__repr__(float(x))


def _is_msgtype_class(C):
    f = C.__dict__.get("_simple_repr")
    return f is not None and getattr(f, "__qualname__", "") == "message_type.<locals>._simple_repr"


def _msg_fields(C):
    f = C.__dict__["_simple_repr"]
    i = f.__code__.co_freevars.index("fields")
    return list(f.__closure__[i].cell_contents)


def _ctor_args(C):
    from pydcop.utils.various import func_args
    return [a for a in func_args(C.__init__) if a != "self"]


def _custom_fields(o):
    """state behind the constructor arguments for classes whose attribute names differ"""
    C = type(o)
    qn, mod = C.__qualname__, C.__module__
    d = vars(o)
    g = lambda k: d.get(k, MISSING)
    if qn == "MaxSumMessage":
        return [("costs", g("_costs"))]
    if qn == "Mgm2OfferMessage":
        return [("offers", g("_offers")), ("is_offering", g("_is_offering"))]
    if qn in ("PseudoTreeLink", "OrderLink"):
        return [("link_type", g("_link_type")), ("source", g("_source")), ("target", g("_target"))]
    if qn == "FactorGraphLink":
        return [("factor_node", g("_factor_node")), ("variable_node", g("_variable_node"))]
    if qn == "NAryMatrixRelation":
        m = g("_m")
        return [("variables", g("_variables")), ("matrix", m.tolist() if m is not MISSING else MISSING),
                ("name", g("_name"))]
    if qn == "ExpressionFunction":
        return [("expression", g("_expression")), ("source_file", g("_source_file")), ("fixed_vars", g("_fixed_vars"))]
    if qn == "AgentDef":
        return [(a, g("_" + a)) for a in ["name", "default_route", "routes", "default_hosting_cost",
                                          "hosting_costs"]] + [("*attr", g("_attr"))]
    if qn == "VariableComputationNode" and mod == "pydcop.computations_graph.ordered_graph":
        links = g("_links")
        ol = [l for l in links if type(l).__qualname__ == "OrderLink"] if links is not MISSING else MISSING
        return [(a, g("_" + a)) for a in _ctor_args(C)] + [("*order_links", ol)]
    return None


def to_tree(o, depth=0):
    if depth > 40:
        return ["U", "too deep"]
    if o is MISSING:
        return ["X"]
    if o is None:
        return ["N"]
    if isinstance(o, bool):
        return ["B", o]
    if isinstance(o, int):
        return ["I", int(o)]
    if isinstance(o, float):
        return ["F", frepr(o)]
    if isinstance(o, str):
        return ["S", o]
    if hasattr(o, "_simple_repr"):
        C = type(o)
        if _is_msgtype_class(C):
            return ["M", C.__qualname__, [[f, to_tree(vars(o).get(f, MISSING), depth + 1)] for f in _msg_fields(C)]]
        if C.__qualname__ == "ComputationNode":
            return ["U", "base ComputationNode (neighbours recomputed from links: oracle only)"]
        cf = _custom_fields(o)
        if cf is None:
            cf = [(a, vars(o).get("_" + a, MISSING)) for a in _ctor_args(C)]
        return ["O", C.__module__, C.__qualname__, [[n, to_tree(v, depth + 1)] for n, v in cf]]
    if isinstance(o, tuple):
        if hasattr(o, "_asdict"):
            return ["NT", type(o).__module__, type(o).__qualname__,
                    [[n, to_tree(v, depth + 1)] for n, v in o._asdict().items()]]
        return ["T", [to_tree(x, depth + 1) for x in o]]
    if isinstance(o, list):
        return ["L", [to_tree(x, depth + 1) for x in o]]
    if isinstance(o, (set, frozenset)):
        return ["E", [to_tree(x, depth + 1) for x in o]]
    if isinstance(o, dict):
        return ["D", [[to_tree(k, depth + 1), to_tree(v, depth + 1)] for k, v in o.items()]]
    return ["U", type(o).__module__ + "." + type(o).__qualname__]


def build(t):
    """python value of a generated tree (tree kinds the generator produces only)"""
    k = t[0]
    if k == "N":
        return None
    if k in ("B", "I", "S"):
        return t[1]
    if k == "F":
        return float(t[1])
    if k == "L":
        return [build(x) for x in t[1]]
    if k == "T":
        return tuple(build(x) for x in t[1])
    if k == "E":
        return set(build(x) for x in t[1])
    if k == "D":
        return {build(a): build(b) for a, b in t[1]}
    if k == "NT":
        return globals()[t[2]](**{n: build(v) for n, v in t[3]})
    if k == "M":
        C = {"t_msg": TMsg, "t_empty": TMsg0}[t[1]]
        return C(**{n: build(v) for n, v in t[2] if v != ["X"]})
    if k == "O":
        qn = t[2]
        kw = {n: build(v) for n, v in t[3] if v != ["X"]}
        if qn in GEN_CLASSES:
            o = globals()[qn](**{n: kw.get(n) for n in GEN_CLASSES[qn]})
            for n, v in t[3]:
                if v == ["X"]:
                    delattr(o, "_" + n)
            return o
        return build_custom(qn, kw)
    raise ValueError("cannot build " + k)


def build_custom(qn, kw):
    if qn == "MaxSumMessage":
        from pydcop.algorithms.maxsum import MaxSumMessage
        return MaxSumMessage(kw["costs"])
    if qn == "Mgm2OfferMessage":
        from pydcop.algorithms.mgm2 import Mgm2OfferMessage
        return Mgm2OfferMessage(kw["offers"], kw["is_offering"])
    if qn == "PseudoTreeLink":
        from pydcop.computations_graph.pseudotree import PseudoTreeLink
        return PseudoTreeLink(kw["link_type"], kw["source"], kw["target"])
    if qn == "OrderLink":
        from pydcop.computations_graph.ordered_graph import OrderLink
        return OrderLink(kw["link_type"], kw["source"], kw["target"])
    if qn == "FactorGraphLink":
        from pydcop.computations_graph.factor_graph import FactorGraphLink
        return FactorGraphLink(kw["factor_node"], kw["variable_node"])
    if qn == "AlgorithmDef":
        from pydcop.algorithms import AlgorithmDef
        return AlgorithmDef(kw["algo"], kw["params"], kw["mode"])
    if qn == "ExpressionFunction":
        from pydcop.utils.expressionfunction import ExpressionFunction
        return ExpressionFunction(kw["expression"], **kw["fixed_vars"])
    if qn == "AgentDef":
        from pydcop.dcop.objects import AgentDef
        return AgentDef(kw["name"], default_route=kw["default_route"], routes=kw["routes"],
                        default_hosting_cost=kw["default_hosting_cost"], hosting_costs=kw["hosting_costs"],
                        **kw["*attr"])
    if qn == "Domain":
        from pydcop.dcop.objects import Domain
        return Domain(kw["name"], kw["domain_type"], kw["values"])
    if qn == "VariableWithCostDict":
        from pydcop.dcop.objects import VariableWithCostDict
        return VariableWithCostDict(kw["name"], kw["domain"], kw["costs"], kw["initial_value"])
    if qn == "Link":
        from pydcop.computations_graph.objects import Link
        return Link(kw["nodes"], kw["link_type"])
    raise ValueError("cannot build class " + qn)


# ------------------------------------------------------------------ Gallina printing
class Unmodelled(Exception):
    pass


def gal(t):
    k = t[0]
    if k == "N":
        return "PNone"
    if k == "X":
        return "PMissing"
    if k == "B":
        return "(PBool %s)" % q.b(t[1])
    if k == "I":
        return "(PInt %s)" % q.z(t[1])
    if k == "F":
        return "(PFloat %s)" % q.s(t[1])
    if k == "S":
        return "(PStr %s)" % _s(t[1])
    if k in ("L", "T", "E"):
        return "(%s %s)" % ({"L": "PList", "T": "PTuple", "E": "PSet"}[k], q.lst([gal(x) for x in t[1]]))
    if k == "D":
        return "(PDict %s)" % q.lst([q.pair(gal(a), gal(b)) for a, b in t[1]])
    if k == "NT":
        return "(PNamed %s %s %s)" % (_s(t[1]), _s(t[2]), _fields(t[3]))
    if k == "O":
        return "(PObj %s %s %s)" % (_s(t[1]), _s(t[2]), _fields(t[3]))
    if k == "M":
        return "(PMsg %s %s)" % (_s(t[1]), _fields(t[2]))
    raise Unmodelled(t[1] if len(t) > 1 else k)


def _s(x):
    try:
        return q.s(x)
    except ValueError:
        raise Unmodelled("non-ascii string")


def _fields(fs):
    return q.lst([q.pair(_s(n), gal(v)) for n, v in fs])


def gal_outcome(o):
    if "ok" in o:
        return "(OOk %s)" % gal(o["ok"])
    return "(OErr %s)" % _s(o["err"])


def tree_has(t, pred):
    if pred(t):
        return True
    k = t[0]
    if k in ("L", "T", "E"):
        return any(tree_has(x, pred) for x in t[1])
    if k == "D":
        return any(tree_has(a, pred) or tree_has(b, pred) for a, b in t[1])
    if k in ("NT", "O"):
        return any(tree_has(v, pred) for _, v in t[3])
    if k == "M":
        return any(tree_has(v, pred) for _, v in t[2])
    return False


def tree_classes(t, acc):
    k = t[0]
    if k in ("L", "T", "E"):
        for x in t[1]:
            tree_classes(x, acc)
    elif k == "D":
        for a, b in t[1]:
            tree_classes(a, acc); tree_classes(b, acc)
    elif k in ("NT", "O"):
        acc.add(t[1] + "." + t[2])
        for _, v in t[3]:
            tree_classes(v, acc)
    elif k == "M":
        acc.add("message_type:" + t[1])
        for _, v in t[2]:
            tree_classes(v, acc)
    return acc


SPECIAL = ("inf", "-inf", "nan")


def has_special_float(t):
    return tree_has(t, lambda x: x[0] == "F" and x[1] in SPECIAL)


# ------------------------------------------------------------------ independent deep view (oracle)
def view(o, depth=0, probe=None):
    """what an agent can see of an object through its public API, type sensitive"""
    if depth > 25:
        return "<deep>"
    if isinstance(o, str):
        return ["str", str(o)]
    if o is None or isinstance(o, bool):
        return [type(o).__name__, o]
    if isinstance(o, int):
        return ["int", int(o)]
    if isinstance(o, float):
        return ["float", frepr(o)]
    if isinstance(o, tuple) and hasattr(o, "_asdict"):
        return ["namedtuple", type(o).__qualname__, [[k, view(v, depth + 1)] for k, v in o._asdict().items()]]
    if isinstance(o, (list, tuple)):
        return [type(o).__name__, [view(x, depth + 1) for x in o]]
    if isinstance(o, (set, frozenset)):
        return ["set", sorted((view(x, depth + 1) for x in o), key=json.dumps)]
    if isinstance(o, dict):
        return ["dict", sorted(([view(k, depth + 1), view(v, depth + 1)] for k, v in o.items()), key=json.dumps)]
    C = type(o)
    if not hasattr(o, "__dict__") or C.__module__ == "numpy":
        return ["other", C.__module__ + "." + C.__qualname__, repr(o)[:80]]
    name = ("msg:" + C.__qualname__) if _is_msgtype_class(C) else C.__module__ + "." + C.__qualname__
    props = {}
    for n in dir(C):
        if n.startswith("_"):
            continue
        if isinstance(getattr(C, n, None), property):
            try:
                props[n] = view(getattr(o, n), depth + 1)
            except Exception as e:
                props[n] = ["raises", type(e).__name__]
    for n, v in vars(o).items():
        if not n.startswith("_") and not callable(v):
            props[n] = view(v, depth + 1)
    qn = C.__qualname__
    # relation values on every assignment
    if hasattr(o, "dimensions") and hasattr(o, "get_value_for_assignment"):
        try:
            dims = list(o.dimensions)
            doms = [list(d.domain.values) for d in dims]
            tab = []
            n = 1
            for dd in doms:
                n *= max(1, len(dd))
            if n <= 600:
                for vals in itertools.product(*doms):
                    try:
                        val = o.get_value_for_assignment({d.name: x for d, x in zip(dims, vals)})
                        tab.append(view(val if not hasattr(val, "item") else val.item(), depth + 1))
                    except Exception as e:
                        tab.append(["raises", type(e).__name__])
                props["<values>"] = tab
        except Exception as e:
            props["<values>"] = ["raises", type(e).__name__]
    # variable costs on the whole domain
    if hasattr(o, "cost_for_val") and hasattr(o, "domain"):
        costs = []
        for x in o.domain.values:
            try:
                costs.append(view(o.cost_for_val(x), depth + 1))
            except Exception as e:
                costs.append(["raises", type(e).__name__])
        props["<costs>"] = costs
    if qn == "AgentDef":
        names = ["a0", "a1", "a2", "a3", "c0", "c1", "v0", "v1", o.__dict__.get("_name", "?")]
        for fn in ("route", "hosting_cost"):
            r = []
            for x in names:
                try:
                    r.append(view(getattr(o, fn)(x)))
                except Exception as e:
                    r.append(["raises", type(e).__name__])
            props["<%s>" % fn] = r
        try:
            props["<extra_attr>"] = view(o.extra_attr())
        except Exception as e:
            props["<extra_attr>"] = ["raises", type(e).__name__]
    if hasattr(o, "links") and hasattr(o, "neighbors"):
        try:
            props["neighbors"] = ["set", sorted((view(x) for x in o.neighbors), key=json.dumps)]
            props["links"] = ["set", sorted((view(x, depth + 1) for x in o.links), key=json.dumps)]
        except Exception as e:
            props["links"] = ["raises", type(e).__name__]
        for fn in ("get_next", "get_previous"):
            if hasattr(o, fn):
                try:
                    props["<%s>" % fn] = view(getattr(o, fn)())
                except Exception as e:
                    props["<%s>" % fn] = ["raises", type(e).__name__]
    if qn == "ExpressionFunction":
        props.pop("__name__", None)
    return ["obj", name, sorted(props.items())]


def first_diff(a, b, path=""):
    if a == b:
        return None
    if isinstance(a, list) and isinstance(b, list) and len(a) == len(b):
        if len(a) == 3 and a[0] == "obj" and b[0] == "obj" and a[1] == b[1]:
            da, db = dict(a[2]), dict(b[2])
            for k in sorted(set(da) | set(db)):
                if da.get(k) != db.get(k):
                    if k in da and k in db:
                        return first_diff(da[k], db[k], path + "/" + a[1].split(".")[-1] + "." + k)
                    return "%s/%s.%s present on one side only" % (path, a[1].split(".")[-1], k)
        for i, (x, y) in enumerate(zip(a, b)):
            if x != y:
                return first_diff(x, y, path if (i == 0 or not isinstance(x, list)) else path + "[%d]" % i) \
                    if isinstance(x, list) and isinstance(y, list) else \
                    "%s: sent %s, received %s" % (path or "/", json.dumps(a)[:120], json.dumps(b)[:120])
    return "%s: sent %s, received %s" % (path or "/", json.dumps(a)[:160], json.dumps(b)[:160])


# ------------------------------------------------------------------ the wire, as the code does it
def errname(e):
    n = type(e).__name__
    if n == "InvalidJSONError":
        return "ValueError"
    return n


def encode_body(r, nan):
    if nan:
        return json.dumps(r).encode("utf-8")
    import requests
    p = requests.PreparedRequest()
    p.prepare_headers({})
    p.prepare_body(data=None, files=None, json=r)   # what requests.post(json=r) sends
    return p.body if isinstance(p.body, bytes) else p.body.encode("utf-8")


def wire_item(o, nan=False, label=None, with_view=True):
    it = {"k": "wire", "nan": nan, "cls": label or type(o).__module__ + "." + type(o).__qualname__}
    it["in"] = to_tree(o)
    v0 = view(o) if with_view else None
    try:
        r = simple_repr(o)
        it["repr"] = {"ok": to_tree(r)}
    except Exception as e:
        it["repr"] = {"err": errname(e)}
        it["out"] = {"err": errname(e)}
        it["diff"] = "simple_repr raised %s: %s" % (type(e).__name__, str(e)[:100])
        return it
    try:
        body = encode_body(r, nan)
        content = json.loads(str(body, "utf-8"))        # MPCHttpHandler.do_POST
        dec = from_repr(content)
    except Exception as e:
        it["out"] = {"err": errname(e)}
        it["diff"] = "wire raised %s: %s" % (type(e).__name__, str(e)[:100])
        return it
    it["out"] = {"ok": to_tree(dec)}
    it["diff"] = first_diff(v0, view(dec)) if with_view else None
    return it


def pickle_item(o):
    import pickle
    it = {"k": "pickle", "cls": type(o).__module__ + "." + type(o).__qualname__, "in": to_tree(o)}
    v0 = view(o)
    try:
        dec = pickle.loads(pickle.dumps(o))
    except Exception as e:
        it["out"] = {"err": errname(e)}
        it["diff"] = "pickle raised " + type(e).__name__
        return it
    it["out"] = {"ok": to_tree(dec)}
    it["diff"] = first_diff(v0, view(dec))
    return it


def decode_item(rt):
    it = {"k": "decode", "cls": "<repr>", "in": rt}
    try:
        dec = from_repr(build(rt))
        it["out"] = {"ok": to_tree(dec)}
    except Exception as e:
        it["out"] = {"err": errname(e)}
    it["diff"] = None
    return it


# ------------------------------------------------------------------ generators: trees
STRS = ["", "a", "v1", "x y", "__type__", "0", "1", "true", "null", 'q"uote', "back\\slash", "a'b", "c_12", "Z"]
FLOATS = ["0.5", "-1.25", "3.0", "1e+100", "0.1", "2.5e-07", "-0.0", "100.0"]
KEYS = ["a", "b", "k1", "name", "0", "1", "x_y", "type", "__type__"]


def g_scalar(rng, safe):
    k = rng.random()
    if k < 0.12:
        return ["N"]
    if k < 0.25:
        return ["B", rng.random() < 0.5]
    if k < 0.5:
        return ["I", rng.choice([0, 1, -1, 2, 7, 42, -300, 2 ** 31, -2 ** 63 - 5, 10 ** 20, rng.randint(-50, 50)])]
    if k < 0.7:
        if not safe and rng.random() < 0.3:
            return ["F", rng.choice(SPECIAL)]
        return ["F", frepr(float(rng.choice(FLOATS)))]
    return ["S", rng.choice(STRS)]


def g_tree(rng, depth, safe):
    if depth <= 0 or rng.random() < 0.3:
        return g_scalar(rng, safe)
    k = rng.random()
    n = rng.randint(0, 3)
    sub = lambda: g_tree(rng, depth - 1, safe)
    if k < 0.2:
        return ["L", [sub() for _ in range(n)]]
    if k < 0.38:
        if rng.random() < 0.15:
            # more than 10 items: the decoder must order the keys "0".."12" by int(), not as strings
            return ["T", [g_scalar(rng, safe) for _ in range(rng.randint(11, 13))]]
        return ["T", [sub() for _ in range(n)]]
    if k < 0.58:
        keys = rng.sample(KEYS, n)
        if not safe and rng.random() < 0.5:
            kk = []
            for x in keys:
                r = rng.random()
                kk.append(["S", x] if r < 0.4 else ["I", rng.randint(-3, 12)] if r < 0.7 else
                          ["B", rng.random() < 0.5] if r < 0.8 else ["N"] if r < 0.85 else
                          ["F", rng.choice(FLOATS[:4])] if r < 0.92 else ["T", [["I", 1], ["S", "a"]]])
            # python dict invariant: distinct keys (1 == True == 1.0)
            seen, out = set(), []
            for x in kk:
                try:
                    h = build(x)
                except Exception:
                    continue
                if h in seen:
                    continue
                seen.add(h)
                out.append(x)
            return ["D", [[x, sub()] for x in out]]
        return ["D", [[["S", x], sub()] for x in keys]]
    if k < 0.7:
        cn = rng.choice(sorted(GEN_CLASSES))
        f = [[a, sub()] for a in GEN_CLASSES[cn]]
        if not safe and rng.random() < 0.15:
            f[rng.randrange(len(f))][1] = ["X"]
        return ["O", HMOD, cn, f]
    if k < 0.8:
        cn = rng.choice(sorted(NT_CLASSES))
        return ["NT", HMOD, cn, [[a, (g_scalar(rng, safe) if safe or rng.random() < 0.5 else sub())]
                                 for a in NT_CLASSES[cn]]]
    if k < 0.9:
        if rng.random() < 0.2:
            return ["M", "t_empty", []]
        f = [["foo", sub()], ["bar", sub()]]
        if not safe and rng.random() < 0.15:
            f[rng.randrange(2)][1] = ["X"]
        return ["M", "t_msg", f]
    if safe:
        return ["L", [sub() for _ in range(n)]]
    elems = []
    for _ in range(n):
        e = g_scalar(rng, True)
        if e not in elems and not (e[0] == "F" and e[1] in ("3.0", "-0.0", "100.0")) and e[0] != "B" \
                and not (e[0] == "I" and e[1] in (0, 1)):
            elems.append(e)
    return ["E", elems]


VALS = [["I", 0], ["I", 1], ["I", 2], ["S", "a"], ["S", "b"], ["S", "R"], ["F", "0.5"], ["B", True]]


def g_custom(rng, safe):
    c = rng.choice(["MaxSumMessage", "Mgm2OfferMessage", "PseudoTreeLink", "OrderLink", "FactorGraphLink",
                    "AlgorithmDef", "ExpressionFunction", "Domain", "Link",
                    "VariableWithCostDict", "VariableWithCostDict"])
    cost = lambda: rng.choice([["I", rng.randint(-9, 99)], ["F", frepr(rng.randint(-40, 400) / 8)],
                               ["F", rng.choice(SPECIAL if not safe else FLOATS)]])
    if c == "MaxSumMessage":
        ks = rng.sample(VALS[:6] if rng.random() < 0.8 else VALS, rng.randint(0 if not safe else 1, 4))
        ks = _distinct(ks)
        if not safe and rng.random() < 0.1:
            ks = [["T", [["I", 1], ["I", 2]]]]
        return ["O", "pydcop.algorithms.maxsum", c, [["costs", ["D", [[k, cost()] for k in ks]]]]]
    if c == "Mgm2OfferMessage":
        n = rng.randint(0, 4)
        pairs = _distinct([["T", [rng.choice(VALS[:6]), rng.choice(VALS[:6])]] for _ in range(n)])
        off = rng.random() < 0.7
        if safe and not off:
            pairs = []
        return ["O", "pydcop.algorithms.mgm2", c, [["offers", ["D", [[k, cost()] for k in pairs]]],
                                                    ["is_offering", ["B", off]]]]
    if c in ("PseudoTreeLink", "OrderLink"):
        types = ["children", "pseudo_children", "pseudo_parent", "parent"] if c == "PseudoTreeLink" else ["previous", "next"]
        mod = "pydcop.computations_graph." + ("pseudotree" if c == "PseudoTreeLink" else "ordered_graph")
        return ["O", mod, c, [["link_type", ["S", rng.choice(types)]], ["source", ["S", rng.choice(["v0", "v1", "x"])]],
                              ["target", ["S", rng.choice(["v1", "v2", "x"])]]]]
    if c == "FactorGraphLink":
        return ["O", "pydcop.computations_graph.factor_graph", c,
                [["factor_node", ["S", rng.choice(["c0", "c1"])]], ["variable_node", ["S", rng.choice(["v1", "v2"])]]]]
    if c == "AlgorithmDef":
        params = [[["S", k], g_scalar(rng, True) if safe or rng.random() < 0.7 else g_tree(rng, 2, False)]
                  for k in rng.sample(["variant", "probability", "stop_cycle", "damping", "p_2"], rng.randint(0, 3))]
        return ["O", "pydcop.algorithms", c, [["algo", ["S", rng.choice(["dsa", "mgm", "maxsum"])]],
                                              ["params", ["D", params]], ["mode", ["S", rng.choice(["min", "max"])]]]]
    if c == "ExpressionFunction":
        e, fv = rng.choice([("a + b", {}), ("a * 2 + b", {"b": ["I", 3]}), ("abs(x1 - x2) + k", {"k": ["F", "0.5"]}),
                            ("1 if a == b else 0", {"a": ["S", "R"]}), ("v0", {})])
        return ["O", "pydcop.utils.expressionfunction", c,
                [["expression", ["S", e]], ["source_file", ["N"]], ["fixed_vars", ["D", [[["S", k], v] for k, v in fv.items()]]]]]
    if c == "VariableWithCostDict":
        # the costs dict may cover a strict subset of the domain (the other values cost 0) and list its
        # keys in another order than the domain: the typed keys must come back attached to the same costs
        vals = _distinct([rng.choice(VALS[:7]) for _ in range(rng.randint(2, 5))])
        dom = ["O", "pydcop.dcop.objects", "Domain", [["name", ["S", "d1"]], ["domain_type", ["S", "level"]],
                                                      ["values", ["T", vals]]]]
        keys = list(vals)
        shape = rng.random()
        if shape < 0.45 and len(keys) > 1:
            keys = rng.sample(keys, rng.randint(0 if not safe else 1, len(keys) - 1))
        if shape >= 0.3:
            rng.shuffle(keys)
            if len(keys) > 1 and keys == [v for v in vals if v in keys]:
                keys.reverse()
        return ["O", "pydcop.dcop.objects", c,
                [["name", ["S", rng.choice(["x", "v1"])]], ["domain", dom],
                 ["costs", ["D", [[k, cost()] for k in keys]]],
                 ["initial_value", rng.choice([["N"], vals[0]])]]]
    if c == "Domain":
        vals = _distinct([rng.choice(VALS) for _ in range(rng.randint(1, 4))])
        return ["O", "pydcop.dcop.objects", c, [["name", ["S", "d1"]], ["domain_type", ["S", rng.choice(["color", ""])]],
                                                ["values", ["T", vals]]]]
    nodes = _distinct([["S", rng.choice(["v0", "v1", "v2", "c1"])] for _ in range(rng.randint(0, 3))])
    return ["O", "pydcop.computations_graph.objects", "Link",
            [["nodes", ["E", nodes]], ["link_type", rng.choice([["N"], ["S", "t"]])]]]


def _distinct(ts):
    out, seen = [], set()
    for t in ts:
        try:
            h = build(t)
        except Exception:
            continue
        try:
            hash(h)
        except TypeError:
            h = json.dumps(t)
        if h not in seen:
            seen.add(h)
            out.append(t)
    return out


AG_NAMES = ["a0", "a1", "a2", "a3", "c0", "c1"]


def g_agentdef(rng):
    tab = lambda: ["D", [[["S", k], rng.choice([["I", rng.randint(0, 50)], ["F", frepr(rng.randint(0, 80) / 4)]])]
                         for k in AG_NAMES if rng.random() < 0.4]]
    attrs = [[["S", k], rng.choice([["I", rng.randint(0, 999)], ["S", "x"], ["F", "2.5"], ["L", [["I", 1]]]])]
             for k in ["capacity", "foo", "pref"] if rng.random() < 0.45]
    return ["O", "pydcop.dcop.objects", "AgentDef",
            [["name", ["S", rng.choice(AG_NAMES[:4])]], ["default_route", ["I", rng.randint(0, 9)]], ["routes", tab()],
             ["default_hosting_cost", ["I", rng.randint(0, 9)]], ["hosting_costs", tab()], ["*attr", ["D", attrs]]]]


def g_decode(rng):
    """reprs, some malformed, given directly to from_repr"""
    S = lambda x: ["S", x]
    hd = lambda m, qn: [[S("__module__"), S(m)], [S("__qualname__"), S(qn)]]
    k = rng.randrange(9)
    if k == 0:   # tuple with shuffled / typed indexes
        n = rng.randint(0, 4)
        idx = list(range(n))
        rng.shuffle(idx)
        ent = [[S(str(i)) if rng.random() < 0.8 else ["I", i], g_scalar(rng, True)] for i in idx]
        if rng.random() < 0.15:
            ent.append([S("x"), ["I", 0]])
        return ["D", ent + hd("builtins", "tuple")]
    if k == 1:
        t = rng.choice(["children", "parent", "next", "previous", "bogus"])
        cls, mod = rng.choice([("PseudoTreeLink", "pydcop.computations_graph.pseudotree"),
                               ("OrderLink", "pydcop.computations_graph.ordered_graph")])
        ent = [[S("type"), S(t)], [S("source"), S("v0")], [S("target"), rng.choice([S("v1"), ["L", [S("v1")]]])]]
        if rng.random() < 0.15:
            ent.pop(rng.randrange(3))
        return ["D", hd(mod, cls) + ent]
    if k == 2:
        n = rng.randint(0, 3)
        ks = _distinct([rng.choice(VALS + [["L", [["I", 1]]]]) for _ in range(n)])
        ent = [[S("vals"), ["L", ks]], [S("costs"), ["L", [["I", rng.randint(0, 9)] for _ in ks]]]]
        if rng.random() < 0.15:
            ent.pop(rng.randrange(2))
        return ["D", hd("pydcop.algorithms.maxsum", "MaxSumMessage") + ent]
    if k == 3:
        ent = [[S("__type__"), S("t_x")], [S("foo"), g_tree(rng, 1, True)]]
        if rng.random() < 0.2:
            ent.pop(0)
        return ["D", hd("pydcop.infrastructure.computations", "message_type") + ent]
    if k == 4:
        return ["D", hd(HMOD, "GenA") + [[S("a"), g_tree(rng, 2, True)], [S("b"), ["T", [["I", 1]]]]]]
    if k == 5:
        n = rng.randint(0, 3)
        cp = [["L", [rng.choice(VALS[:6]), rng.choice(VALS[:6])]] for _ in range(n)]
        cp = [c for i, c in enumerate(cp) if c not in cp[:i]]
        ent = [[S("is_offering"), ["B", rng.random() < 0.5]], [S("var_values"), ["L", cp]],
               [S("gains"), ["L", [["I", i] for i in range(len(cp))]]]]
        if rng.random() < 0.2:
            ent.pop()
        return ["D", hd("pydcop.algorithms.mgm2", "Mgm2OfferMessage") + ent]
    if k == 6:
        ent = [[S("algo"), S("dsa")], [S("params"), ["D", [[S("p"), ["T", [["I", 1]]]]]]], [S("mode"), S("max")]]
        if rng.random() < 0.3:
            ent.pop(rng.choice([1, 2]))
        return ["D", hd("pydcop.algorithms", "AlgorithmDef") + ent]
    if k == 7:
        return rng.choice([["T", [["I", 1]]], ["N"], ["E", [["I", 1]]], ["L", [["T", []], ["I", 2]]]])
    return ["D", [[S("a"), g_tree(rng, 2, True)], [["I", 3], ["L", [["N"]]]]]]


# ------------------------------------------------------------------ generators: DCOP objects
def mk_dcop(rng):
    from pydcop.dcop.dcop import DCOP
    from pydcop.dcop.objects import (Domain, Variable, VariableWithCostDict, VariableWithCostFunc, AgentDef)
    from pydcop.dcop.relations import NAryMatrixRelation, constraint_from_str, UnaryFunctionRelation
    from pydcop.utils.expressionfunction import ExpressionFunction
    nv = rng.randint(2, 4)
    strdom = rng.random() < 0.3
    dsize = rng.randint(2, 3)
    vals = (["R", "G", "B"] if strdom else [0, 1, 2])[:dsize]
    dom = Domain("d", "color" if strdom else "level", vals)
    variables = []
    plain = rng.random() < 0.35
    for i in range(nv):
        n = "v%d" % i
        k = 0.0 if plain else rng.random()
        if k < 0.4:
            variables.append(Variable(n, dom, rng.choice([None] + vals)))
        elif k < 0.8:
            # costs for a strict subset of the domain and / or in another order than the domain
            keys = list(vals)
            shape = rng.random()
            if shape < 0.45:
                keys = rng.sample(keys, rng.randint(1, len(keys) - 1))
            if shape >= 0.3:
                rng.shuffle(keys)
                if len(keys) > 1 and keys == [v for v in vals if v in keys]:
                    keys.reverse()
            variables.append(VariableWithCostDict(n, dom, {x: rng.choice([rng.randint(1, 9), rng.randint(1, 36) / 4])
                                                           for x in keys}))
        else:
            e = ("1 if %s == 'R' else 3" % n) if strdom else ("%s * 2 + 1" % n)
            variables.append(VariableWithCostFunc(n, dom, ExpressionFunction(e)))
    dcop = DCOP("g", rng.choice(["min", "max"]))
    edges = [(i, i + 1) for i in range(nv - 1)]
    for _ in range(rng.randint(0, 2)):
        a, b = rng.sample(range(nv), 2)
        if (min(a, b), max(a, b)) not in edges:
            edges.append((min(a, b), max(a, b)))
    cons = []
    for ci, (a, b) in enumerate(edges):
        va, vb = variables[a], variables[b]
        if rng.random() < 0.65 or strdom:
            kind = rng.random()
            cell = (lambda: rng.randint(0, 9)) if kind < 0.6 else (lambda: rng.randint(0, 36) / 4) if kind < 0.92 \
                else (lambda: rng.choice([1, 2, float("inf")]))
            m = [[cell() for _ in vals] for _ in vals]
            cons.append(NAryMatrixRelation([va, vb], m, name="c%d" % ci))
        else:
            cons.append(constraint_from_str("c%d" % ci, "abs(%s - %s) * %d + %d" % (va.name, vb.name, rng.randint(1, 3),
                                                                                   rng.randint(0, 2)), [va, vb]))
    if rng.random() < 0.3 and not strdom:
        v = rng.choice(variables)
        cons.append(constraint_from_str("u%s" % v.name, "%s * 3" % v.name, [v]))
    if rng.random() < 0.2 and nv >= 3:
        a, b, c = variables[:3]
        m = [[[rng.randint(0, 5) for _ in vals] for _ in vals] for _ in vals]
        cons.append(NAryMatrixRelation([a, b, c], m, name="t0"))
    for c in cons:
        dcop.add_constraint(c)
    for v in variables:
        if v.name not in dcop.variables:
            dcop.add_variable(v)
    agents = [AgentDef("a%d" % i, default_route=rng.randint(1, 3), routes={"a0": rng.randint(1, 5)} if i else {},
                       default_hosting_cost=rng.randint(0, 3), hosting_costs={"v0": rng.randint(0, 9)},
                       capacity=rng.randint(10, 100)) for i in range(nv)]
    dcop.add_agents(agents)
    return dcop, variables, cons, agents


ALGOS = {"pseudotree": ["dpop", "ncbb"], "factor_graph": ["maxsum", "amaxsum"],
         "constraints_hypergraph": ["dsa", "mgm", "mgm2", "dba", "gdba", "adsa", "dsatuto", "mixeddsa"],
         "ordered_graph": ["syncbb"]}
ALL_ALGOS = [(g, a) for g, l in ALGOS.items() for a in l]


def graph_objects(rng, algo, steps):
    """(label, object) list: nodes, links, computation definitions, deployment / replication
    messages and the messages really sent by a thread-free run of [algo]"""
    from importlib import import_module
    from pydcop.algorithms import AlgorithmDef, ComputationDef, load_algorithm_module
    from harness.pydrv.netdriver import NetDriver, pick_policy
    dcop, variables, cons, agents = mk_dcop(rng)
    mod = load_algorithm_module(algo)
    gm = import_module("pydcop.computations_graph." + mod.GRAPH_TYPE)
    cg = gm.build_computation_graph(dcop)
    params = {}
    if algo in ("dsa", "mgm", "mgm2", "adsa", "dsatuto", "mixeddsa") and rng.random() < 0.5:
        params = {"stop_cycle": rng.randint(1, 5)} if algo in ("dsa", "mgm", "mgm2") else {}
    adef = AlgorithmDef.build_with_default_param(algo, params, mode=dcop.objective,
                                                 parameters_definitions=mod.algo_params)
    objs, notes = [], []
    cdefs = [ComputationDef(n, adef) for n in cg.nodes]
    for cd in cdefs:
        objs.append(("comp_def", cd))
    if mod.GRAPH_TYPE == "ordered_graph":
        for scd in sparse_ordered_defs(random.Random(rng.randint(0, 10 ** 6)))[:3]:
            objs.append(("comp_def", scd))
    for n in cg.nodes:
        for l in list(n.links)[:2]:
            objs.append(("link", l))
    from pydcop.infrastructure.orchestrator import DeployMessage
    from pydcop.replication.dist_ucs_hostingcosts import UCSReplicateMessage
    cd = rng.choice(cdefs)
    objs.append(("deploy", DeployMessage(cd)))
    objs.append(("ucs", UCSReplicateMessage("replicate_request", rng.randint(0, 20) / 2, rng.randint(0, 8) / 4,
                                            ("a0", "a1"), [(1.5, ("a0", "a2")), (2, ("a0", "a1", "a3"))],
                                            ["a0"], cd, rng.randint(1, 30) / 2, rng.randint(0, 3), ["a2"])))
    objs.append(("agent", rng.choice(agents)))
    # run the algorithm thread-free and collect what it really sends
    try:
        random.seed(rng.randint(0, 10 ** 6))
        try:
            import numpy
            numpy.random.seed(rng.randint(0, 10 ** 6))
        except Exception:
            pass
        comps = {}
        for c in cdefs:
            comp = mod.build_computation(c)
            comps[comp.name] = comp
        nd = NetDriver(comps)
        for comp in comps.values():
            comp.finished = lambda: None
            comp._on_value_selection = lambda *a, **k: None
            comp._on_new_cycle = lambda *a, **k: None
        nd.run_random(rng, max_steps=steps, policy=pick_policy(rng, nd.names))
        seen = set()
        for ev in nd.events:
            if ev[0] == "send":
                msg = ev[3]
                key = json.dumps(to_tree(msg))
                if key not in seen:
                    seen.add(key)
                    objs.append(("algo_msg", msg))
            elif ev[0] == "raise":
                notes.append("%s raised %s during the run" % (algo, ev[2]))
        for comp in comps.values():     # timers of asynchronous algorithms
            for attr in ("_periodic_action_handler",):
                pass
    except Exception as e:
        notes.append("run of %s failed: %s: %s" % (algo, type(e).__name__, str(e)[:80]))
    return objs, notes


def infra_messages(rng):
    from pydcop.infrastructure import discovery as D, orchestrator as O
    from pydcop.infrastructure.computations import Message, SynchronizationMsg
    addr = ("127.0.0.1", rng.randint(9000, 9999))
    metrics = {"count_ext_msg": {"v0": rng.randint(0, 9)}, "size_ext_msg": {"v0": rng.randint(0, 99)},
               "activity_ratio": rng.randint(0, 100) / 128, "cycles": {"v0": rng.randint(0, 9)}, "t": None}
    val = rng.choice([0, 1, "R", 2])
    return [
        D.PublishAgentMessage("a1", addr), D.PublishAgentMessage("a1", None), D.UnPublishAgentMessage("a1"),
        D.SubscribeAgentMessage("a2", rng.random() < 0.5), D.PublishComputationMessage("v1", "a1", addr),
        D.UnPublishComputationMessage("v1", "a1"), D.SubscribeComputationMessage("v1", True),
        D.PublishReplicaMessage("v1", "a2", rng.random() < 0.5), D.SubscribeReplicaMessage("v1", False),
        O.SetMetricsModeMessage("value_change", None), O.SetMetricsModeMessage("period", 0.5),
        O.RunAgentMessage(["v0", "v1"]), O.RunAgentMessage(None), O.ReplicateComputationsMessage(rng.randint(1, 3)),
        O.ComputationReplicatedMessage("a1", {"v0": ["a2", "a3"], "v1": []}, metrics),
        O.PauseMessage(["v0"]), O.ResumeMessage(None), O.StopAgentMessage(), O.AgentStoppedMessage("a1", metrics),
        O.ValueChangeMessage("a1", "v0", val, rng.randint(0, 50) / 4, rng.randint(0, 9), metrics),
        O.CycleChangeMessage("a1", "v0", rng.randint(0, 9), metrics), O.MetricsMessage("a1", metrics),
        O.ComputationFinishedMessage("a1", "v0"), O.AgentRemovedMessage(),
        O.RepairDoneMessage("a1", ["v0", "v2"], metrics), O.RepairRunMessage(),
        O.SetupRepairMessage({"v0": (["a1", "a2"], {"a1": "B_v0_a1"}, {"c1": ["v0", "v1"]})}),
        O.RepairReadyMessage("a1", ["B_v0_a1"]), SynchronizationMsg(),
        Message("x", rng.choice([None, 3, "c", [1, 2], {"k": (1, "a")}])),
    ] + same_name_messages(rng)


def same_name_messages(rng):
    """message_type() classes sharing a type name but not their fields, decoded in one process in both
    orders (A B A / B A B): what is decoded must not depend on what was decoded before"""
    from pydcop.infrastructure import orchestrator as O
    from pydcop.algorithms import ncbb
    pairs = [(lambda: O.StopAgentMessage(), lambda: ncbb.StopMessage(rng.choice([True, False, 1]))),
             (lambda: TDupA(), lambda: TDupB(rng.randint(0, 9), rng.choice(["x", None, 0.5])))]
    out = []
    for a, b in pairs:
        if rng.random() < 0.5:
            a, b = b, a
        out += [a(), b(), a(), b()]
    return out


def sparse_ordered_defs(rng, nv=None):
    """computation definitions of an ordered graph (SyncBB) on a SPARSE problem: the lexical next / previous
    variable of a node shares no constraint with it (x1-x3, x2-x4, ...), so whatever the graph builder attaches
    to a node for its order neighbours must come back from the hand-written _from_repr"""
    from pydcop.dcop.dcop import DCOP
    from pydcop.dcop.objects import Domain, Variable
    from pydcop.dcop.relations import constraint_from_str
    from pydcop.computations_graph import ordered_graph as og
    from pydcop.algorithms import AlgorithmDef, ComputationDef
    nv = nv or rng.randint(4, 5)
    d = Domain("d", "level", [0, 1, 2][:rng.randint(2, 3)])
    vs = [Variable("x%d" % i, d) for i in range(1, nv + 1)]
    dcop = DCOP("sparse", rng.choice(["min", "max"]))
    for i in range(nv - 2):
        dcop.add_constraint(constraint_from_str("c%d%d" % (i + 1, i + 3),
                                                "abs(x%d - x%d) * %d" % (i + 1, i + 3, rng.randint(1, 3)),
                                                [vs[i], vs[i + 2]]))
    cg = og.build_computation_graph(dcop)
    adef = AlgorithmDef("syncbb", {}, dcop.objective)
    return [ComputationDef(n, adef) for n in cg.nodes]


RECIPES = ["noisy_var", "dsa_numpy_value", "sync_cycle_id", "maxsum_inf"]


def recipe_objects(name):
    from pydcop.dcop.objects import Domain, VariableNoisyCostFunc
    from pydcop.utils.expressionfunction import ExpressionFunction
    if name == "noisy_var":
        return [VariableNoisyCostFunc("x6", Domain("d", "level", [0, 1, 2]), ExpressionFunction("x6 + 1"), noise_level=0.25)]
    if name == "dsa_numpy_value":
        import numpy
        from pydcop.algorithms.dsa import DsaMessage
        return [DsaMessage(numpy.int64(1))]
    if name == "sync_cycle_id":
        from pydcop.infrastructure.computations import SynchronizationMsg
        from pydcop.algorithms.maxsum import MaxSumMessage
        a, b = SynchronizationMsg(), MaxSumMessage({0: 1, 1: 2.5})
        a.cycle_id = 3          # what SynchronousComputationMixin.post_msg does
        b.cycle_id = 3
        return [a, b]
    if name == "maxsum_inf":
        from pydcop.algorithms.maxsum import MaxSumMessage
        return [MaxSumMessage({0: float("inf"), 1: 2})]
    raise ValueError(name)


def all_classes():
    """every SimpleRepr subclass of pydcop (after importing all modules that import)"""
    import importlib
    import pkgutil
    import warnings
    import pydcop
    failed = []
    with warnings.catch_warnings():
        warnings.simplefilter("ignore")
        for m in pkgutil.walk_packages(pydcop.__path__, "pydcop."):
            try:
                importlib.import_module(m.name)
            except BaseException as e:
                failed.append(m.name)

    def subs(c):
        out = set()
        for s_ in c.__subclasses__():
            out.add(s_)
            out |= subs(s_)
        return out
    cl = [c for c in subs(SimpleRepr) if c.__module__.startswith("pydcop.")]
    return sorted(cl, key=lambda c: (c.__module__, c.__qualname__)), failed


def cname(C):
    if _is_msgtype_class(C):
        return "message_type:" + C.__qualname__
    return C.__module__ + "." + C.__qualname__


def census_objects(rng):
    """one instance (at least) of every enumerated class; returns objects and the classes
    that could not be instantiated"""
    import inspect
    from pydcop.dcop.objects import (Domain, Variable, BinaryVariable, VariableWithCostDict, VariableWithCostFunc,
                                     VariableNoisyCostFunc, ExternalVariable, AgentDef)
    from pydcop.dcop import relations as R
    from pydcop.dcop.scenario import EventAction, DcopEvent, Scenario
    from pydcop.utils.expressionfunction import ExpressionFunction
    from pydcop.computations_graph.objects import ComputationNode, Link
    from pydcop.algorithms import AlgorithmDef
    objs = []
    d = Domain("d", "level", [0, 1, 2])
    ds = Domain("ds", "color", ["R", "G"])
    x1, x2 = Variable("x1", d, rng.choice([None, 1])), Variable("x2", ds)
    objs += [d, ds, x1, x2, BinaryVariable("b1", rng.choice([0, 1])),
             VariableWithCostDict("x3", ds, {"R": 0.5, "G": rng.randint(0, 9)}),
             VariableWithCostDict("x4", d, {0: 0.5, 1: 1, 2: rng.randint(0, 9)}),
             VariableWithCostDict("x7", d, {2: rng.randint(1, 9), 0: 0.5}),       # partial, not in domain order
             VariableWithCostFunc("x5", d, ExpressionFunction("x5 * 2"), 2),
             VariableNoisyCostFunc("x6", d, ExpressionFunction("x6 + 1"), noise_level=0.25),
             ExternalVariable("e1", d, rng.choice([0, 2])),
             AgentDef("a1", default_route=2, routes={"a2": 5}, default_hosting_cost=1, hosting_costs={"v0": 7},
                      capacity=rng.randint(1, 99), pref="x"),
             ExpressionFunction("x1 + k", k=rng.randint(0, 5)), ExpressionFunction("x1 * 2")]
    m = R.NAryMatrixRelation([x1, x2], [[rng.randint(0, 9) for _ in ds] for _ in d], name="m1")
    objs += [R.ZeroAryRelation("z", rng.randint(0, 9)), R.UnaryFunctionRelation("u", x1, ExpressionFunction("x1 + 1")),
             R.UnaryBooleanRelation("ub", x1), m, R.NeutralRelation([x1, x2], "n"),
             R.constraint_from_str("f1", "x1 * 2 if x2 == 'R' else 10", [x1, x2]),
             R.ConditionalRelation(R.UnaryBooleanRelation("ub", x1), m, name="cond", return_neutral=True),
             EventAction("remove_agent", agent="a1"), DcopEvent("e", delay=rng.randint(1, 5)),
             DcopEvent("e2", actions=[EventAction("remove_agent", agent="a1")]),
             Scenario([DcopEvent("e", delay=2)]),
             ComputationNode("n1", "t", links=[Link(["n1", "n2"], "l")]), ComputationNode("n1", neighbors=["n2", "n3"]),
             Link(["n1", "n2"]), AlgorithmDef("dsa", {"variant": "B", "stop_cycle": 0}, "max")]
    notes = []
    for g, a in ALL_ALGOS:
        try:
            o, n = graph_objects(random.Random(rng.randint(0, 10 ** 9)), a, 40)
            objs += [x for _, x in o]
            notes += n
        except Exception as e:
            notes.append("graph_objects(%s) failed: %s: %s" % (a, type(e).__name__, str(e)[:80]))
    objs += infra_messages(rng)
    try:
        objs += sparse_ordered_defs(rng)
    except Exception as e:
        notes.append("sparse_ordered_defs failed: %s: %s" % (type(e).__name__, str(e)[:80]))
    # messages with a hand-written repr need well-typed contents (never left to the fallback below)
    from pydcop.algorithms.maxsum import MaxSumMessage
    from pydcop.algorithms.mgm2 import Mgm2OfferMessage
    from pydcop.algorithms.dpop import DpopMessage
    objs += [MaxSumMessage({0: rng.randint(0, 9) / 2, 1: rng.randint(0, 9)}),
             Mgm2OfferMessage({(0, 1): rng.randint(0, 9) / 2, ("R", 2): 3}, True), Mgm2OfferMessage(),
             DpopMessage("VALUE", ([x1], [1])), DpopMessage("UTIL", m)]
    # classes still without an instance: generic instantiation from the signature
    classes, failed_imports = all_classes()
    have = set()
    for o in objs:
        _walk_classes(o, have)
    pool = [0, 1, 2, "R", 0.5, True, 3.25, "v1"]
    missing = []
    for C in classes:
        if C in have:
            continue
        try:
            if _is_msgtype_class(C):
                inst = C(*[rng.choice(pool) for _ in _msg_fields(C)])
            else:
                sig = inspect.signature(C.__init__)
                kw = {}
                for n, p in list(sig.parameters.items())[1:]:
                    if p.kind in (p.VAR_POSITIONAL, p.VAR_KEYWORD):
                        continue
                    kw[n] = rng.choice(pool)
                inst = C(**kw)
            simple_repr(inst)      # arbitrary scalars may be ill-typed for this class: then report it
            objs.append(inst)
            have.add(C)
        except Exception as e:
            missing.append("%s (%s)" % (cname(C), type(e).__name__))
    return objs, missing, notes, failed_imports


def _walk_classes(o, acc, depth=0):
    if depth > 12 or o is None or isinstance(o, (bool, int, float, str)):
        return
    if isinstance(o, (list, tuple, set, frozenset)):
        for x in o:
            _walk_classes(x, acc, depth + 1)
    elif isinstance(o, dict):
        for k, v in o.items():
            _walk_classes(v, acc, depth + 1)
    elif hasattr(o, "_simple_repr"):
        acc.add(type(o))
        for v in vars(o).values():
            _walk_classes(v, acc, depth + 1)


# ------------------------------------------------------------------ interface
def gen(rng, n, tier):
    cases = [dict(kind="census", seed=rng.randint(0, 10 ** 9))]
    for i in range(n - 1):
        k = rng.random()
        if k < 0.40:
            safe = rng.random() < 0.55
            trees = [g_tree(rng, rng.randint(1, 4), safe) for _ in range(4)]
            trees = [["L", [t]] if t == ["N"] else t for t in trees]
            cases.append(dict(kind="tree", safe=safe, nan=(not safe and rng.random() < 0.3), trees=trees))
        elif k < 0.58:
            safe = rng.random() < 0.7
            cases.append(dict(kind="custom", safe=safe, nan=(not safe and rng.random() < 0.3),
                              trees=[g_custom(rng, safe) for _ in range(4)]))
        elif k < 0.68:
            cases.append(dict(kind="agentdef", trees=[g_agentdef(rng) for _ in range(3)]))
        elif k < 0.78:
            cases.append(dict(kind="decode", trees=[g_decode(rng) for _ in range(5)]))
        elif k < 0.81:
            cases.append(dict(kind="infra", seed=rng.randint(0, 10 ** 9)))
        elif k < 0.83:
            cases.append(dict(kind="recipe", name=rng.choice(RECIPES)))
        else:
            g, a = rng.choice(ALL_ALGOS)
            cases.append(dict(kind="enum", algo=a, seed=rng.randint(0, 10 ** 9), steps=rng.choice([15, 40, 90])))
    return cases


MAX_ITEMS = 30


def run_impl(c):
    import warnings
    warnings.simplefilter("ignore")
    import logging
    logging.disable(logging.CRITICAL)
    kind = c["kind"]
    items, extra = [], {}
    if kind in ("tree", "custom"):
        for t in c["trees"]:
            items.append(wire_item(build(t), nan=c["nan"]))
            items[-1]["gen"] = t
    elif kind == "agentdef":
        for t in c["trees"]:
            o = build(t)
            items.append(wire_item(o))
            items.append(pickle_item(o))
    elif kind == "decode":
        for t in c["trees"]:
            items.append(decode_item(t))
    elif kind == "recipe":
        for o in recipe_objects(c["name"]):
            items.append(wire_item(o, label=cname(type(o))))
    elif kind == "infra":
        for o in infra_messages(random.Random(c["seed"])):
            items.append(wire_item(o, label=cname(type(o))))
    elif kind == "enum":
        rng = random.Random(c["seed"])
        objs, notes = graph_objects(rng, c["algo"], c["steps"])
        extra["notes"] = notes
        if len(objs) > MAX_ITEMS:
            keep = [o for o in objs if o[0] != "algo_msg"][:MAX_ITEMS // 2]
            rest = [o for o in objs if o not in keep]
            rng.shuffle(rest)
            objs = keep + rest[:MAX_ITEMS - len(keep)]
        for label, o in objs:
            it = wire_item(o, label=cname(type(o)))
            it["role"] = label
            if label == "agent":
                items.append(pickle_item(o))
            items.append(it)
    elif kind == "census":
        rng = random.Random(c["seed"])
        objs, missing, notes, failed = census_objects(rng)
        extra.update(missing=missing, notes=notes, failed_imports=failed)
        seen = set()
        for o in objs:
            it = wire_item(o, label=cname(type(o)))
            key = json.dumps(it["in"])
            if key in seen:
                continue
            seen.add(key)
            items.append(it)
    # de-duplicate identical objects inside a case
    out, seen = [], set()
    for it in items:
        key = json.dumps([it["k"], it["in"], it.get("nan")])
        if key not in seen:
            seen.add(key)
            out.append(it)
    return dict(items=out, **extra)


# ---- independent statement of which generated trees must survive (tree / custom kinds)
def py_safe(t, nan=False):
    k = t[0]
    if k in ("N", "B", "I", "S"):
        return True
    if k == "F":
        return nan or t[1] not in SPECIAL
    if k in ("L", "T"):
        return all(py_safe(x, nan) for x in t[1])
    if k == "D":
        keys = [a[1] for a, _ in t[1] if a[0] == "S"]
        return len(keys) == len(t[1]) and not ("__module__" in keys and "__qualname__" in keys) \
            and all(py_safe(b, nan) for _, b in t[1])
    if k == "NT":
        return all(v[0] in ("N", "B", "I", "S") or (v[0] == "F" and py_safe(v, nan)) for _, v in t[3])
    if k == "M":
        return all(py_safe(v, nan) for _, v in t[2])
    if k == "O":
        qn = t[2]
        f = dict((n, v) for n, v in t[3])
        if qn in GEN_CLASSES:
            return all(py_safe(v, nan) for v in f.values())
        scal = lambda v: v[0] in ("N", "B", "I", "S") or (v[0] == "F" and py_safe(v, nan))
        if qn == "MaxSumMessage":
            d = f["costs"][1]
            return len(d) > 0 and all(scal(a) and scal(b) for a, b in d)
        if qn == "Mgm2OfferMessage":
            d = f["offers"][1]
            return (f["is_offering"][1] or not d) and all(
                a[0] == "T" and all(scal(x) for x in a[1]) and scal(b) for a, b in d)
        if qn in ("PseudoTreeLink", "OrderLink", "FactorGraphLink"):
            return True
        if qn == "AlgorithmDef":
            return all(scal(b) for _, b in f["params"][1])
        if qn == "ExpressionFunction":
            return all(scal(b) for _, b in f["fixed_vars"][1])
        if qn == "Domain":
            return all(scal(v) for v in f["values"][1])
        if qn == "Link":
            return True
        if qn == "VariableWithCostDict":
            # any subset of the domain, in any order: scalar keys and costs
            return py_safe(f["domain"], nan) and scal(f["name"]) and scal(f["initial_value"]) \
                and all(scal(a) and scal(b) for a, b in f["costs"][1])
        if qn == "AgentDef":
            return all(py_safe(v, nan) for v in f.values())
    return False


def _demanded(c, it):
    """does the property demand that this item survives?"""
    if c["kind"] in ("tree", "custom"):
        # non-finite floats are legitimate contents (costs); with nan=True the case only
        # exercises the model against the permissive encoder of older requests versions
        return py_safe(it["gen"], True) and not c["nan"]
    if c["kind"] == "decode":
        return False
    if it["cls"].startswith("pydcop.dcop.scenario."):
        return False      # scenario objects stay inside the orchestrator, never transmitted
    return True


def oracle(c, o):
    msgs = []      # (is an instance of a listed finding, message)
    for it in o["items"]:
        if not _demanded(c, it):
            continue
        if c["kind"] in ("tree", "custom"):
            # decoded value must be the generated tree itself (sets compared as given)
            if it["out"].get("ok") != it["in"]:
                msgs.append((_finding_of(it) is not None, "%s: %s does not survive the wire: received %s" % (
                    it["cls"], json.dumps(it["in"])[:200], json.dumps(it["out"])[:200])))
            continue
        if it.get("diff"):
            msgs.append((_finding_of(it) is not None, "%s (%s) does not survive %s: %s" % (
                it["cls"], it.get("role", c["kind"]), "pickling" if it["k"] == "pickle" else "the wire", it["diff"])))
        elif it["k"] == "wire" and it["in"][0] == "M" and it["out"].get("ok") != it["in"]:
            # a message_type message: same type name, same fields (the class it is rebuilt with must not
            # depend on what was decoded before in this process), same field values as the one sent
            msgs.append((_finding_of(it) is not None, "%s (%s) does not survive the wire: sent %s, received %s" % (
                it["cls"], it.get("role", c["kind"]), json.dumps(it["in"])[:200], json.dumps(it["out"])[:200])))
    # report a failure that is not an instance of a listed finding first
    for known, m in msgs:
        if not known:
            return m
    return msgs[0][1] if msgs else None


def coq_case(c, o):
    terms = []
    for it in o["items"]:
        try:
            if it["k"] == "wire":
                terms.append("IWire %s %s %s %s" % (q.b(it["nan"]), gal(it["in"]), gal_outcome(it["repr"]),
                                                    gal_outcome(it["out"])))
            elif it["k"] == "pickle":
                terms.append("IPickle %s %s" % (gal(it["in"]), gal_outcome(it["out"])))
            else:
                terms.append("IDecode %s %s" % (gal(it["in"]), gal_outcome(it["out"])))
        except Unmodelled:
            continue
    if not terms:
        return None
    return q.lst(terms)


def _finding_of(it):
    """known-finding id for one failing item (precise predicates)"""
    d = it.get("diff") or ""
    if it["k"] != "wire":
        return None
    if it["out"].get("err") == "ValueError" and has_special_float(it["in"]) and not it["nan"]:
        return "C15-nonfinite-float-not-json"
    if it["out"].get("err") == "TypeError" and tree_has(it["in"], lambda x: x[0] == "U" and x[1].startswith("numpy.")):
        return "C15-numpy-scalar-not-json"
    if d.startswith("/") and d.split(":")[0].endswith("VariableNoisyCostFunc.<costs>"):
        return "C15-noisy-costs-redrawn"
    if d.endswith(".cycle_id present on one side only") or d.split(":")[0].endswith("SynchronizationMsg.cycle_id"):
        return "C15-sync-cycle-id-lost"
    return None


def classify(c, o, msg):
    ids = set()
    for it in o["items"]:
        if not _demanded(c, it):
            continue
        bad = (it["out"].get("ok") != it["in"]) if c["kind"] in ("tree", "custom") else bool(it.get("diff"))
        if bad:
            ids.add(_finding_of(it))
    if not ids or None in ids:
        return None
    return sorted(ids)[0]     # every failing item of the case is an instance of a listed finding


def nontrivial(c, o):
    return any(it["in"][0] not in ("N", "B", "I", "F", "S") for it in o.get("items", []))


def histogram(cases, obs):
    h = collections.Counter()
    classes = collections.Counter()
    unmodelled = collections.Counter()
    missing, notes, failed = set(), collections.Counter(), set()
    for c, o in zip(cases, obs):
        h["case:" + c["kind"]] += 1
        if not isinstance(o, dict) or "items" not in o:
            continue
        for it in o["items"]:
            h["item:" + it["k"]] += 1
            if "err" in it["out"]:
                h["outcome:" + it["out"]["err"]] += 1
            seen_cl = tree_classes(it["in"], set())
            if it["in"][0] == "U" and it["cls"].startswith("pydcop."):
                seen_cl.add(it["cls"])
            for cl in seen_cl:
                classes[cl] += 1
            try:
                gal(it["in"]); gal_outcome(it["out"]); gal_outcome(it.get("repr", it["out"]))
            except Unmodelled as e:
                unmodelled[it["cls"] + ": " + str(e)] += 1
        for m in o.get("missing", []):
            missing.add(m)
        for n in o.get("notes", []):
            notes[n.split(":")[0][:60]] += 1
        for f in o.get("failed_imports", []):
            failed.add(f)
    try:
        cl, _ = all_classes()
        never = sorted(cname(C) for C in cl if classes.get(cname(C), 0) == 0)
    except Exception as e:
        never = ["<enumeration failed: %s>" % e]
    return dict(counts=dict(h), classes_exercised=len(classes), instances_per_class=dict(classes),
                classes_never_instantiated=never, cannot_instantiate=sorted(missing),
                items_not_modelled=dict(unmodelled), modules_not_importable=sorted(failed),
                run_notes=dict(notes))


def shrink_candidates(c):
    if "trees" in c and len(c["trees"]) > 1:
        for i in range(len(c["trees"])):
            d = dict(c)
            d["trees"] = [c["trees"][i]]
            yield d
    if c.get("kind") == "enum" and c.get("steps", 0) > 15:
        d = dict(c)
        d["steps"] = 15
        yield d
