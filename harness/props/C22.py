"""C22 -- orchestrated solve terminates and reports a true optimal result.

Two kinds of cases:
  real     a REAL thread-mode run (run_local_thread_dcop + deploy + run(timeout), exactly what
           pydcop.infrastructure.run.solve and the `solve` command do) of DPOP on a small DCOP,
           distribution oneagent / adhoc / gh_cgdp / random, perturbed sys.setswitchinterval.
           Every call the orchestrator's thread makes into AgentsMgt (messages and discovery
           callbacks) is recorded with the management messages it sent; the trace is replayed
           through the Coq model M_Orch, which must send the same messages at the same steps and
           end with the same status table, assignment, cost and violation count.
  crafted  the same AgentsMgt object driven without threads by a crafted event sequence
           (missing / repeated / unknown computations, early stop requests, unknown message
           types, partial assignments) -- the glue and error paths a clean run never takes.
  composed thread-free composition of the REAL layers: DpopAlgo computations under the seeded
           netdriver (C01's generator and schedule policies), hosted by real, never started
           OrchestratedAgents (Agent.add_computation's notify_wrap, OrchestrationComputation), whose
           management messages travel through the agents' Messaging and the in-process layer into
           the queue of a real, never started Orchestrator; the harness pops the queue into
           AgentsMgt.on_message.  Checked by M_OrchDpop.check_ccase: the DPOP layer replays (C01's
           check), the AgentsMgt layer replays, the value/end messages AgentsMgt handled are
           exactly M_OrchDpop.mgmt_of of the events of the DPOP model under the same schedule
           (link + thread-mode transport), and the orchestrator's DCOP object is dcop_of the DPOP
           model's dcop.  These are the hypotheses of Prop_C22.orch_dpop_result_optimal.
The oracle is an independent statement of C22: finished-not-timeout, total optimal assignment
(brute force), cost / violation equal to a separate accounting of that assignment.
"""
import random
import time

from harness import coqio as q
from harness.props import _rt_common as rt

ID = "C22"
COQ_REQUIRE = ["Net", "M_Dpop", "M_DpopValid", "M_Orch", "M_OrchDpop"]
COQ_CASE_TYPE = "M_OrchDpop.case2"
COQ_CHECK = "M_OrchDpop.check_case2"
OBLIGATIONS = ["orch_finishes_iff_all_ended", "orch_stop_requested_iff", "orch_reports_last_values",
               "orch_cost_accounts_assignment",
               "orch_cost_none_iff_incomplete", "orch_cost_none_unguarded_refuted",
               "orch_deploy_each_once", "orch_run_each_once", "dpop_events_ordered",
               "dpop_all_finished_complete", "orch_solution_cost_is_dcop_cost",
               "orch_cost_plus_violations", "orch_thread_mode_transport", "orch_dpop_stop_sound",
               "orch_dpop_stop_happens", "orch_dpop_result_optimal", "orch_dpop_stop_result"]
N_QUICK, N_THOROUGH = 160, 1600
N_SEARCH = 320   # size of the extra oracle search after a broken obligation/correspondence (real threaded runs are slow)
PARALLEL = 8
SHARD = 120
RUN_TIMEOUT = 90          # orchestrator.run(timeout=...): generous, a clean run takes ~1.2 s
RULE = ("25% real thread-mode DPOP runs (3-6 variables, domains 2-3, random connected constraint "
        "graphs with unary/binary/ternary integer-cost matrix constraints incl. the 'infinity' "
        "constant, min and max, distributions oneagent/adhoc/gh_cgdp/random, switch interval "
        "1e-6..5e-3 s), 50% crafted thread-free event sequences on the real AgentsMgt, 25% composed "
        "thread-free runs (C01's dcops: 1-7 variables, n-ary matrix constraints, forests, variable "
        "costs, 10% tables with the infinity constant; seeded netdriver schedules, 15% truncated; "
        "1-4 real OrchestratedAgents, real orchestrator queue drained never/sometimes/always "
        "between steps); real and composed cases declare initial values for half of the problems; 40% of "
        "real cases start agents outside the distribution only after the stop order, 25% solve twice with "
        "the same Distribution/graph/DCOP objects, 20% are star-like problems with a hub distribution and "
        "late discovery notifications (several messages pending for one unknown recipient); "
        "non-trivial = at least 3 value/end events; distinct = distinct case JSON")
MODELLED = ("AgentsMgt bookkeeping (registration, deploy, run, value collection, end-of-computation "
            "detection, stop, global_metrics with solution_cost) is modelled; theorems: stop is sent "
            "exactly when the last graph computation reports its end, the reported assignment is the "
            "last value of every computation, cost/violation are the accounting of that assignment "
            "(None iff a variable has no value and scopes are variables); the composition with the DPOP "
            "network model of C01 is a theorem under an explicit assumption on the management transport "
            "(per-computation FIFO, no loss/duplication/invention; proved for the thread-mode queue order): "
            "the stop order is never early, is sent at quiescence, the reported assignment is total = "
            "DPOP's values = optimal, cost + infinity*violation = the optimum; the link (events -> "
            "management messages, DCOP object) is tied to the real OrchestratedAgent / Messaging code by "
            "the composed cases; real threads, timers, the timeout itself and that run orders start the "
            "computations are only exercised by the runs")
META = dict(
    level_text=("Partial proof (Coq): for the model of the orchestrator's management computation, for "
                "every message trace, Stop is sent to all registered agents exactly when the handled "
                "message is an end_of_computation and all computations of the graph have then ended; "
                "the reported assignment is the last value_change of each computation; the reported "
                "(violation, cost) is the DCOP's accounting of that assignment, None iff some variable "
                "has no value. Composed with the DPOP network model of C01 (proved optimal for all "
                "schedules) through an explicit link model, under a stated assumption on the management "
                "transport (per computation: what AgentsMgt handled is a prefix of what was posted, in "
                "order; nothing else names a computation; proved to hold for a FIFO queue): for every "
                "DCOP passing C01's checker, every schedule and every such trace, the stop order is only "
                "sent when all computations finished and the value table is final, it is sent once the "
                "network is quiescent and the messages handled, the reported assignment is total, equals "
                "DPOP's values and is optimal, and cost + infinity*violation equals the optimum. The "
                "models are tied to orchestrator.py/orchestratedagents.py/agents.py/dcop.py by replaying "
                "management traces of real thread-mode DPOP runs, crafted thread-free sequences and "
                "thread-free compositions of the real layers on every check; an independent oracle checks "
                "finished-not-timeout, optimality by brute force, the cost accounting and the transport "
                "assumption on each run."),
    level_note=("Not covered by theorems: OS threads, timers, the timeout, agent start-up/registration "
                "through the in-process communication layer, that the run orders make agents start the "
                "computations, the management transport itself (an assumption, checked on every run). "
                "Trusted: Coq kernel, M_Orch.v, M_OrchDpop.v, M_Dpop.v, the harness. Real runs use a "
                "forked child per run with a hard limit."),
    technique="Coq proof over executable Gallina state machine + trace replay of real threaded runs",
    design_ref="DESIGN.md §5 C22",
)

DISTS = ["oneagent", "adhoc", "gh_cgdp", "random"]


# ------------------------------------------------------------------ generation
def _gen_initial(rng, doms):
    """declared initial values (Variable(..., initial_value=...)): DPOP must report its value
    whether or not it equals the initial one"""
    if rng.random() < 0.5:
        return None
    return [rng.randrange(k) if rng.random() < 0.7 else None for k in doms]


def _gen_hub(rng):
    """star-like problem, the centre alone on one agent and its leaves together on another, the
    discovery answers delivered late: several messages wait for the same unknown recipient"""
    n = rng.randint(4, 6)
    doms = [rng.randint(2, 3) for _ in range(n)]
    scopes = [[0, i] if rng.random() < 0.5 else [i, 0] for i in range(1, n)]
    if rng.random() < 0.3:
        scopes.append([rng.randrange(n)])
    rng.shuffle(scopes)
    cons = []
    for sc in scopes:
        size = 1
        for i in sc:
            size *= doms[i]
        cons.append(dict(scope=sc, table=[rng.randint(-3, 12) for _ in range(size)]))
    spec = dict(doms=doms, cons=cons, objective=rng.choice(["min", "max"]))
    return dict(kind="real", spec=spec, n_agents=rng.randint(2, 3), dist="hub", capacity=1000,
                seed=rng.randrange(1 << 30), switch=rng.choice([1e-5, 1e-4, 1e-3]),
                late_idle=False, late_pub=rng.choice([0.1, 0.3]), initial=_gen_initial(rng, doms),
                twice=False)


def _gen_real(rng):
    if rng.random() < 0.2:
        return _gen_hub(rng)
    n = rng.randint(3, 6)
    spec = rt.gen_dcop_spec(rng, n)
    dist = rng.choice(DISTS)
    n_agents = n + rng.randint(0, 2) if dist == "oneagent" else rng.randint(2, n + 1)
    return dict(kind="real", spec=spec, n_agents=n_agents, dist=dist,
                initial=_gen_initial(rng, spec["doms"]),
                # a second solve with the same Distribution / graph / DCOP objects in the same process
                twice=rng.random() < 0.25,
                capacity=rng.choice([2, 3, 1000]) if dist in ("adhoc", "gh_cgdp") else 1000,
                seed=rng.randrange(1 << 30),
                switch=rng.choice([1e-6, 1e-5, 1e-4, 1e-3, 5e-3]),
                # agents that host nothing (oneagent with spare agents) start only after the stop
                # order: the interleaving of finding C22-late-agent-never-stopped, forced
                late_idle=rng.random() < 0.4)


def _gen_crafted(rng):
    n = rng.randint(1, 5)
    spec = rt.gen_dcop_spec(rng, n, p_hard=0.2)
    n_agents = rng.randint(1, 4)
    agents = [rt.aname(i) for i in range(n_agents)]
    comps = [rt.vname(i) for i in range(n)]
    var_costs = {}
    for i in range(n):
        if rng.random() < 0.3:
            var_costs[str(i)] = [rt.INFINITY if rng.random() < 0.15 else rng.randint(0, 5)
                                 for _ in range(spec["doms"][i])]
    script = []
    regs = [a for a in agents if rng.random() < 0.8]
    rng.shuffle(regs)
    for a in regs:
        script.append(["agent_added", a])
    if rng.random() < 0.9:
        script.append(["deploy"])
    style = rng.random()
    body = []
    for c in comps:
        if rng.random() < 0.92:
            body.append(["comp_added", c])
    rng.shuffle(body)
    script += body
    if rng.random() < 0.9:
        script.append(["run"])
    msgs = []
    for i, c in enumerate(comps):
        r = rng.random()
        nv = 0 if r < 0.12 else (1 if r < 0.8 else rng.randint(2, 3))
        for _ in range(nv):
            msgs.append(["value", c, rng.randrange(spec["doms"][i])])
        if rng.random() < (0.95 if style < 0.6 else 0.6):
            msgs.append(["end", c])
        if rng.random() < 0.08:
            msgs.append(["end", c])
    for _ in range(rng.choice([0, 0, 0, 1, 2])):
        x = rng.choice(["c00", "zz", "B_v00_a00"])
        msgs.append(rng.choice([["value", x, rng.randint(0, 3)], ["end", x]]))
    for _ in range(rng.choice([0, 0, 0, 0, 1])):
        msgs.append(rng.choice([["stopreq"], ["other"], ["metrics", rng.choice(agents)],
                                ["agent_removed", rng.choice(agents)],
                                ["comp_removed", rng.choice(comps)]]))
    rng.shuffle(msgs)
    script += msgs
    tail = []
    for a in agents:
        if rng.random() < 0.7:
            tail.append(["stopped", a])
        if rng.random() < 0.8:
            tail.append(["agent_removed", a])
    rng.shuffle(tail)
    late = [a for a in agents if a not in regs]
    if late and rng.random() < 0.7:      # an agent that registers after the others finished
        tail.insert(rng.randrange(len(tail) + 1), ["agent_added", rng.choice(late)])
    script += tail
    if rng.random() < 0.3:      # late messages after everything stopped
        script.append(["value", rng.choice(comps), 0])
        script.append(["end", rng.choice(comps)])
    return dict(kind="crafted", spec=spec, n_agents=n_agents, var_costs=var_costs,
                dist=rng.choice(["random", "random", "oneagent_like"]), seed=rng.randrange(1 << 30),
                script=script)


def _gen_composed(rng):
    """a C01 case (dcop + seed of a netdriver schedule) turned into a composed run: real DpopAlgo
    computations hosted by real (unstarted) OrchestratedAgents, a real Orchestrator's queue"""
    from harness.props import C01 as c01
    dp = c01.gen(rng, 1, "quick")[0]
    dp.pop("prelude", None)                   # one solve per composed case
    n = len(dp["doms"])
    dp["offs"] = [0] * n                      # value = domain index (M_Orch's values are indices)
    for cc in dp["cons"]:                     # keep the generated tables, as matrix constraints
        cc["kind"] = "matrix"
        cc.pop("expr", None)
        if rng.random() < 0.1:                # some infinite costs
            t = cc["table"]
            while isinstance(t[0], list):
                t = rng.choice(t)
            t[rng.randrange(len(t))] = rt.INFINITY
    n_agents = rng.randint(1, 4)
    host = [rng.randrange(n_agents) for _ in range(n)]
    return dict(kind="composed", dpop=dp, n_agents=n_agents, host=host, initial=_gen_initial(rng, dp["doms"]),
                drain=rng.choice([0.0, 0.3, 1.0]), seed=rng.randrange(1 << 30))


def gen(rng, n, tier):
    cases = []
    for i in range(n):
        if i % 4 == 0:
            cases.append(_gen_real(rng))
        elif i % 4 == 2:
            cases.append(_gen_composed(rng))
        else:
            cases.append(_gen_crafted(rng))
    return cases


# ------------------------------------------------------------------ implementation drivers
def _static(dcop, cg, dist, orch):
    return dict(nodes=[n.name for n in cg.nodes],
                dist=[[a, list(cs)] for a, cs in dist.mapping().items()],
                variables=[x.name for x in dcop.all_variables],
                constraints=[dict(scope=[v.name for v in c.dimensions]) for c in dcop.constraints.values()],
                cons_names=list(dcop.constraints))


def _final(orch):
    m = orch.end_metrics()
    return dict(assignment=[[k, int(v)] for k, v in m["assignment"].items()],
                cost=None if m["cost"] is None else int(m["cost"]),
                violation=None if m["violation"] is None else int(m["violation"]),
                comp_status=[[k, v] for k, v in orch.mgt._computation_status.items()])


class _initial_values(object):
    """while active every Variable named in `init` is built as Variable(..., initial_value=init[name])
    (the shared dcop builders take no initial values)"""

    def __init__(self, init):
        self.init = init

    def __enter__(self):
        from pydcop.dcop import objects
        self.orig = orig = objects.Variable.__init__
        init = self.init

        def __init__(slf, name, domain, initial_value=None):
            orig(slf, name, domain, init.get(name, initial_value))
        objects.Variable.__init__ = __init__

    def __exit__(self, *a):
        from pydcop.dcop import objects
        objects.Variable.__init__ = self.orig


def _hub_distribution(cg, dcop):
    """a node with two leaf children alone on the first agent, everything else on the second: the
    second agent sends several messages to the same remote computation"""
    from importlib import import_module
    from pydcop.distribution.objects import Distribution
    gm = import_module("pydcop.computations_graph.pseudotree")
    rel = {n.name: gm.get_dfs_relations(n) for n in cg.nodes}
    hub = None
    for name, (p, pps, ch, pcs) in rel.items():
        if sum(1 for c in ch if not rel[c][2]) >= 2:
            hub = name
            break
    if hub is None:
        hub = [n for n, r in rel.items() if r[0] is None][0]
    agents = sorted(dcop.agents)
    mapping = {a: [] for a in agents}
    mapping[agents[0]] = [hub]
    mapping[agents[1]] = [n.name for n in cg.nodes if n.name != hub]
    return Distribution(mapping)


def _hold_publications(delay):
    """another delivery schedule of the discovery traffic: the directory's publish_computation
    notifications reach an agent only `delay` seconds after its run order, so the agent's
    computations post their first messages before the agent knows where the recipients are
    (Messaging's retry path)"""
    import threading
    from pydcop.infrastructure.communication import InProcessCommunicationLayer as L
    orig = L.receive_msg
    lock = threading.Lock()
    held, released = {}, set()

    def release(agent):
        with lock:
            released.add(agent)
            msgs = held.pop(agent, [])
        for slf, a, b, m in msgs:
            orig(slf, a, b, m)

    def receive_msg(self, src_agent, dest_agent, msg):
        m_type = getattr(msg[2], "type", None)
        if dest_agent != "orchestrator":
            if m_type == "publish_computation":
                with lock:
                    if dest_agent not in released:
                        held.setdefault(dest_agent, []).append((self, src_agent, dest_agent, msg))
                        return
            elif m_type == "run_computations":
                t = threading.Timer(delay, release, [dest_agent])
                t.daemon = True
                t.start()
        return orig(self, src_agent, dest_agent, msg)
    L.receive_msg = receive_msg


_AGENTS = []


def _track_agents():
    from pydcop.infrastructure import orchestratedagents as oa
    if getattr(oa.OrchestratedAgent, "_c22_tracked", False):
        return
    orig = oa.OrchestratedAgent.__init__

    def __init__(self, *a, **k):
        orig(self, *a, **k)
        _AGENTS.append(self)
    oa.OrchestratedAgent.__init__ = __init__
    oa.OrchestratedAgent._c22_tracked = True


def _solve_once(case, algo, cg, dist, dcop, saved):
    """one orchestrated thread-mode solve, as pydcop.infrastructure.run.solve does it"""
    from pydcop.infrastructure import orchestrator as om
    from pydcop.infrastructure.run import run_local_thread_dcop
    M = om.AgentsMgt
    M.on_message, M._send_mgt_msg, M._cb_agent_registration, M._cb_computation_registration = saved
    tr = rt.MgtTrace().install()
    _track_agents()
    # snapshot first: Distribution.computations_hosted() on a defaultdict mapping (oneagent)
    # inserts the agents it is asked about, so dist.agents grows during the run
    static = _static(dcop, cg, dist, None)
    t0 = time.time()
    orch = run_local_thread_dcop(algo, cg, dist, dcop, rt.INFINITY)
    res = {}
    try:
        orch.deploy_computations()
        # Orchestrator.run() first waits for ready_to_run without any limit (the timeout timer
        # is armed after it): look before, so that a run that can never start is reported
        if orch.mgt.ready_to_run.wait(RUN_TIMEOUT / 2):
            orch.run(timeout=RUN_TIMEOUT)
            res["status"] = orch.status          # what commands/solve.py reads right after run()
        else:
            res["status"] = "NOT_READY"
        res["elapsed"] = time.time() - t0
        res.update(_final(orch))
        res["static"] = static
    finally:
        if orch._timeout_timer is not None:
            orch._timeout_timer.cancel()
        orch.stop_agents(5)
        orch.stop()
    res["trace"] = tr.entries
    res["foreign"] = tr.foreign
    res["dist_after"] = [[a, list(cs)] for a, cs in dist.mapping().items() if cs]
    if res.get("status") != "OK":       # diagnostics only: messages still waiting for their recipient
        res["stranded"] = [[a.name, f[0], f[1], getattr(f[2], "type", "?")]
                           for a in _AGENTS for f in list(a._messaging._failed)][:20]
    del _AGENTS[:]
    return res


def _real(case):
    import sys
    sys.setswitchinterval(case["switch"])
    from pydcop.distribution.objects import ImpossibleDistributionException
    from pydcop.infrastructure import orchestrator as om

    def build(capacity):
        init = {rt.vname(i): v0 for i, v0 in enumerate(case.get("initial") or []) if v0 is not None}
        with _initial_values(init):
            dcop = rt.build_dcop(case["spec"], case["n_agents"], capacity=capacity)
        algo, cg, dist = rt.build_runtime(dcop, "dpop", "random" if case["dist"] == "hub" else case["dist"],
                                          rng_seed=case["seed"])
        if case["dist"] == "hub":
            dist = _hub_distribution(cg, dcop)
        return dcop, algo, cg, dist
    try:
        dcop, algo, cg, dist = build(case["capacity"])
    except ImpossibleDistributionException:
        # the heuristic found no placement within the small capacity (C23's subject): the
        # property is about valid distributions, so retry with ample capacity
        dcop, algo, cg, dist = build(1000)
    if case.get("late_idle"):
        import threading
        from pydcop.infrastructure import orchestratedagents as oa
        # only agents the orchestrator does not wait for before deploying (not in the mapping)
        busy = set(dist.mapping().keys())
        gate = threading.Event()
        orig_start, orig_stop = oa.OrchestratedAgent.start, om.AgentsMgt._orchestrator_stop_agents

        def start(self, *a, **k):
            if self.name in busy:
                return orig_start(self, *a, **k)
            threading.Thread(target=lambda: (gate.wait(RUN_TIMEOUT), time.sleep(0.02), orig_start(self, *a, **k)),
                             daemon=True).start()

        def stop_agents(self, *a):
            try:
                return orig_stop(self, *a)
            finally:
                gate.set()
        oa.OrchestratedAgent.start, om.AgentsMgt._orchestrator_stop_agents = start, stop_agents
    if case.get("late_pub"):
        _hold_publications(case["late_pub"])
    M = om.AgentsMgt
    saved = (M.on_message, M._send_mgt_msg, M._cb_agent_registration, M._cb_computation_registration)
    dist0 = [[a, list(cs)] for a, cs in dist.mapping().items() if cs]
    res = _solve_once(case, algo, cg, dist, dcop, saved)
    res["dist0"] = dist0
    if case.get("twice"):
        # the same DCOP / graph / Distribution objects solved again in the same process
        first = {k: res[k] for k in ("status", "elapsed", "assignment", "cost", "violation", "dist_after")}
        if case.get("late_idle"):
            gate.clear()
        res = _solve_once(case, algo, cg, dist, dcop, saved)
        res["first"] = first
        res["dist0"] = dist0
    return res


def _crafted(case):
    rt.quiet()
    from pydcop.distribution.objects import Distribution
    from pydcop.infrastructure.communication import InProcessCommunicationLayer
    from pydcop.infrastructure.computations import Message
    from pydcop.infrastructure import orchestrator as om
    dcop = rt.build_dcop(case["spec"], case["n_agents"], var_costs=case["var_costs"])
    rnd = random.Random(case["seed"])
    algo, cg, dist = rt.build_runtime(dcop, "dpop", "random", rng_seed=case["seed"])
    if case["dist"] == "oneagent_like":     # agents without computations are not in the mapping
        dist = Distribution({a: cs for a, cs in dist.mapping().items() if cs})
    tr = rt.MgtTrace().install()
    static = _static(dcop, cg, dist, None)
    orch = om.Orchestrator(algo, cg, dist, InProcessCommunicationLayer(), dcop, rt.INFINITY)
    orch.repair_only = False
    mgt = orch.mgt
    critical = []
    orch.stop_agents = lambda t=None: critical.append(t)
    mgt.message_sender = lambda *a, **k: None
    mgt.on_start()
    disc = orch.discovery
    hosts = {}
    skipped = 0
    for op in case["script"]:
        k = op[0]
        try:
            if k == "agent_added":
                disc.register_agent(op[1], "addr_" + op[1], publish=False)
            elif k == "agent_removed":
                disc.unregister_agent(op[1], publish=False)
            elif k == "comp_added":
                a = dist.agent_for(op[1])
                hosts[op[1]] = a
                disc.register_computation(op[1], a, publish=False)
            elif k == "comp_removed":
                disc.unregister_computation(op[1], hosts.get(op[1]), publish=False)
            elif k == "deploy":
                mgt.on_message("_mgt_orchestrator", Message("_orchestrator_deploy_computations", None), 0)
            elif k == "run":
                mgt.on_message("_mgt_orchestrator", Message("_orchestrator_run_computations", None), 0)
            elif k == "stopreq":
                mgt.on_message("_mgt_orchestrator", Message("_orchestrator_stop_agents", None), 0)
            elif k == "other":
                mgt.on_message("_mgt_x", Message("no_such_handler", None), 0)
            elif k == "value":
                a = hosts.get(op[1], "a00")
                mgt.on_message("_mgt_" + a, om.ValueChangeMessage(a, op[1], op[2], 0, 0, {}), 0)
            elif k == "end":
                a = hosts.get(op[1], "a00")
                mgt.on_message("_mgt_" + a, om.ComputationFinishedMessage(a, op[1]), 0)
            elif k == "stopped":
                mgt.on_message("_mgt_" + op[1], om.AgentStoppedMessage(op[1], {}), 0)
            elif k == "metrics":
                mgt.on_message("_mgt_" + op[1], om.MetricsMessage(op[1], {}), 0)
        except Exception as e:   # e.g. registering a computation on an agent that never registered
            skipped += 1
            tr._tl.cur = None
    res = dict(status=orch.status, elapsed=0.0, trace=tr.entries, foreign=tr.foreign,
               critical=len(critical), skipped=skipped)
    res.update(_final(orch))
    res["static"] = static
    return res


def _composed(case):
    """Thread-free composition of the REAL layers: DpopAlgo computations driven by the netdriver
    under a seeded schedule; each is hosted (Agent.add_computation: the notify_wrap of
    _on_value_selection / finished) by a real, never started OrchestratedAgent whose
    OrchestrationComputation posts the management messages through the agent's real Messaging and
    the in-process communication layer into the queue of a real, never started Orchestrator; the
    harness pops that queue and hands the messages to AgentsMgt.on_message (what Agent._run does)."""
    rt.quiet()
    import numpy
    from importlib import import_module
    from harness.props import C01 as c01
    from harness.pydrv.netdriver import NetDriver, pick_policy
    from pydcop.algorithms import load_algorithm_module, AlgorithmDef, ComputationDef
    from pydcop.dcop.objects import AgentDef
    from pydcop.distribution.objects import Distribution
    from pydcop.infrastructure.communication import InProcessCommunicationLayer
    from pydcop.infrastructure.computations import Message
    from pydcop.infrastructure.orchestratedagents import OrchestratedAgent, ORCHESTRATOR_MGT, ORCHESTRATOR
    from pydcop.infrastructure import orchestrator as om
    c = case["dpop"]
    rng = random.Random(case["seed"])
    random.seed(case["seed"])
    numpy.random.seed(case["seed"] % (2 ** 32))
    init = {c01._v(i): v0 for i, v0 in enumerate(case.get("initial") or []) if v0 is not None}
    with _initial_values(init):
        dcop, vs = c01.build_dcop(c)
    mod = load_algorithm_module("dpop")
    gm = import_module("pydcop.computations_graph." + mod.GRAPH_TYPE)
    cg = gm.build_computation_graph(dcop)
    adef = AlgorithmDef.build_with_default_param("dpop", {}, mode=dcop.objective,
                                                 parameters_definitions=mod.algo_params)
    agents = [rt.aname(i) for i in range(case["n_agents"])]
    mapping = {a: [] for a in agents}
    for node in cg.nodes:
        mapping[agents[case["host"][int(node.name[1:])]]].append(node.name)
    dist = Distribution(mapping)
    dcop.add_agents([AgentDef(a) for a in agents])
    tr = rt.MgtTrace().install()
    static = _static(dcop, cg, dist, None)
    orch = om.Orchestrator(adef, cg, dist, InProcessCommunicationLayer(), dcop, rt.INFINITY)
    orch.repair_only = False
    mgt = orch.mgt
    mgt.message_sender = lambda *a, **k: None     # orders to the agents are recorded by MgtTrace only
    mgt.on_start()
    disc = orch.discovery
    disc.register_computation(ORCHESTRATOR_MGT, ORCHESTRATOR, publish=False)   # Orchestrator.start()
    ags = {a: OrchestratedAgent(AgentDef(a), InProcessCommunicationLayer(), orch.address) for a in agents}
    comps, tree = {}, {}
    for node in cg.nodes:
        p, pps, ch, pcs = gm.get_dfs_relations(node)
        tree[node.name] = [p, list(ch), list(pps), list(pcs), [r.name for r in node.constraints]]
        comps[node.name] = mod.build_computation(ComputationDef(node, adef))
    cons_dims = {r.name: [v.name for v in r.dimensions] for r in dcop.constraints.values()}
    # ---- orchestrator side: registration, deploy, run (as a clean start-up does)
    for a in agents:
        disc.register_agent(a, ags[a].address, publish=False)
    mgt.on_message("_mgt_orchestrator", Message("_orchestrator_deploy_computations", None), 0)
    for a in agents:
        ags[a].add_computation(ags[a]._mgt_computation, publish=False)        # OrchestratedAgent._on_start
        for n_ in mapping[a]:
            ags[a].add_computation(comps[n_], publish=False)                 # _on_deploy_computations
            disc.register_computation(n_, a, publish=False)
    mgt.on_message("_mgt_orchestrator", Message("_orchestrator_run_computations", None), 0)
    # ---- the computations, under the netdriver
    log, posted = [], []
    byname = {v.name: v for v in vs}

    def idx(name, val):
        return list(byname[name].domain).index(val)

    def relobs(r):
        return [[v.name for v in r.dimensions], c01._tolist(r._m)]

    def msgobs(msg):
        if msg.type == "UTIL":
            return ["util"] + relobs(msg.content)
        vars_, vals = msg.content
        return ["value", [v.name for v in vars_], [idx(v.name, w) for v, w in zip(vars_, vals)]]

    # the computations already have their message_sender (Agent.add_computation; it can be set only
    # once): build the driver empty, then hand it the computations
    drv = NetDriver({})
    drv.comps, drv.names = dict(comps), sorted(comps)
    orig = drv._sender

    def sender(src, dst, msg, prio=None, on_error=None):
        if prio != 19:
            log.append(["send", src, dst] + msgobs(msg))
        orig(src, dst, msg, prio, on_error)

    def wrap_sel(name, inner):
        def f(v, cost, cyc):
            log.append(["select", name, idx(name, v), c01._int(cost)])
            inner(v, cost, cyc)
        return f

    def wrap_fin(name, inner):
        def f():
            log.append(["fin", name])
            inner()
        return f
    for name, comp in comps.items():
        comp._msg_sender = sender            # algorithm messages: netdriver channels
        comp._on_value_selection = wrap_sel(name, comp._on_value_selection)
        comp.finished = wrap_fin(name, comp.finished)
    queue = orch._own_agt._messaging

    def drain():
        while True:
            full, t = queue.next_msg(0)
            if full is None:
                return
            if full.dest_comp != ORCHESTRATOR_MGT:
                continue        # discovery subscriptions of the agents, for the directory computation
            posted.append(rt.canon_msg(full.msg))
            mgt.on_message(full.src_comp, full.msg, t)
    real_do = drv.do

    def do(act):
        ne = len(drv.events)
        real_do(act)
        for e in drv.events[ne:]:
            if e[0] == "raise":
                kind = {"ValueError": 1, "IndexError": 2, "AttributeError": 3, "KeyError": 4}.get(e[2], 0)
                log.append(["raise", e[1], kind, e[2] + ": " + e[3]])
        if rng.random() < case["drain"]:
            drain()
    drv.do = do
    steps = c["steps"]
    drv.run_random(rng, max_steps=2000 if steps is None else steps, policy=pick_policy(rng, list(comps)))
    drain()
    complete = not drv.enabled()
    final, joined = {}, {}
    for name, comp in comps.items():
        cv = comp.current_value
        final[name] = [None if cv is None else idx(name, cv),
                       None if cv is None else c01._int(comp.current_cost),
                       not comp.is_running and name in drv.started and cv is not None,
                       list(comp._waited_children)]
        joined[name] = relobs(comp._joined_utils)
    inflight = []
    for (s_, d_), ql in sorted(drv.chans.items()):
        if d_ in comps:
            inflight.append([s_, d_, [msgobs(m_) for m_ in ql]])
    res = dict(status=orch.status, elapsed=0.0, trace=tr.entries, foreign=tr.foreign, posted=posted,
               dp=dict(tree=tree, cons_dims=cons_dims, log=log,
                       sched=getattr(drv, "model_schedule", drv.schedule), final=final,
                       joined=joined, inflight=inflight, complete=complete),
               failed=len(queue._failed) if hasattr(queue, "_failed") else 0)
    res.update(_final(orch))
    res["static"] = static
    return res


def run_impl(case):
    if case["kind"] == "composed":
        from pydcop.infrastructure import orchestrator as om
        M = om.AgentsMgt
        saved = (M.on_message, M._send_mgt_msg, M._cb_agent_registration, M._cb_computation_registration)
        try:
            return _composed(case)
        except Exception as e:      # an unexpected failure of the real code is reported, not hidden
            import traceback
            return dict(error=type(e).__name__, detail=traceback.format_exc()[-600:])
        finally:
            M.on_message, M._send_mgt_msg, M._cb_agent_registration, M._cb_computation_registration = saved
    if case["kind"] == "real":
        return rt.run_isolated(_real, case, hard_timeout=(2 if case.get("twice") else 1) * RUN_TIMEOUT + 60)
    # crafted cases are thread-free; still isolated from each other by being cheap and stateless
    from pydcop.infrastructure import orchestrator as om
    M = om.AgentsMgt
    saved = (M.on_message, M._send_mgt_msg, M._cb_agent_registration, M._cb_computation_registration)
    try:
        return _crafted(case)
    finally:
        M.on_message, M._send_mgt_msg, M._cb_agent_registration, M._cb_computation_registration = saved


# ------------------------------------------------------------------ oracle (independent)
def _events(o):
    return [(e["ev"], e["outs"]) for e in o["trace"]]


def _link_assumptions(o, nodes, evs):
    dist = o["static"]["dist"]
    host = {}
    for a, cs in dist:
        for c in cs:
            if c in host:
                return "distribution hosts %s on %s and %s" % (c, host[c], a)
            host[c] = a
    if set(host) != nodes:
        return "distribution hosts %r, graph computations are %r" % (sorted(host), sorted(nodes))
    deployed, ran = {}, {}
    for ev, outs in evs:
        for x in outs:
            if x[0] == "deploy":
                deployed.setdefault(x[2], []).append(x[1])
            elif x[0] == "run":
                for c in x[2]:
                    ran.setdefault(c, []).append(x[1])
    for c in sorted(nodes):
        if deployed.get(c) != [host[c]]:
            return "computation %s deployed through %r, its host is %s" % (c, deployed.get(c), host[c])
        if ran.get(c) != [host[c]]:
            return "computation %s run through %r, its host is %s" % (c, ran.get(c), host[c])
    per = {}
    for ev, _ in evs:
        if ev["t"] in ("value", "end"):
            per.setdefault(ev["comp"], []).append((ev["t"], ev["agent"]))
    if set(per) - nodes:
        return "value/end messages about %r, not graph computations" % sorted(set(per) - nodes)
    for c in sorted(nodes):
        if per.get(c) != [("value", host[c]), ("end", host[c])]:
            return ("management messages about %s: %r, expected one value_change then one "
                    "end_of_computation from %s" % (c, per.get(c), host[c]))
    return None


def _oracle_composed(case, o):
    """independent statement of the composed property on a thread-free composed run"""
    from harness.props import C01 as c01
    c = case["dpop"]
    n = len(c["doms"])
    names = [c01._v(i) for i in range(n)]
    nodes = set(o["static"]["nodes"])
    if nodes != set(names):
        return "graph computations %r, variables %r" % (sorted(nodes), names)
    evs = _events(o)
    assign = dict(o["assignment"])
    dp = o["dp"]
    # what the computations told their agents, in order (select / finished callbacks)
    told = [("value", e[1], e[2]) if e[0] == "select" else ("end", e[1], None)
            for e in dp["log"] if e[0] in ("select", "fin")]
    handled = [(ev["t"], ev["comp"], ev.get("value")) for ev, _ in evs if ev["t"] in ("value", "end")]
    if handled != told:
        return "AgentsMgt handled %r, the computations reported %r" % (handled, told)
    host = {c_: a for a, cs in o["static"]["dist"] for c_ in cs}
    for ev, _ in evs:
        if ev["t"] in ("value", "end") and ev["agent"] != host.get(ev["comp"]):
            return "message about %s sent in the name of %s, host is %s" % (ev["comp"], ev["agent"], host.get(ev["comp"]))
    finished = [e[1] for e in dp["log"] if e[0] == "fin"]
    stops = [i for i, (ev, outs) in enumerate(evs) if any(x[0] == "stop" for x in outs)]
    if set(finished) == nodes:
        if not stops:
            return "every computation finished and reported it, no stop order was sent"
        last_end = max(i for i, (ev, _) in enumerate(evs) if ev["t"] == "end")
        if stops != [last_end]:
            return "stop orders at steps %r, last end_of_computation at step %d" % (stops, last_end)
        if sorted(assign) != sorted(names):
            return "assignment %r does not cover exactly the variables %r" % (sorted(assign), names)
        vals = [assign[nme] for nme in names]
        for i in range(n):
            if not (0 <= vals[i] < c["doms"][i]):
                return "value %r of %s outside its domain" % (vals[i], names[i])
        if c01._cost(c, vals) != c01._optimum(c):
            return "reported assignment costs %d, optimum (%s) is %d" % (c01._cost(c, vals), c["mode"], c01._optimum(c))
    elif stops:
        return "stop order sent although %r have not finished" % sorted(nodes - set(finished))
    if dp["complete"] and set(finished) != nodes:
        return "network quiescent but %r never finished" % sorted(nodes - set(finished))
    if all(nme in assign for nme in names):
        vals = [assign[nme] for nme in names]
        terms = []
        for cc in c["cons"]:
            t = cc["table"]
            for x in cc["scope"]:
                t = t[vals[x]]
            terms.append(t)
        for i, vc in enumerate(c["vcost"]):
            if vc is not None:
                terms.append(vc.get(str(vals[i]), 0))
        viol = sum(1 for t in terms if t == rt.INFINITY)
        soft = sum(t for t in terms if t != rt.INFINITY)
        if (o["violation"], o["cost"]) != (viol, soft):
            return "reported (violation, cost) = (%r, %r), accounting of the assignment gives (%d, %d)" % (
                o["violation"], o["cost"], viol, soft)
        if soft + rt.INFINITY * viol != c01._cost(c, vals):
            return "cost + infinity * violation differs from the cost of the assignment"
    elif o["cost"] is not None or o["violation"] is not None:
        return "cost %r / violation %r reported for an incomplete assignment" % (o["cost"], o["violation"])
    return None


def oracle(case, o):
    if "error" in o:
        return "run failed: %s %s" % (o["error"], o.get("detail", ""))
    if case["kind"] == "composed":
        return _oracle_composed(case, o)
    spec = case["spec"]
    names = [rt.vname(i) for i in range(len(spec["doms"]))]
    assign = dict(o["assignment"])
    evs = _events(o)
    # ---- termination: the stop order goes out because of the last end_of_computation
    nodes = set(o["static"]["nodes"])
    ended = set()
    ordered = False       # the stop order has been given (to the agents registered then)
    for (ev, outs), e in zip(evs, o["trace"]):
        t = ev["t"]
        stops = [x[1] for x in outs if x[0] == "stop"]
        agents_now = e["agents"]          # registered with the directory at that moment
        if t == "end":
            ended.add(ev["comp"])
        expect = (t == "end" and nodes <= ended) or t == "stopreq"
        if expect and stops != agents_now:
            return "stop expected for %r after %r, sent to %r" % (agents_now, ev, stops)
        if t == "agent_added" and ordered:
            # an agent registering after the stop order must be stopped too, or the run never
            # ends by itself (C22-late-agent-never-stopped, fixed)
            if stops != [ev["agent"]]:
                return "agent %s registered after the stop order and was not told to stop (%r)" % (
                    ev["agent"], stops)
        elif not expect and stops:
            return "agents stopped by %r although computations %r have not finished" % (
                ev, sorted(nodes - ended))
        ordered = ordered or expect
    if case["kind"] == "real":
        # the caller's Distribution object is an input of the solve, not its scratch space
        hosted0 = sorted([a, sorted(cs)] for a, cs in o.get("dist0", []))
        for which, r in (("first", o.get("first")), ("last", o)):
            if r is not None and "dist0" in o and \
                    sorted([a, sorted(cs)] for a, cs in r["dist_after"]) != hosted0:
                return "the %s solve modified the caller's Distribution: now %r, was %r" % (
                    which, r["dist_after"], o["dist0"])
        if o["status"] == "NOT_READY":
            return ("the computations were never deployed (ready_to_run not set after %ds); distribution "
                    "handed to the orchestrator: %r" % (RUN_TIMEOUT // 2, o["static"]["dist"]))
        f = o.get("first")
        if f is not None:       # the first of two solves with the same objects: same property
            if f["status"] != "OK":
                return "first solve ended with status %s" % f["status"]
            fa = dict(f["assignment"])
            if sorted(fa) != sorted(names):
                return "first solve: assignment %r does not cover exactly %r" % (sorted(fa), names)
            fv = [fa[nme] for nme in names]
            if any(not (0 <= fv[i] < spec["doms"][i]) for i in range(len(names))):
                return "first solve: value outside its domain in %r" % fa
            if rt.total_cost(spec, fv) != rt.brute_optimum(spec):
                return "first solve: assignment costs %d, optimum is %d" % (
                    rt.total_cost(spec, fv), rt.brute_optimum(spec))
            if (f["violation"], f["cost"]) != tuple(rt.accounting(spec, fv)):
                return "first solve: reported (violation, cost) = (%r, %r), accounting gives %r" % (
                    f["violation"], f["cost"], rt.accounting(spec, fv))
        if o["status"] != "OK":
            return "run ended with status %s (not by end of all computations)%s" % (
                o["status"], "; messages still waiting for an unknown recipient: %r" % o["stranded"]
                if o.get("stranded") else "")
        if o["elapsed"] >= RUN_TIMEOUT:
            return "run lasted %.1fs >= timeout" % o["elapsed"]
        if any(ev["t"] in ("stopreq", "other") for ev, _ in evs):
            return "stop was requested by timeout / error, not by end of computations"
        if not nodes <= ended:
            return "run ended although %r never reported their end" % sorted(nodes - ended)
        if any(e.get("thread") != "thread_orchestrator" for e in o["trace"]) or o["foreign"]:
            return "AgentsMgt handler ran outside the orchestrator thread"
        if sorted(assign) != sorted(names):
            return "assignment %r does not cover exactly the variables %r" % (sorted(assign), names)
        for i, nme in enumerate(names):
            if not (0 <= assign[nme] < spec["doms"][i]):
                return "value %r of %s outside its domain" % (assign[nme], nme)
        vals = [assign[nme] for nme in names]
        best = rt.brute_optimum(spec)
        if rt.total_cost(spec, vals) != best:
            return "reported assignment costs %d, optimum (%s) is %d" % (
                rt.total_cost(spec, vals), spec["objective"], best)
        # ---- the hypotheses of the composed theorems (Prop_C22: dist_hosts_once, transport /
        # delivered, the link) hold on this run: the distribution hosts every computation once
        # and deploy / run orders reach it through its host only; per computation AgentsMgt
        # handled exactly one value_change then one end_of_computation, both from the host,
        # and no value / end message names anything else
        msg = _link_assumptions(o, nodes, evs)
        if msg:
            return msg
    # ---- value collection: last value of each computation
    last = {}
    for ev, _ in evs:
        if ev["t"] == "value":
            last[ev["comp"]] = ev["value"]
    if assign != last:
        return "reported assignment %r, last received values %r" % (assign, last)
    # ---- cost accounting
    if all(nme in assign for nme in names):
        vals = [assign[nme] for nme in names]
        viol, soft = rt.accounting(spec, vals)
        for i, costs in (case.get("var_costs") or {}).items():
            c = costs[vals[int(i)]]
            if c == rt.INFINITY:
                viol += 1
            else:
                soft += c
        if (o["violation"], o["cost"]) != (viol, soft):
            return "reported (violation, cost) = (%r, %r), accounting of the assignment gives (%d, %d)" % (
                o["violation"], o["cost"], viol, soft)
    elif o["cost"] is not None or o["violation"] is not None:
        return "cost %r / violation %r reported for an incomplete assignment" % (o["cost"], o["violation"])
    return None


# ------------------------------------------------------------------ Gallina
def _ev_term(ev):
    t = ev["t"]
    if t == "agent_added":
        return "EAgentAdded %s" % q.s(ev["agent"])
    if t == "agent_removed":
        return "EAgentRemoved %s" % q.s(ev["agent"])
    if t == "computation_added":
        return "ECompAdded %s" % q.s(ev["comp"])
    if t == "computation_removed":
        return "ECompRemoved %s" % q.s(ev["comp"])
    if t == "deploy":
        return "EDeploy"
    if t == "run":
        return "ERun"
    if t == "stopreq":
        return "EStopReq"
    if t == "value":
        return "EValue %s %s %s" % (q.s(ev["agent"]), q.s(ev["comp"]), q.z(ev["value"]))
    if t == "end":
        return "EEnd %s %s" % (q.s(ev["agent"]), q.s(ev["comp"]))
    if t == "stopped":
        return "EStopped %s" % q.s(ev["agent"])
    if t == "metrics":
        return "EMetrics %s" % q.s(ev["agent"])
    if t == "other":
        return "EOther"
    raise ValueError("event not modelled: %r" % ev)


def _out_term(o):
    k = o[0]
    if k == "metrics_mode":
        return "OMetricsMode %s" % q.s(o[1])
    if k == "deploy":
        return "ODeploy %s %s" % (q.s(o[1]), q.s(o[2]))
    if k == "run":
        return "ORun %s %s" % (q.s(o[1]), q.slist(o[2]))
    if k == "stop":
        return "OStop %s" % q.s(o[1])
    raise ValueError("sent message not modelled: %r" % o)


def _flat(t):
    if isinstance(t, list):
        return [x for y in t for x in _flat(y)]
    return [t]


def _dcop_term(case, o):
    """the orchestrator's DCOP object as M_Orch.dcop"""
    st = o["static"]
    if case["kind"] == "composed":
        from harness.props import C01 as c01
        c = case["dpop"]
        n = len(c["doms"])
        assert sorted(st["variables"]) == [c01._v(i) for i in range(n)], st["variables"]
        dvars = q.lst([q.pair(q.s(nme), q.zlist([(c["vcost"][int(nme[1:])] or {}).get(str(k), 0)
                                                 for k in range(c["doms"][int(nme[1:])])]))
                       for nme in st["variables"]])
        cons = []
        for k, cc in enumerate(c["cons"]):
            scope = [c01._v(i) for i in cc["scope"]]
            if o["dp"]["cons_dims"][c01._c(k)] != scope or st["constraints"][k]["scope"] != scope:
                raise ValueError("constraint %d has dimensions %r, scope %r" % (k, o["dp"]["cons_dims"], scope))
            cons.append("(mkCons %s %s %s)" % (q.slist(scope), q.zlist([c["doms"][i] for i in cc["scope"]]),
                                               q.zlist(_flat(cc["table"]))))
        return "(mkDcop %s %s %s)" % (dvars, q.lst(cons), q.z(rt.INFINITY))
    spec = case["spec"]
    vc = case.get("var_costs") or {}
    assert sorted(st["variables"]) == [rt.vname(i) for i in range(len(spec["doms"]))], st["variables"]
    dvars = q.lst([q.pair(q.s(nme), q.zlist(vc.get(str(int(nme[1:]))) or [])) for nme in st["variables"]])
    cons = q.lst(["(mkCons %s %s %s)" % (q.slist([rt.vname(i) for i in c["scope"]]),
                                         q.zlist([spec["doms"][i] for i in c["scope"]]),
                                         q.zlist(c["table"])) for c in spec["cons"]])
    assert [c["scope"] for c in st["constraints"]] == [[rt.vname(i) for i in c["scope"]] for c in spec["cons"]]
    return "(mkDcop %s %s %s)" % (dvars, cons, q.z(rt.INFINITY))


def _orch_case(case, o):
    st = o["static"]
    cfg = "(mkCfg %s %s false)" % (
        q.slist(st["nodes"]), q.lst([q.pair(q.s(a), q.slist(cs)) for a, cs in st["dist"]]))
    dcop = _dcop_term(case, o)
    steps = []
    n_crit = 0
    for e in o["trace"]:
        ev = e["ev"]
        outs = [_out_term(x) for x in e["outs"]]
        if ev["t"] == "other":
            outs.append("OCritical")
            n_crit += 1
        ready = q.opt(e["flags"][1], q.b)
        steps.append("(mkObs (%s) (mkEnv %s %s) %s %s %s %s)" % (
            _ev_term(ev), q.slist(e["agents"]), q.slist(e["comps"]), q.lst(outs),
            q.b(e["flags"][0]), ready, q.b(e["flags"][2])))
    if case["kind"] == "crafted" and n_crit != o["critical"]:
        raise ValueError("critical-error path taken %d times, %d unknown messages" % (o["critical"], n_crit))
    if case["kind"] == "composed" and n_crit:
        raise ValueError("unknown management message in a composed run")
    status = q.lst([q.pair(q.s(k), q.b(v == "finished")) for k, v in o["comp_status"]])
    assign = q.lst([q.pair(q.s(k), q.z(v)) for k, v in o["assignment"]])
    cost = "None" if o["cost"] is None else "(Some (%s, %s))" % (q.z(o["violation"]), q.z(o["cost"]))
    return "M_Orch.mkCase %s %s %s %s %s %s" % (cfg, dcop, q.lst(steps), status, assign, cost)


def coq_case(case, o):
    if "error" in o:
        return None
    if case["kind"] != "composed":
        return "COrch (%s)" % _orch_case(case, o)
    from harness.props import C01 as c01
    dp = c01.coq_case(case["dpop"], o["dp"])
    assert dp.startswith("mkCase (mkDcop "), dp[:40]
    dp = "M_Dpop.mkCase (M_Dpop.mkDcop " + dp[len("mkCase (mkDcop "):]
    names = q.lst([q.pair(q.z(i), q.s(c01._v(i))) for i in range(len(case["dpop"]["doms"]))])
    return "CComp (mkCC (%s) %s (%s))" % (dp, names, _orch_case(case, o))


# ------------------------------------------------------------------ evidence helpers
def nontrivial(case, o):
    return "trace" in o and sum(1 for e in o["trace"] if e["ev"]["t"] in ("value", "end")) >= 3


def histogram(cases, obs):
    h = {}
    for c, o in zip(cases, obs):
        k = c["kind"] + ("/" + c["dist"] if c["kind"] == "real" else "")
        h[k] = h.get(k, 0) + 1
        if "error" in o:
            h["error/" + o["error"]] = h.get("error/" + o["error"], 0) + 1
        elif c["kind"] == "composed":
            kk = "composed_complete" if o["dp"]["complete"] else "composed_truncated"
            h[kk] = h.get(kk, 0) + 1
            if o["violation"]:
                h["composed_with_violation"] = h.get("composed_with_violation", 0) + 1
        elif c["kind"] == "real":
            h["real_max_elapsed_s"] = max(h.get("real_max_elapsed_s", 0), round(o["elapsed"], 1))
    return h


def classify(case, o, msg):
    return None


def shrink_candidates(case):
    if case["kind"] == "crafted":
        for i in range(len(case["script"])):
            d = dict(case)
            d["script"] = case["script"][:i] + case["script"][i + 1:]
            yield d
