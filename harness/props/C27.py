"""C27 -- after an agent removal every computation runs on exactly one live agent.

  real     REAL resilient thread-mode runs: MGM / DSA without stop condition on a 4-6 variable DCOP,
           4-6 agents with ample capacity, replication dist_ucs_hostingcosts with level k in 1..2,
           then ONE removal event of 1..k agents (scenario), perturbed switch interval.  After the
           orchestrator finished the repair (+ a settling delay) the directory, every surviving
           agent's computations() and the repair status written by the orchestrator are read.
           The orchestrator's management trace (scenario event, repair_ready, repair_done and
           what it sent) is replayed through the Coq model M_RepairOrch.
  crafted  the real AgentsMgt driven without threads by crafted repair_ready / repair_done
           sequences (duplicates, unknown agents, wrong states, computations selected twice or
           never) on a crafted directory state.
"""
import random
import time

from harness import coqio as q
from harness.props import _rt_common as rt

ID = "C27"
COQ_REQUIRE = ["M_Repair", "M_RepairOrch", "M_RepairOrch2"]
COQ_CASE_TYPE = "M_RepairOrch2.case2"
COQ_CHECK = "M_RepairOrch2.check_case2"
OBLIGATIONS = ["repair_status_ok_iff", "repair_done_records_selection",
               "repair_done_ignored_unless_running", "repair_ok_every_orphan_selected",
               "rehost_only_replica_holders", "orphan_hosts_are_selectors",
               "repair_ok_not_exactly_one_refuted",
               "setup_repair_never_fails", "agent_repair_dcop_zero_iff",
               "repair_zero_hard_cost_iff_valid", "selections_exact", "repair_done_any_order",
               "repair_reported_ok_iff", "repair_ok_never_lost", "rehost_directory_consistent",
               "repair_valid_outcome_exactly_one", "reachable_keys_distinct",
               "directory_table_is_dir_step"]
RULE = ("20% real resilient thread-mode runs (4-6 variables, 4-6 agents, capacity 100000, mgm/dsa "
        "without stop condition, replication level k in 1..2, one removal event of 1..k agents, "
        "distributions oneagent/adhoc/random, switch interval 1e-5..5e-3 s); 40% crafted protocol "
        "runs on the real AgentsMgt with a crafted directory (each orphan selected by 0, 1 or 2 of "
        "its replica holders, stray ready/done messages, up to two events, repair_only flag); 40% "
        "composed repairs without threads (3-6 computations/agents, k in 1..2, 1..k agents leave, "
        "often several adjacent orphans): real removal helpers on a real Discovery, real "
        "ResilientAgent.setup_repair and _on_repair_computation_finished of every candidate on a "
        "generated outcome of the repair DCOP (84% exactly one / 9% two / 7% no candidate per orphan, "
        "35% of the cases with remaining capacities of the order of the footprints), real AgentsMgt on "
        "the resulting repair_done messages in a shuffled order, real Directory on the departed agents' "
        "un-publications and the new hosts' registrations in a shuffled order; "
        "non-trivial = at least one repair_done handled / one candidate set up; distinct = distinct case JSON")
MODELLED = ("orchestrator repair bookkeeping, setup_repair's assembly of the hosted and capacity "
            "constraints, the activation rule and the directory table are modelled; theorems: status / "
            "selection / replica-holder statements, hard cost 0 <=> valid re-hosting, OK <=> every orphan "
            "selected at least once, valid outcome => OK and bookkeeping, agents and directory agree on "
            "one surviving replica holder (any message order); 'OK only if hosted exactly once' is refuted "
            "(duplicate selection, known finding); that MGM2 reaches a zero-hard-cost outcome, replication, "
            "transport and threads are only exercised by the real runs, whose end state (directory + "
            "agents' computations + dumped status) the oracle checks")
META = dict(
    level_text=("Partial proof (Coq): for the composed model of the repair pipeline (what the orchestrator "
                "sends each candidate (C26 model), ResilientAgent.setup_repair's hosted and capacity "
                "constraints, the activation rule, AgentsMgt's bookkeeping, the Directory table) and for "
                "every message order: the repair DCOP has no violated hard constraint iff the outcome "
                "selects each orphaned computation on exactly one surviving replica holder within "
                "capacity; such an outcome is reported OK and bookkeeping, hosted computations and "
                "directory all name that single agent, whatever the interleaving of the departed agents' "
                "late un-publications; the status is OK iff every orphan was selected at least once, so OK "
                "never hides a lost computation but does not exclude one hosted twice (refuted clause, "
                "known finding). Real resilient thread-mode runs with every removal choice sampled check "
                "directory, hosted computations and status after the repair; their management traces, "
                "crafted protocol runs and thread-free composed repairs on the real agent / orchestrator "
                "/ directory objects are replayed through the model."),
    level_note=("Not theorems: that the MGM2 repair DCOP (randomised local search, 20 cycles) reaches a "
                "zero-hard-cost outcome, replication (C25), transport, threads. Trusted: Coq kernel, "
                "M_Repair.v, M_RepairOrch.v, M_RepairOrch2.v, the harness."),
    technique="Coq proof over executable Gallina state machines + replay of real resilient runs",
    design_ref="DESIGN.md §5 C27",
)
N_QUICK, N_THOROUGH = 100, 1000
N_SEARCH = 200   # size of the extra oracle search after a broken obligation/correspondence (real threaded runs are slow)
PARALLEL = 8
SHARD = 60
RUN_TIMEOUT = 120
F_DUP = "C27-duplicate-selection-reported-ok"
F_LOST = "C27-repair-dcop-no-valid-assignment"
F_CRASH = "C27-agent-thread-dies-unknown-computation"
F_STALE = "C27-stale-unpublication-kills-subscriber-thread"


# ------------------------------------------------------------------ generation
def _gen_real(rng):
    nv = rng.randint(4, 6)
    na = rng.randint(4, 6)
    k = rng.randint(1, 2)
    spec = rt.gen_dcop_spec(rng, nv, p_ternary=0.0, p_unary=0.0, p_hard=0.0, objective="min")
    agents = list(range(na))
    leaving = sorted(rng.sample(agents, rng.randint(1, k)))
    return dict(kind="real", spec=spec, n_agents=na, k=k, algo=rng.choice(["mgm", "dsa"]),
                dist=rng.choice(["random", "adhoc", "oneagent"]) if na >= nv else rng.choice(["random", "adhoc"]),
                leaving=[rt.aname(i) for i in leaving], seed=rng.randrange(1 << 30),
                switch=rng.choice([1e-5, 1e-4, 1e-3, 5e-3]))


def _gen_crafted(rng):
    nv, na = rng.randint(2, 6), rng.randint(3, 6)
    agents = [rt.aname(i) for i in range(na)]
    comps = [rt.vname(i) for i in range(nv)]
    hosts = {c: rng.choice(agents) for c in comps}
    k = rng.randint(1, 2)
    replicas = {c: sorted(rng.sample([a for a in agents if a != hosts[c]], min(k, na - 1)))
                for c in comps}
    script = [["run"]]      # _agents_removal needs start_time: an event always follows a run
    if rng.random() < 0.5:
        script.append(["replicate", k])
        for a in agents:
            if rng.random() < 0.9:
                script.append(["replicated", a])
        if rng.random() < 0.7:
            script.append(["run"])
    alive = list(agents)
    cur_hosts = dict(hosts)
    cur_repl = {c: list(v) for c, v in replicas.items()}
    for _ in range(rng.choice([1, 1, 2])):
        if len(alive) <= 2:
            break
        leaving = sorted(rng.sample(alive, rng.randint(1, min(k, len(alive) - 2))))
        orphaned = [c for c in comps if cur_hosts[c] in leaving]
        if any(not [a for a in cur_repl[c] if a not in leaving] for c in orphaned):
            break       # an orphan without surviving replica: out of the property's hypothesis
        script.append(["event", leaving])
        cands = sorted({a for c in orphaned for a in cur_repl[c] if a not in leaving})
        msgs = []
        for a in cands:
            msgs.append(["ready", a])
        if rng.random() < 0.2 and alive:
            msgs.append(["ready", rng.choice([a for a in alive if a not in leaving])])   # duplicate / non-candidate
        rng.shuffle(msgs)
        # outcome of the repair dcop: each orphan selected by 0, 1 or 2 of its candidates
        sel = {a: [] for a in cands}
        for c in orphaned:
            cc = [a for a in cur_repl[c] if a not in leaving]
            r = rng.random()
            n_sel = 1 if r < 0.7 else (2 if r < 0.85 else 0)
            for a in rng.sample(cc, min(n_sel, len(cc))):
                sel[a].append(c)
        dones = [["done", a, sel[a]] for a in cands]
        rng.shuffle(dones)
        others = [a for a in alive if a not in cands and a not in leaving]
        if rng.random() < 0.15 and others:       # stray message from an agent that is no candidate
            dones.insert(rng.randrange(len(dones) + 1), ["done", rng.choice(others), []])
        script += msgs + dones
        if any(not any(c in cs for cs in sel.values()) for c in orphaned):
            break      # a lost computation stays in _comps_state for ever: later statuses are KO
        for a in leaving:
            alive.remove(a)
        # what the driver does to the directory: the FIRST repair_done selecting c registers it,
        # every agent that selected c drops its replica of c (nobody re-replicates in crafted runs)
        selectors = {}
        for _, a, cs in dones:
            for c in cs:
                selectors.setdefault(c, []).append(a)
        for c, ags in selectors.items():
            cur_hosts[c] = ags[0]
        for c in comps:
            cur_repl[c] = [a for a in cur_repl[c] if a not in leaving and a not in selectors.get(c, [])]
    return dict(kind="crafted", agents=agents, comps=comps, hosts=hosts, replicas=replicas,
                repair_only=rng.random() < 0.15, script=script)


def _gen_repair(rng):
    """one repair end to end without threads: the REAL removal helpers on a real Discovery, the
    REAL ResilientAgent.setup_repair / _on_repair_computation_finished of every candidate agent
    on a generated outcome of the repair DCOP, the REAL AgentsMgt on the resulting repair_done
    messages and the REAL Directory on the resulting (un)publications in a shuffled order"""
    nv, na = rng.randint(3, 6), rng.randint(3, 6)
    agents = [rt.aname(i) for i in range(na)]
    comps = [rt.vname(i) for i in range(nv)]
    spec = rt.gen_dcop_spec(rng, nv, p_ternary=0.0, p_unary=0.0, p_hard=0.0, objective="min")
    k = rng.randint(1, 2)
    if rng.random() < 0.4:          # few hosts: several (often adjacent) orphans per event
        pool = rng.sample(agents, 2)
        hosts = {c: rng.choice(pool) for c in comps}
    else:
        hosts = {c: rng.choice(agents) for c in comps}
    replicas = {c: sorted(rng.sample([a for a in agents if a != hosts[c]], min(k, na - 1)))
                for c in comps}
    used = sorted(set(hosts.values()))
    leaving = sorted(rng.sample(used, min(len(used), rng.randint(1, k))))
    if len(leaving) >= na - 1:
        leaving = leaving[:1]
    fp = {c: rng.randint(1, 9) for c in comps}
    orphaned = [c for c in comps if hosts[c] in leaving]
    x = {}
    for c in orphaned:
        cc = [a for a in replicas[c] if a not in leaving]
        r = rng.random()
        n_sel = 1 if r < 0.84 else (2 if r < 0.93 else 0)
        chosen = rng.sample(cc, min(n_sel, len(cc)))
        for a in cc:
            x["%s|%s" % (c, a)] = 1 if a in chosen else 0
    tight = rng.random() < 0.35      # remaining capacity of the same order as the footprints
    slack = {a: (rng.randint(0, 14) if tight else 100000) for a in agents}
    return dict(kind="repair", spec=spec, agents=agents, comps=comps, hosts=hosts, replicas=replicas,
                leaving=leaving, fp=fp, x=x, slack=slack, repair_only=rng.random() < 0.1,
                shuffle=rng.randrange(1 << 30),
                # the directory's agent_removed notice reaches the candidates while their repair
                # DCOP is still running (repair slower than the 0.5 s the departed agent waits)
                notice=rng.random() < 0.6)


def gen(rng, n, tier):
    out = []
    for i in range(n):
        if i % 5 == 0:
            out.append(_gen_real(rng))
        elif i % 5 in (1, 2):
            out.append(_gen_repair(rng))
        else:
            out.append(_gen_crafted(rng))
    return out


# ------------------------------------------------------------------ real driver
def _real(case):
    import sys
    import threading
    sys.setswitchinterval(case["switch"])
    random.seed(case["seed"])
    from pydcop.dcop.scenario import Scenario, DcopEvent, EventAction
    from pydcop.infrastructure.run import run_local_thread_dcop
    from pydcop.infrastructure import orchestratedagents as oa
    from pydcop.infrastructure import orchestrator as om
    dcop = rt.build_dcop(case["spec"], case["n_agents"], capacity=100000, hosting=1, route=1)
    algo, cg, dist = rt.build_runtime(dcop, case["algo"], case["dist"], rng_seed=case["seed"])
    static_dist = [[a, list(cs)] for a, cs in dist.mapping().items()]
    agents = {}
    orig_init = oa.OrchestratedAgent.__init__

    def init(selfa, agt_def, *a, **k):
        orig_init(selfa, agt_def, *a, **k)
        agents[agt_def.name] = selfa
    oa.OrchestratedAgent.__init__ = init
    crashes = []      # Agent._run calls on_fatal_error(e) when the agent's thread dies of an exception
    def fatal(selfa, e):
        import traceback
        frames = [f.name for f in traceback.extract_tb(e.__traceback__)]
        crashes.append([selfa.name, type(e).__name__, str(e)[:200], frames[-8:]])
    oa.OrchestratedAgent.on_fatal_error = fatal
    orig_mgt_stop = om.AgentsMgt.stop

    def mgt_stop(selfm):     # only called from the except clause of AgentsMgt.on_message
        import traceback
        crashes.append(["orchestrator", "critical", traceback.format_exc()[-400:]])
        return orig_mgt_stop(selfm)
    om.AgentsMgt.stop = mgt_stop
    tr = rt.MgtTrace().install()
    snap = {}
    M = om.AgentsMgt
    orig_evt, orig_dump = M._orchestrator_scenario_event, M._dump_repair_metrics

    def scenario_event(selfm, msg, t):
        d = selfm.discovery
        snap["before"] = dict(
            replicas={c: sorted(d.replica_agents(c)) for c in d.computations()},
            hosts={c: d.computation_agent(c) for c in d.computations()},
            agents=list(d.agents()))
        return orig_evt(selfm, msg, t)

    def dump(selfm, status, duration):
        snap.setdefault("status", []).append(status)
        cur = getattr(tr._tl, "cur", None)
        if cur is not None:
            cur["outs"].append(["status", status])
        return orig_dump(selfm, status, duration)
    M._orchestrator_scenario_event, M._dump_repair_metrics = scenario_event, dump
    orig_orph = om._removal_orphaned_computations

    def orph(departed, discovery):
        r = orig_orph(departed, discovery)
        cur = getattr(tr._tl, "cur", None)
        if cur is not None:
            cur["orphaned"] = list(r)
        return r
    om._removal_orphaned_computations = orph

    orch = run_local_thread_dcop(algo, cg, dist, dcop, rt.INFINITY, replication="dist_ucs_hostingcosts")
    res = dict(static=dict(nodes=[n.name for n in cg.nodes], dist=static_dist,
                           agents=sorted(dcop.agents)))
    t0 = time.time()
    done = threading.Event()

    wres = {}

    def watcher():
        # wait for the end of the repair, let registrations settle, read the state, stop the run
        limit = time.time() + 60
        while time.time() < limit and orch.mgt.dist_count < 1:
            time.sleep(0.05)
            b = snap.get("before")
            if b is not None and _unreplicated(b, case["leaving"]):
                break       # hypothesis of C27 not met (see oracle): nothing will ever happen
        wres["repair_finished"] = orch.mgt.dist_count >= 1
        wres["repair_wait"] = time.time() - t0
        time.sleep(1.5)
        d = orch.discovery
        wres["directory"] = {a: sorted(d.agent_computations(a)) for a in d.agents()}
        wres["dir_hosts"] = {}
        for n in res["static"]["nodes"]:
            try:
                wres["dir_hosts"][n] = d.computation_agent(n)
            except Exception as e:
                wres["dir_hosts"][n] = None
        wres["hosted"] = {a: sorted(c.name for c in ag.computations() if not c.name.startswith("B"))
                         for a, ag in agents.items() if ag.is_running}
        wres["leftover_repair"] = {a: sorted(c.name for c in ag.computations() if c.name.startswith("B"))
                                  for a, ag in agents.items() if ag.is_running}
        wres["paused"] = {a: sorted(c.name for c in ag.computations() if c.is_paused)
                         for a, ag in agents.items() if ag.is_running}
        done.set()
        orch.stop_agents(10)

    try:
        orch.deploy_computations()
        orch.start_replication(case["k"])
        ready = orch.wait_ready()
        res["replication_ready"] = bool(ready)
        sc = Scenario([DcopEvent("d1", delay=0.3),
                       DcopEvent("e1", actions=[EventAction("remove_agent", agent=a)
                                                for a in case["leaving"]])])
        w = threading.Thread(target=watcher, name="c27-watcher", daemon=True)
        w.start()
        orch.run(sc, timeout=RUN_TIMEOUT)
        done.wait(5)
        if done.is_set():
            res.update(dict(wres))
        else:
            res["watcher_incomplete"] = True     # the run ended before the end state was read
        res["status"] = orch.status
        res["elapsed"] = time.time() - t0
    finally:
        if orch._timeout_timer is not None:
            orch._timeout_timer.cancel()
        orch.stop_agents(5)
        orch.stop()
    res["crashes"] = crashes
    res["before"] = snap.get("before")
    res["repair_status"] = snap.get("status", [])
    res["trace"] = [e for e in tr.entries
                    if e["ev"]["t"] in ("event", "repair_ready", "repair_done", "replicate", "replicated", "run")]
    res["agts_state"] = [[a, st] for a, st in orch.mgt._agts_state.items()]
    res["comps_state"] = [[c, a] for c, a in orch.mgt._comps_state.items()]
    res["dist_count"] = orch.mgt.dist_count
    return res


def _crafted(case):
    rt.quiet()
    from pydcop.infrastructure.communication import InProcessCommunicationLayer
    from pydcop.infrastructure.computations import Message
    from pydcop.infrastructure import orchestrator as om
    from pydcop.dcop.scenario import DcopEvent, EventAction
    from pydcop.distribution.objects import Distribution
    nv = len(case["comps"])
    spec = dict(doms=[2] * nv, cons=[dict(scope=[i], table=[0, 1]) for i in range(nv)], objective="min")
    dcop = rt.build_dcop(spec, len(case["agents"]))
    algo, cg, _ = rt.build_runtime(dcop, "dsa", "random", rng_seed=1)
    mapping = {a: [c for c in case["comps"] if case["hosts"][c] == a] for a in case["agents"]}
    dist = Distribution(mapping)
    tr = rt.MgtTrace().install()
    orch = om.Orchestrator(algo, cg, dist, InProcessCommunicationLayer(), dcop, rt.INFINITY)
    orch.repair_only = case["repair_only"]
    mgt = orch.mgt
    critical = []
    orch.stop_agents = lambda t=None: critical.append(t)
    mgt.message_sender = lambda *a, **k: None

    def dump(status, duration):
        cur = getattr(tr._tl, "cur", None)
        if cur is not None:
            cur["outs"].append(["status", status])
    mgt._dump_repair_metrics = dump
    orig_orph = om._removal_orphaned_computations

    def orph(departed, discovery):
        r = orig_orph(departed, discovery)
        cur = getattr(tr._tl, "cur", None)
        if cur is not None:
            cur["orphaned"] = list(r)
        return r
    om._removal_orphaned_computations = orph
    try:
        d = orch.discovery
        for a in case["agents"]:
            d.register_agent(a, "addr_" + a, publish=False)
        for c in case["comps"]:
            d.register_computation(c, case["hosts"][c], publish=False)
            for a in case["replicas"][c]:
                d.register_replica(c, a, publish=False)
        hosts = dict(case["hosts"])

        def repl(c):
            try:
                return set(d.replica_agents(c))
            except Exception:
                return set()
        for op in case["script"]:
            k = op[0]
            if k == "run":
                mgt.on_message("_mgt_orchestrator", Message("_orchestrator_run_computations", None), 0)
            elif k == "replicate":
                mgt.on_message("_mgt_orchestrator", Message("_orchestrator_start_replication", op[1]), 0)
            elif k == "replicated":
                mgt.on_message("_mgt_" + op[1], om.ComputationReplicatedMessage(op[1], {}, {}), 0)
            elif k == "event":
                evt = DcopEvent("e", actions=[EventAction("remove_agent", agent=a) for a in op[1]])
                mgt.on_message("_mgt_orchestrator", Message("_orchestrator_scenario_event", evt), 0)
                # what the departure does to the directory afterwards
                for a in op[1]:
                    for c in [c for c, h in hosts.items() if h == a]:
                        d.unregister_computation(c, a, publish=False)
                        hosts.pop(c)
                    for c in case["comps"]:
                        if a in repl(c):
                            d.unregister_replica(c, a, publish=False)
                    d.unregister_agent(a, publish=False)
            elif k == "ready":
                mgt.on_message("_mgt_" + op[1], om.RepairReadyMessage(op[1], []), 0)
            elif k == "done":
                for c in op[2]:          # the agent deploys what it selected and publishes it
                    if c not in hosts:
                        d.register_computation(c, op[1], publish=False)
                        hosts[c] = op[1]
                    if op[1] in repl(c):
                        d.unregister_replica(c, op[1], publish=False)
                mgt.on_message("_mgt_" + op[1], om.RepairDoneMessage(op[1], list(op[2]), {}), 0)
    finally:
        om._removal_orphaned_computations = orig_orph
    return dict(trace=[e for e in tr.entries
                       if e["ev"]["t"] in ("event", "repair_ready", "repair_done", "replicate",
                                           "replicated", "run")],
                critical=len(critical),
                agts_state=[[a, st] for a, st in mgt._agts_state.items()],
                comps_state=[[c, a] for c, a in mgt._comps_state.items()],
                dist_count=mgt.dist_count)


def _crafted_isolated(case):
    """thread-free, so run in-process (a fork per case costs more than the case); the handlers
    write events.yaml into the cwd, hence the private scratch directory"""
    import os
    import shutil
    from pydcop.infrastructure import orchestrator as om
    M = om.AgentsMgt
    saved = (M.on_message, M._send_mgt_msg, M._cb_agent_registration, M._cb_computation_registration)
    d = os.path.join(rt.WORK, "c%d" % os.getpid())
    os.makedirs(d, exist_ok=True)
    old = os.getcwd()
    os.chdir(d)
    try:
        return _crafted(case)
    except Exception as e:
        import traceback
        return {"error": type(e).__name__, "detail": str(e)[:300], "tb": traceback.format_exc()[-800:]}
    finally:
        M.on_message, M._send_mgt_msg, M._cb_agent_registration, M._cb_computation_registration = saved
        os.chdir(old)
        shutil.rmtree(d, ignore_errors=True)


class _StopAfterReport(Exception):
    pass


def _repair(case):
    rt.quiet()
    import random as _random
    from pydcop.algorithms import ComputationDef
    from pydcop.infrastructure import agents as ag
    from pydcop.infrastructure.agents import ResilientAgent
    from pydcop.infrastructure.communication import InProcessCommunicationLayer
    from pydcop.infrastructure.computations import build_computation
    from pydcop.infrastructure.discovery import Discovery, Directory, PublishComputationMessage, \
        UnPublishComputationMessage, PublishReplicaMessage
    from pydcop.dcop.objects import AgentDef
    from pydcop.reparation import removal as R
    _random.seed(case["shuffle"])
    rnd = _random.Random(case["shuffle"])
    leaving = list(case["leaving"])
    dcop = rt.build_dcop(case["spec"], len(case["agents"]))
    algo, cg, _ = rt.build_runtime(dcop, "dsa", "random", rng_seed=1)
    defs = {n.name: ComputationDef(n, algo) for n in cg.nodes}
    # --- the orchestrator's Discovery at the time of the event
    d = Discovery("orchestrator", "addr_orch")
    for a in case["agents"]:
        d.register_agent(a, "addr_" + a, publish=False)
    for c in case["comps"]:
        d.register_computation(c, case["hosts"][c], publish=False)
        for a in case["replicas"][c]:
            d.register_replica(c, a, publish=False)
    names = [c for c in d.computations(include_technical=True) if c in case["hosts"]]
    out = dict(view=dict(comps=[[c, d.computation_agent(c)] for c in names],
                         replicas=[[c, sorted(d.replica_agents(c))] for c in names]),
               graph=[[n.name, list(n.neighbors)] for n in cg.nodes])
    orphaned = list(R._removal_orphaned_computations(leaving, d))
    cands = list(R._removal_candidate_agents(leaving, d))
    out["orphaned"], out["cands"] = orphaned, cands
    x = {tuple(k.split("|")): v for k, v in case["x"].items()}
    # --- every candidate agent
    calls = []
    orig_h, orig_c = ag.create_computation_hosted_constraint, ag.create_agent_capacity_constraint

    def hosted(comp, bin_vars):
        r = orig_h(comp, bin_vars)
        calls.append(["hosted", comp, [[list(k), v.name] for k, v in bin_vars.items()], r])
        return r

    def capacity(agt, remaining, fpf, bin_vars):
        r = orig_c(agt, remaining, fpf, bin_vars)
        calls.append(["capacity", agt, remaining, [[list(k), v.name] for k, v in bin_vars.items()], r])
        return r
    ag.create_computation_hosted_constraint, ag.create_agent_capacity_constraint = hosted, capacity
    obs = []
    try:
        for a in cands:
            info = R._removal_candidate_agt_info(a, leaving, cg, d)
            own = [c for c in case["comps"] if case["hosts"][c] == a]
            own_comps = [build_computation(defs[c]) for c in own]
            used = sum(c.footprint() for c in own_comps)
            agent = ResilientAgent(a, InProcessCommunicationLayer(),
                                   AgentDef(a, capacity=used + case["slack"][a]),
                                   "dist_ucs_hostingcosts")
            for c in own_comps:
                agent.add_computation(c)
            for c in case["comps"]:
                if a in case["replicas"][c]:
                    agent.replication_comp.replicas[c] = defs[c]
                    agent.replication_comp._hosted_replicas[c] = (case["hosts"][c], case["fp"][c])
            # what the agent's own Discovery knows of its candidates: their (departed) host and
            # its own replica, published when it accepted the replica
            for c in info:
                agent.discovery.register_computation(c, case["hosts"][c], "addr_" + case["hosts"][c],
                                                     publish=False)
                agent.discovery.register_replica(c, a, publish=False)
            sent = []
            agent.discovery.discovery_computation.send_to_directory = lambda m_, _s=sent: _s.append(m_)
            del calls[:]
            cbv = agent.setup_repair(info)
            o = dict(agent=a, info=[[c, sorted(i[0])] for c, i in info.items()],
                     used=used,
                     cbv=[[list(k), v.name] for k, v in cbv.items()], hosted=[], capacity=None)
            # one binary variable per name in the repair DCOP this agent built: objects carrying
            # the same name must be the same variable (Variable.__eq__) in every constraint
            by_name = {}
            for reg in agent._repair_computations.values():
                node = reg.computation.computation_def.node
                for v in [node.variable] + [v for cst in node.constraints for v in cst.dimensions]:
                    by_name.setdefault(v.name, [])
                    if not any(v == w for w in by_name[v.name]):
                        by_name[v.name].append(v)
            o["var_clash"] = sorted(n for n, l in by_name.items() if len(l) > 1)
            o["notice_error"] = None
            if case.get("notice"):
                for g in leaving:
                    try:
                        agent.replication_comp._on_agent_event("agent_removed", g, None)
                    except Exception as e:
                        o["notice_error"] = [type(e).__name__, str(e)[:200]]
            o["eval_error"] = None

            def value(rel, asg, _o=o):
                try:
                    return _intval(rel(**asg))
                except (KeyError, AttributeError) as e:      # what MGM2 would hit in the agent's thread
                    _o["eval_error"] = [rel.name, type(e).__name__, str(e)[:100]]
                    return 0
            for call in calls:
                rel = call[-1]
                if call[0] == "hosted":
                    items = sorted(call[2])
                    asg = {n: x.get(tuple(k), 0) for k, n in items}
                    o["hosted"].append([call[1], [k for k, _ in items], [n for _, n in items],
                                        [v.name for v in rel.dimensions] == [n for _, n in call[2]],
                                        value(rel, asg)])
                else:
                    asg = {n: x.get(tuple(k), 0) for k, n in call[3]}
                    o["capacity"] = [call[2], [k for k, _ in call[3]], [v.name for v in rel.dimensions],
                                     value(rel, asg)]
            reported = []

            def on_done(sel, metrics=None, _r=reported):
                _r.append(list(sel))
            agent._on_repair_done = on_done
            # the handler goes on after the report: re-replication of what it deployed (this
            # agent's Discovery knows no neighbour's host -- the situation of a new host whose
            # replication-neighbour cache was reset by the agent_removed notice --, so the
            # neighbour lookup raises UnknownComputation inside replicate()), start + pause of
            # the deployed computations, removal of the repair computations
            agent._replication_level = 1
            o["after_report"] = None
            before = set(c.name for c in agent.computations())
            for name, reg in list(agent._repair_computations.items()):
                reg.computation.value_selection(x.get((reg.candidate, a), 0), 0)
            for name in list(agent._repair_computations):
                try:
                    agent._on_repair_computation_finished(name)
                except _StopAfterReport:
                    pass
                except Exception as e:      # would end the agent's thread in a real run
                    o["after_report"] = [type(e).__name__, str(e)[:200]]
                    break
            o["reported"] = reported
            o["unrep"] = sorted([m_.replica, m_.agent] for m_ in sent
                                if m_.type == "publish_replica" and not m_.publish)
            o["left_repair"] = sorted(c.name for c in agent.computations() if c.name.startswith("B"))
            o["own_after"] = sorted(c.name for c in agent.computations() if c.name in before)
            o["own"] = sorted(own)
            o["deployed"] = sorted(c.name for c in agent.computations()
                                   if c.name not in before and not c.name.startswith("B"))
            obs.append(o)
    finally:
        ag.create_computation_hosted_constraint, ag.create_agent_capacity_constraint = orig_h, orig_c
    out["agents"] = obs
    sel = {o["agent"]: (o["reported"][0] if len(o["reported"]) == 1 else None) for o in obs}
    # --- the orchestrator on the resulting messages
    if orphaned and all(v is not None for v in sel.values()):
        msgs = [["ready", a] for a in cands]
        rnd.shuffle(msgs)
        dones = [["done", a, sel[a]] for a in cands]
        rnd.shuffle(dones)
        sub = dict(kind="crafted", agents=case["agents"], comps=case["comps"], hosts=case["hosts"],
                   replicas=case["replicas"], repair_only=case["repair_only"],
                   script=[["run"], ["event", leaving]] + msgs + dones)
        out["orch_case"] = sub
        out["orch"] = _crafted(sub)
    # --- the directory on the resulting (un)publications, in a shuffled order
    dd = Discovery("orchestrator", "addr_orch")
    directory = Directory(dd)
    for a in case["agents"]:
        directory.register_agent(a, "addr_" + a)
    for c in case["comps"]:
        directory.register_computation(c, case["hosts"][c], "addr_" + case["hosts"][c])
    for c in case["comps"]:
        for a in case["replicas"][c]:
            directory.register_replica(c, a)
    init = [[c, a] for c, a in directory._computations_data.items()]
    # what a departing agent really un-publishes: the REAL Agent._on_stop on an agent holding
    # its computations (its Discovery's unregister_* calls are recorded, the 0.5 s nap skipped)
    ops = []
    orig_sleep = ag.sleep
    ag.sleep = lambda _s: None
    try:
        for a in leaving:
            gone = ResilientAgent(a, InProcessCommunicationLayer(), AgentDef(a, capacity=100000),
                                  "dist_ucs_hostingcosts")
            for c in case["comps"]:
                if case["hosts"][c] == a:
                    gone.add_computation(build_computation(defs[c]))
            sent = []
            gone.discovery.unregister_computation = \
                lambda comp, agent=None, publish=True, _s=sent: _s.append([comp, agent])
            gone.discovery.unregister_agent = lambda *a_, **k_: None
            gone._on_stop()
            ops += [["unreg", c, g] for c, g in sent if c in case["hosts"]]
    finally:
        ag.sleep = orig_sleep
    out["unpublished"] = [list(op) for op in ops]
    for o in obs:
        for c in o["deployed"]:
            ops.append(["reg", c, o["agent"]])
        for k, n in o["cbv"]:            # the repair computations come and go as well
            ops.append(["reg", n, o["agent"]])
    # every candidate drops (and un-publishes) its replica of every computation it was candidate
    # for, selected or not; the list is the generator's ground truth, not what the agents sent
    for c in orphaned:
        for a in case["replicas"][c]:
            if a not in leaving:
                ops.append(["unrep", c, a])
    rnd.shuffle(ops)
    for o in obs:
        for k, n in o["cbv"]:
            ops.insert(rnd.randrange(len(ops) + 1), ["unreg", n, rnd.choice([None, o["agent"]])])
    dc = directory.directory_computation
    for op in ops:
        if op[0] == "reg":
            dc._on_publish_computation("_discovery_" + op[2],
                                       PublishComputationMessage(op[1], op[2], "addr_" + op[2]))
        elif op[0] == "unrep":
            dc._on_publish_replica("_discovery_" + op[2], PublishReplicaMessage(op[1], op[2], False))
        else:
            dc._on_unpublish_computation("_discovery_x", UnPublishComputationMessage(op[1], op[2]))
    out["dir"] = dict(init=init, ops=ops, final=[[c, a] for c, a in directory._computations_data.items()],
                      disc={c: _agent_of(dd, c) for c in case["comps"]},
                      replicas={c: sorted(dd._replicas_data.get(c, ())) for c in case["comps"]})
    return out


def _agent_of(d, c):
    try:
        return d.computation_agent(c)
    except Exception:
        return None


def _intval(v):
    if isinstance(v, bool) or v != int(v):
        raise ValueError("non integral constraint value %r" % (v,))
    return int(v)


def _repair_isolated(case):
    import os
    import shutil
    from pydcop.infrastructure import orchestrator as om
    M = om.AgentsMgt
    saved = (M.on_message, M._send_mgt_msg, M._cb_agent_registration, M._cb_computation_registration)
    d = os.path.join(rt.WORK, "r%d" % os.getpid())
    os.makedirs(d, exist_ok=True)
    old = os.getcwd()
    os.chdir(d)
    devnull = open(os.devnull, "w")
    import sys
    so = sys.stdout
    sys.stdout = devnull                 # _on_repair_computation_finished prints metrics
    try:
        return _repair(case)
    except Exception as e:
        import traceback
        return {"error": type(e).__name__, "detail": str(e)[:300], "tb": traceback.format_exc()[-800:]}
    finally:
        sys.stdout = so
        devnull.close()
        M.on_message, M._send_mgt_msg, M._cb_agent_registration, M._cb_computation_registration = saved
        os.chdir(old)
        shutil.rmtree(d, ignore_errors=True)


def run_impl(case):
    if case["kind"] == "real":
        return rt.run_isolated(_real, case, hard_timeout=RUN_TIMEOUT + 60, retries=1)
    if case["kind"] == "repair":
        return _repair_isolated(case)
    return _crafted_isolated(case)


def _unreplicated(before, leaving):
    """orphaned computations without any surviving replica holder: replication did not reach
    the level the property assumes (replica placement is C25's subject)"""
    return sorted(c for c, h in before["hosts"].items()
                  if h in leaving and not [a for a in before["replicas"].get(c, []) if a not in leaving])


# ------------------------------------------------------------------ oracle
def _problems(case, o):
    """[(finding id or None, text)] -- independent statement of C27 on the observed end state"""
    out = []
    nodes = o["static"]["nodes"]
    leaving = set(case["leaving"])
    before = o["before"]
    if o.get("crashes"):
        # an UnknownComputation escaping a message handler of a surviving agent ends that agent's
        # thread (seen ~1 run in 150 under heavy load): recorded finding; anything else is new
        # (the recorded one escapes from a message handler of the replication / discovery path;
        # an exception escaping from the agent's own _on_repair_computation_finished -- e.g. an
        # unguarded re-replication of the re-hosted computations -- is NOT that finding)
        only_unknown = all(len(x) == 4 and x[0] != "orchestrator" and x[0] not in leaving
                           and x[1] == "UnknownComputation"
                           and "_on_repair_computation_finished" not in x[3] for x in o["crashes"])
        # (the ValueError of a stale un-publication forwarded to the Discovery of the new host, finding
        #  F_STALE, is fixed in /repo 3fa7ad9: such a crash would be a regression and is NOT classified)
        return [(F_CRASH if only_unknown else None,
                 "thread died / critical error during the run: %r" % (o["crashes"][:3],))]
    if o.get("watcher_incomplete") or before is None:
        return [(None, "the run ended before the state after the repair could be read")]
    if before is not None and _unreplicated(before, case["leaving"]):
        return []       # hypothesis not met: counted in the histogram as 'real_unreplicated'
    if not o.get("repair_finished"):
        return [(None, "the repair did not complete within 60 s")]
    orphaned = [c for c in nodes if before["hosts"].get(c) in leaving]
    status = o["repair_status"][-1] if o["repair_status"] else None
    bad = False
    for c in nodes:
        # o["hosted"] lists the agents whose thread is still running: an agent removed by the
        # event that is still alive and still holds the computation counts as a live host
        live = [a for a, cs in o["hosted"].items() if c in cs]
        dirs = [a for a, cs in o["directory"].items() if c in cs and a not in leaving]
        if len(live) != 1 or len(dirs) != 1 or live != dirs:
            bad = True
            fid = None
            if c in orphaned and len(live) == 0 and status == "KO":
                fid = F_LOST
            elif c in orphaned and len(live) > 1 and not [a for a in live if a in leaving]:
                fid = F_DUP
            out.append((fid, "computation %s hosted by agents %r (directory: %r) after the repair, status %s"
                        % (c, live, dirs, status)))
        elif c in orphaned and live[0] not in before["replicas"].get(c, []):
            bad = True
            out.append((None, "%s re-hosted on %s which held no replica (%r)" % (
                c, live[0], before["replicas"].get(c))))
        elif c not in orphaned and live[0] != before["hosts"].get(c):
            bad = True
            out.append((None, "%s moved from %s to %s although its host stayed" % (
                c, before["hosts"].get(c), live[0])))
    if status == "OK" and bad and not out:
        out.append((None, "status OK with an invalid hosting"))
    if status != "OK" and not bad:
        out.append((None, "repair status %r although every computation is hosted exactly once" % status))
    return out


def oracle(case, o):
    if "error" in o:
        return "run failed: %s %s" % (o["error"], o.get("detail", ""))
    if case["kind"] == "crafted":
        return _crafted_oracle(case, o)
    if case["kind"] == "repair":
        p = _repair_problems(case, o)
        if p:
            unknown = [t for f, t in p if f is None]
            return "; ".join((unknown or [t for _, t in p])[:3])
        return None
    p = _problems(case, o)
    if p:
        unknown = [t for f, t in p if f is None]
        return "; ".join((unknown or [t for _, t in p])[:3])
    return None


def classify(case, o, msg):
    if "error" in o:
        return None
    if case["kind"] == "crafted" and o.get("critical"):
        return None
    if case["kind"] == "repair":
        p = _repair_problems(case, o)
    else:
        p = _problems(case, o) if case["kind"] == "real" else _crafted_problems(case, o)
    ids = {f for f, _ in p}
    if p and None not in ids and len(ids) == 1:
        return ids.pop()
    return None


def _crafted_problems(case, o):
    """property-level reading of a crafted protocol run: for each removal event, the status the
    orchestrator reports must be OK exactly when every computation orphaned so far and not yet
    re-hosted is selected by exactly one agent"""
    out = []
    hosts = dict(case["hosts"])
    repl = {c: list(v) for c, v in case["replicas"].items()}     # as the driver keeps the directory
    statuses = [x[1] for e in o["trace"] for x in e["outs"] if x[0] == "status"]
    si = 0
    pending = None
    script = case["script"]
    i = 0
    lost_before = set()
    while i < len(script):
        op = script[i]
        if op[0] == "event":
            orphaned = [c for c in case["comps"] if hosts.get(c) in op[1]]
            for c in case["comps"]:
                repl[c] = [a for a in repl[c] if a not in op[1]]
            if any(not repl[c] for c in orphaned):
                # replication level not met for this event (e.g. after a duplicate selection both
                # selectors dropped their replica): the orchestrator finds no candidate for the
                # computation and never closes the repair -- outside the property's hypothesis
                break
            for c in orphaned:
                hosts.pop(c)
            j = i + 1
            sel = {}
            while j < len(script) and script[j][0] != "event":
                if script[j][0] == "done":
                    for c in script[j][2]:
                        sel.setdefault(c, []).append(script[j][1])
                j += 1
            if si >= len(statuses):
                out.append((None, "no repair status reported for event %r" % (op[1],)))
                break
            status = statuses[si]
            si += 1
            need = set(orphaned)
            zero = sorted(c for c in need if len(sel.get(c, [])) == 0)
            multi = sorted(c for c in need if len(sel.get(c, [])) > 1)
            for c, ags in sel.items():
                hosts[c] = ags[0]
                repl[c] = [a for a in repl.get(c, []) if a not in ags]
            lost_before = set(zero)
            valid = not zero and not multi
            if status == "OK" and not valid:
                fid = F_DUP if (multi and not zero) else None
                out.append((fid, "status OK although %s" % (
                    ("%r selected by several agents" % multi) if multi else "") + (
                    (" %r selected by nobody" % zero) if zero else "")))
            if status == "KO" and valid:
                out.append((None, "status KO although every orphaned computation was selected exactly once"))
            i = j
        else:
            i += 1
    return out


def _repair_problems(case, o):
    """independent reading of one composed repair: what every candidate built and activated, the
    bridge 'no violated hard constraint <=> valid re-hosting', the orchestrator's verdict and the
    hosting / directory state afterwards"""
    out = []
    leaving = set(case["leaving"])
    x = {tuple(k.split("|")): v for k, v in case["x"].items()}
    hosts, fp = case["hosts"], case["fp"]
    orphaned = [c for c in case["comps"] if hosts[c] in leaving]
    holders = {c: sorted(a for a in case["replicas"][c] if a not in leaving) for c in orphaned}
    if sorted(o["orphaned"]) != sorted(orphaned):
        out.append((None, "orphaned computations %r, expected %r" % (o["orphaned"], orphaned)))
    want_cands = sorted({a for c in orphaned for a in holders[c]})
    if sorted(o["cands"]) != want_cands or len(set(o["cands"])) != len(o["cands"]):
        out.append((None, "candidate agents %r, expected %r" % (o["cands"], want_cands)))
    if [ao["agent"] for ao in o["agents"]] != list(o["cands"]):
        out.append((None, "agents set up %r" % ([ao["agent"] for ao in o["agents"]],)))
    total = 0
    for ao in o["agents"]:
        a = ao["agent"]
        mine = [c for c in orphaned if a in holders[c]]
        if sorted(h[0] for h in ao["hosted"]) != sorted(mine):
            out.append((None, "%s built hosted constraints for %r, its candidates are %r" % (
                a, [h[0] for h in ao["hosted"]], mine)))
        for comp, keys, scope, consistent, val in ao["hosted"]:
            want = [[comp, h] for h in holders.get(comp, [])]
            if keys != want or scope != ["B%s_%s" % (c, h) for c, h in want] or not consistent:
                out.append((None, "hosted constraint of %s on %s is over %r %r, expected the variables of %r" % (
                    comp, a, keys, scope, want)))
            total += val
        cap = ao["capacity"]
        if cap is None:
            out.append((None, "%s built no capacity constraint" % a))
            continue
        if cap[0] != case["slack"][a] or sorted(cap[1]) != sorted([c, a] for c in mine) \
                or cap[2] != ["B%s_%s" % (c, h) for c, h in cap[1]]:
            out.append((None, "capacity constraint of %s: remaining %r over %r %r; expected remaining %r over %r" % (
                a, cap[0], cap[1], cap[2], case["slack"][a], mine)))
        total += cap[3]
        if ao.get("after_report") is not None:
            out.append((None, "%s: _on_repair_computation_finished raised %r after reporting %r: in a run the "
                              "agent's thread ends and its computations %r are on no live agent" % (
                                  a, ao["after_report"], ao["reported"], ao["own"] + ao["deployed"])))
        elif ao.get("left_repair") or ao.get("own_after") != ao.get("own"):
            out.append((None, "%s after its repair: repair computations left %r, own computations %r (had %r)" % (
                a, ao.get("left_repair"), ao.get("own_after"), ao.get("own"))))
        if ao.get("var_clash"):
            out.append((None, "%s: the repair DCOP holds two different variables named %r (the constraints of one "
                              "computation disagree on what the variable is)" % (a, ao["var_clash"])))
        if ao.get("eval_error"):
            out.append((None, "%s: constraint %s of its repair DCOP cannot be evaluated any more (%s %s)%s" % (
                a, ao["eval_error"][0], ao["eval_error"][1], ao["eval_error"][2],
                " after the agent_removed notice" if case.get("notice") else "")))
        if ao.get("notice_error"):
            out.append((None, "%s: the agent_removed notice during the repair raised %r" % (a, ao["notice_error"])))
        if ao.get("after_report") is None and ao.get("unrep") != sorted([c, a] for c in mine):
            out.append((None, "%s un-published the replicas %r, expected its replica of each of its candidates %r "
                              "(the directory keeps listing it as a replica holder)" % (a, ao.get("unrep"), mine)))
        want_sel = sorted(c for c in mine if x.get((c, a), 0) == 1)
        if len(ao["reported"]) != 1 or sorted(ao["reported"][0]) != want_sel or ao["deployed"] != want_sel:
            out.append((None, "%s reported %r and deployed %r, its variables at 1 are %r" % (
                a, ao["reported"], ao["deployed"], want_sel)))
    count = {c: sum(x.get((c, h), 0) for h in holders[c]) for c in orphaned}
    fits = all(sum(fp[c] for c in orphaned if a in holders[c] and x.get((c, a), 0) == 1) <= case["slack"][a]
               for a in want_cands)
    valid = all(count[c] == 1 for c in orphaned if holders[c]) and fits
    if (total == 0) != valid:
        out.append((None, "hard constraints sum to %d although the outcome is %s (selected %r, fits %s)" % (
            total, "a valid re-hosting" if valid else "not a valid re-hosting", count, fits)))
    if orphaned:
        if "orch" not in o:
            out.append((None, "no repair_done report from every candidate: orchestrator not driven"))
        else:
            if o["orch"].get("critical"):
                out.append((None, "orchestrator handler raised"))
            out += _crafted_problems(o["orch_case"], o["orch"])
    if sorted(o.get("unpublished", [])) != sorted(["unreg", c, hosts[c]] for c in orphaned):
        out.append((None, "the departing agents un-published %r, expected every orphaned computation once, "
                          "in the name of its host" % (o.get("unpublished"),)))
    # hosting and directory afterwards
    for c in case["comps"]:
        want_rep = sorted(a for a in case["replicas"][c] if c not in orphaned or a in leaving)
        if o["dir"].get("replicas", {}).get(c) != want_rep:
            out.append((None, "directory lists %r as replica holders of %s after the repair, expected %r "
                              "(every candidate dropped its replica)" % (o["dir"].get("replicas", {}).get(c), c, want_rep)))
    final = dict((c, a) for c, a in o["dir"]["final"])
    for c in case["comps"]:
        if c not in orphaned:
            if final.get(c) != hosts[c] or o["dir"]["disc"].get(c) != hosts[c]:
                out.append((None, "%s stayed on %s but the directory says %r / %r" % (
                    c, hosts[c], final.get(c), o["dir"]["disc"].get(c))))
            continue
        live = sorted(ao["agent"] for ao in o["agents"] if c in ao["deployed"])
        if count[c] == 1:
            want = [h for h in holders[c] if x.get((c, h), 0) == 1]
            if live != want:
                out.append((None, "%s selected on %r but hosted by %r" % (c, want, live)))
            elif final.get(c) != want[0] or o["dir"]["disc"].get(c) != want[0]:
                out.append((None, "%s re-hosted on %s but the directory names %r (its discovery %r)" % (
                    c, want[0], final.get(c), o["dir"]["disc"].get(c))))
        elif count[c] == 0 and (live or c in final):
            out.append((None, "%s selected by nobody but hosted by %r / directory %r" % (c, live, final.get(c))))
    return out


def _crafted_oracle(case, o):
    if o.get("critical"):
        return "orchestrator handler raised (critical error path) %d time(s)" % o["critical"]
    p = _crafted_problems(case, o)
    if p:
        unknown = [t for f, t in p if f is None]
        return "; ".join((unknown or [t for _, t in p])[:3])
    return None


ST = {"running": "SRunning", "replicating": "SReplicating", "ready": "SReady",
      "repair_setup": "SRepairSetup", "repair_ready": "SRepairReady", "repair_run": "SRepairRun",
      "repair_done": "SRepairDone"}


def _rout(x):
    k = x[0]
    m = {"run": "RORun", "replication": "ROReplication", "pause": "ROPause",
         "agent_removed": "ROAgentRemoved", "setup_repair": "ROSetupRepair",
         "repair_run": "RORepairRun", "resume": "ROResume"}
    if k == "status":
        return "ROStatus %s" % q.b(x[1] == "OK")
    if k in m:
        return "%s %s" % (m[k], q.s(x[1]))
    raise ValueError("sent message not modelled: %r" % (x,))


def _bkey(k):
    return q.pair(q.s(k[0]), q.s(k[1]))


def _pairs(l, fa, fb):
    return q.lst([q.pair(fa(a), fb(b_)) for a, b_ in l])


def _repair_term(case, o):
    scen = "(mkScen (mkDisc %s %s) %s %s %s %s)" % (
        _pairs(o["view"]["comps"], q.s, q.s), _pairs(o["view"]["replicas"], q.s, q.slist),
        _pairs(o["graph"], q.s, q.slist), q.slist(case["leaving"]),
        q.szdict({a: case["slack"][a] for a in o["cands"]}), q.szdict(case["fp"]))
    xt = q.lst([q.pair(_bkey(k.split("|")), q.z(v)) for k, v in sorted(case["x"].items())])
    obs = []
    total = 0
    for ao in o["agents"]:
        hosted = q.lst(["(%s, %s, %s, %s)" % (q.s(c), q.lst([_bkey(k) for k in ks]), q.slist(sc), q.z(v))
                        for c, ks, sc, _, v in ao["hosted"]])
        cap = ao["capacity"] or [0, [], [], 0]
        total += sum(h[4] for h in ao["hosted"]) + cap[3]
        obs.append("(mkAO %s %s %s %s %s %s %s)" % (
            q.s(ao["agent"]), _pairs(ao["cbv"], _bkey, q.s), hosted, q.lst([_bkey(k) for k in cap[1]]),
            q.slist(cap[2]), q.z(cap[3]), q.slist(ao["reported"][0] if ao["reported"] else [])))
    return "KRepair %s %s %s %s %s" % (scen, q.slist(o["cands"]), xt, q.lst(obs), q.z(total))


def _dir_term(dr):
    ops = []
    for op in dr["ops"]:
        if op[0] == "unrep":
            continue            # replica table: not in the model (oracle only)
        if op[0] == "reg":
            ops.append("DReg %s %s" % (q.s(op[1]), q.s(op[2])))
        else:
            ops.append("DUnreg %s %s" % (q.s(op[1]), q.opt(op[2], q.s)))
    return "KDir %s %s %s" % (_pairs(dr["init"], q.s, q.s), q.lst(ops), _pairs(dr["final"], q.s, q.s))


def coq_case(case, o):
    if "error" in o:
        return None
    if case["kind"] == "repair":
        atoms = [_repair_term(case, o), _dir_term(o["dir"])]
        if "orch" in o:
            atoms.append("KOrch (%s)" % _orch_term(o["orch_case"], o["orch"]))
        return q.lst(atoms)
    return q.lst(["KOrch (%s)" % _orch_term(case, o)])


def _orch_term(case, o):
    steps = []
    for e in o["trace"]:
        ev = e["ev"]
        t = ev["t"]
        ags = q.slist(e["agents"])
        if t == "run":
            term = "RvRun %s" % ags
        elif t == "replicate":
            term = "RvReplicate %s" % ags
        elif t == "replicated":
            term = "RvReplicated %s" % q.s(ev["agent"])
        elif t == "event":
            cands = [x[1] for x in e["outs"] if x[0] == "setup_repair"]
            term = "RvRemoval %s %s %s %s" % (q.slist(ev["removed"]), ags,
                                              q.slist(e.get("orphaned", [])), q.slist(cands))
        elif t == "repair_ready":
            term = "RvRepairReady %s" % q.s(ev["agent"])
        elif t == "repair_done":
            term = "RvRepairDone %s %s %s" % (q.s(ev["agent"]), q.slist(ev["selected"]), ags)
        else:
            raise ValueError("event not modelled %r" % ev)
        steps.append("(%s, %s)" % (term, q.lst([_rout(x) for x in e["outs"]])))
    ro = bool(case.get("repair_only"))
    agts = q.lst([q.pair(q.s(a), ST[st]) for a, st in o["agts_state"]])
    comps = q.lst([q.pair(q.s(c), q.opt(a, q.s)) for c, a in o["comps_state"]])
    return "mkCase %s [] %s %s %s %s" % (q.b(ro), q.lst(steps), agts, comps, q.z(o["dist_count"]))


def nontrivial(case, o):
    if case["kind"] == "repair":
        return bool(o.get("agents"))
    return any(e["ev"]["t"] == "repair_done" for e in o.get("trace", []))


def histogram(cases, obs):
    h = {}
    for c, o in zip(cases, obs):
        h[c["kind"]] = h.get(c["kind"], 0) + 1
        if "error" in o:
            h["error/" + o["error"]] = h.get("error/" + o["error"], 0) + 1
            continue
        if c["kind"] == "repair":
            tot = sum(sum(x[4] for x in ao["hosted"]) + (ao["capacity"] or [0, 0, 0, 0])[3] for ao in o["agents"])
            key = "repair_hard_cost_" + ("zero" if tot == 0 else "positive")
            h[key] = h.get(key, 0) + 1
            h["repair_agents_set_up"] = h.get("repair_agents_set_up", 0) + len(o["agents"])
            h["repair_dir_ops"] = h.get("repair_dir_ops", 0) + len(o["dir"]["ops"])
            for e in o.get("orch", {}).get("trace", []):
                for x in e["outs"]:
                    if x[0] == "status":
                        h["repair_status/" + x[1]] = h.get("repair_status/" + x[1], 0) + 1
            continue
        for e in o["trace"]:
            for x in e["outs"]:
                if x[0] == "status":
                    h["status/" + x[1]] = h.get("status/" + x[1], 0) + 1
        if c["kind"] == "real" and o.get("before") and _unreplicated(o["before"], c["leaving"]):
            h["real_unreplicated"] = h.get("real_unreplicated", 0) + 1
        if c["kind"] == "real":
            h["real_repairs_with_orphans"] = h.get("real_repairs_with_orphans", 0) + (
                1 if any(e["ev"]["t"] == "repair_done" for e in o["trace"]) else 0)
            h["real_max_repair_wait_s"] = max(h.get("real_max_repair_wait_s", 0), round(o.get("repair_wait", 0), 1))
    return h
