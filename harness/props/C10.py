"""C10 -- every value an algorithm selects lies in the variable's domain (all 11 shipped algorithms)."""
from harness import coqio as q

ID = "C10"
COQ_REQUIRE = ["Net", "M_Select", "M_SelectBest"]
COQ_CASE_TYPE = "M_SelectBest.case2"
COQ_CHECK = "M_SelectBest.check_case2"
OBLIGATIONS = ["funnel_in_domain", "dsatuto_selects_in_domain", "adsa_selects_in_domain", "gdba_selects_in_domain",
               "dpop_selects_in_domain", "syncbb_selects_in_domain", "mgm_selects_in_domain",
               "mgm2_selects_in_domain", "mgm2_messages_in_domain", "dsa_selects_in_domain",
               "dba_selects_in_domain_partial", "dba_selects_in_domain_refuted", "dba_selects_in_domain", "dba_nesting_limit_unreached",
               "adsa_find_best_values_spec", "gdba_compute_best_improvement_spec",
               "adsa2_selects_in_domain", "gdba2_selects_in_domain",
               "maxsum_selects_in_domain", "amaxsum_selects_in_domain", "C10_all"]
N_QUICK, N_THOROUGH = 660, 8800
PARALLEL = 8
SHARD = 120
ALGOS = ["dpop", "syncbb", "mgm", "mgm2", "dsa", "adsa", "dsatuto", "dba", "gdba", "maxsum", "amaxsum"]
RULE = ("each case = one run of one of the 11 shipped algorithms (round robin, so every tier covers all of them; "
        "an algorithm that cannot be imported or instantiated is a driver error, never skipped) on a random DCOP of "
        "1-5 variables, domains of 1-4 values that are ints offset from their index (70%), strs (12%) or a MIX of "
        "int and str values (18%, the stream that exposed numpy.random.choice in random_value_selection), "
        "binary/unary/ternary integer matrix constraints (binary only for syncbb and dba), optional variable costs and "
        "initial values, min/max, random algorithm parameters, a seeded per-channel-FIFO schedule of 20-260 steps "
        "from 6 policies (periodic actions of adsa are self-deliveries).  Every 14th case TRIES to declare a variable "
        "with an initial value outside its domain (falsy: 0/False/''/0.0, or truthy), through Variable / "
        "VariableWithCostDict / VariableWithCostFunc or a yaml string: 'rejected' (ValueError) is the expected "
        "observation, an accepted declaration is run and judged by the same oracle.  Every 14th case declares its "
        "variables with RAW iterable domains (generator expression, iter(list), map object = one-shot; tuple, range, "
        "str of chars) and initial values: the oracle demands that each variable holds exactly the generated values "
        "in order and judges every selection against the generated list (never the domain read back); half of the "
        "str-domain cases try a two-character substring as initial value (expected: rejected).  non-trivial = at least one "
        "_on_value_selection fired; distinct = distinct case JSON")
MODELLED = ("Theorems (all schedules, all instances, all draws): in-domain selection for the handler-level models of "
            "dpop, syncbb, mgm, mgm2, dsa, dba, maxsum, amaxsum (other engineers' models, tied to the code by their own "
            "checks C01/C02/C07/C09/C05) and for the selection-only models of dsatuto, adsa, gdba and the "
            "value_selection funnel of M_Select.v.  This run ties M_Select.v to the code: every value_selection call of "
            "every variable computation of every algorithm is replayed on the funnel model (fired / current_value), "
            "and whole runs of dsatuto, adsa, gdba are replayed on their models (every selection event, finished, "
            "final values).  The oracle checks membership (==) of every value passed to value_selection, reported by "
            "_on_value_selection or returned by current_value, for all 11 algorithms.  Deepenings: DBA is proved in "
            "full on well-formed problems (no IndexError clause, also after finished(); counting barrier invariant "
            "P_SelectDba2.KI), and the oracle checks that hypothesis (each real DbaComputation holds exactly the "
            "constraints its variable occurs in); adsa.find_best_values and gdba._compute_best_improvement are "
            "modelled (M_SelectBest.fbv / cbi): the driver records the cost of every domain value, the model computes "
            "the best-value list and the branch value itself and both are compared with what the implementation "
            "returned, tick by tick; their specification (exactly the optimal values, in domain order) is a theorem.")
META = dict(
    level_text=("Proof (Coq): for every problem instance, every random draw and every schedule of starts and "
                "per-channel-FIFO deliveries (messages received before start included), every value-selection event "
                "of the models of the 11 shipped algorithms carries None or a member of the selecting variable's "
                "domain, and the current value held by every computation is None or such a member; the message-borne "
                "cases (SyncBB paths, MGM2 offers) rest on a proved invariant over all messages in flight.  The "
                "statement about the code rests on the correspondence runs that replay real executions of all 11 "
                "algorithms on the models."),
    level_note=("Hypotheses: non-empty domains; a declared initial value is a domain member (enforced by "
                "Variable.__init__); for DBA a well-formed constraint graph (checked on every generated run; without "
                "it only the partial statement holds and a refuting run of the model is given).  dsatuto/adsa/gdba "
                "are selection-only models: constraint evaluation is an explicit input stream (adsa, gdba: the cost "
                "of every domain value, the best-value list is computed by the modelled find_best_values / "
                "_compute_best_improvement; dsatuto: sign + mask of find_optimal's list); optimal_cost_value of an "
                "isolated variable is an input covered by C06.  Trusted: Coq kernel/vm_compute, the M_*.v files as renderings "
                "of the Python code, the thread-free netdriver."),
    technique="Coq invariant proofs over executable network models + schedule-replay correspondence on all algorithms",
    design_ref="DESIGN.md §5 C10",
)


# ------------------------------------------------------------------ generator
def _domain(rng, kind, size):
    if kind == "int":
        off = rng.choice([1, 3, 5, 10])
        return [off + 2 * i for i in range(size)]
    if kind == "str":
        return ["a", "b", "c", "d"][:size]
    pool = [1, "a", 2, "1", 0, "b"]          # int and str values, including the string of an int value
    rng.shuffle(pool)
    d = pool[:size]
    if size >= 2 and all(isinstance(x, type(d[0])) for x in d):
        d[0] = "z" if isinstance(d[0], int) else 7
    return d


def _params(rng, algo):
    if algo in ("mgm",):
        return {"stop_cycle": rng.choice([0, 0, 3, 6]), "break_mode": rng.choice(["lexic", "random"])}
    if algo == "mgm2":
        return {"stop_cycle": rng.choice([0, 0, 3, 6]), "threshold": rng.choice([0.2, 0.5, 0.8]),
                "favor": rng.choice(["unilateral", "no", "coordinated"])}
    if algo == "dsa":
        return {"stop_cycle": rng.choice([0, 0, 4, 8]), "variant": rng.choice("ABC"),
                "probability": rng.choice([0.3, 0.7, 1.0])}
    if algo == "adsa":
        return {"variant": rng.choice("ABC"), "probability": rng.choice([0.0, 0.3, 0.7, 1.0]), "period": 0.5}
    if algo == "dba":
        return {"infinity": rng.choice([5, 8, 10000]), "max_distance": rng.choice([2, 5, 50])}
    if algo == "gdba":
        return {"modifier": rng.choice("AM"), "violation": rng.choice(["NZ", "NM", "MX"]),
                "increase_mode": rng.choice("ERCT")}
    if algo in ("maxsum", "amaxsum"):
        return {"damping": rng.choice([0.0, 0.0, 0.5]), "noise": rng.choice([0.0, 0.01]),
                "stability": rng.choice([0.0, 0.1]), "start_messages": rng.choice(["leafs", "leafs_vars", "all"]),
                "damping_nodes": rng.choice(["vars", "factors", "both", "none"])}
    return {}


def gen_one(rng, algo):
    nv = rng.choice([1, 2, 2, 3, 3, 4, 5])
    r = rng.random()
    kind = "int" if r < 0.70 else ("str" if r < 0.82 else "mixed")
    vars_ = []
    for i in range(nv):
        size = rng.choice([1, 2, 2, 3, 3, 4])
        dom = _domain(rng, kind, size)
        init = rng.choice(dom) if rng.random() < 0.3 else None
        costs = [rng.randint(0, 5) for _ in dom] if rng.random() < 0.25 else None
        vars_.append(dict(dom=dom, init=init, costs=costs))
    cons = []
    shape = rng.choice(["chain", "random", "random", "clique", "sparse"])
    pairs = [(i, j) for i in range(nv) for j in range(i + 1, nv)]
    for (i, j) in pairs:
        p = {"chain": 1.0 if j == i + 1 else 0.0, "random": 0.5, "clique": 1.0, "sparse": 0.25}[shape]
        if rng.random() < p:
            sc = [i, j] if rng.random() < 0.7 else [j, i]
            n = len(vars_[sc[0]]["dom"]) * len(vars_[sc[1]]["dom"])
            hi = rng.choice([1, 9, 9, 20])
            cons.append(dict(scope=sc, table=[rng.randint(0, hi) for _ in range(n)]))
    if algo not in ("syncbb", "dba"):
        if rng.random() < 0.3:
            i = rng.randrange(nv)
            cons.append(dict(scope=[i], table=[rng.randint(0, 9) for _ in vars_[i]["dom"]]))
        if nv >= 3 and rng.random() < 0.2:
            sc = rng.sample(range(nv), 3)
            n = 1
            for v in sc:
                n *= len(vars_[v]["dom"])
            cons.append(dict(scope=sc, table=[rng.randint(0, 9) for _ in range(n)]))
    mode = "min" if algo == "dba" else rng.choice(["min", "min", "max"])     # DBA refuses max
    return dict(algo=algo, mode=mode, params=_params(rng, algo), vars=vars_, cons=cons,
                kind=kind, seed=rng.randrange(10 ** 9), max_steps=rng.choice([20, 60, 120, 260]))


INIT_ALGOS = ["mgm", "mgm2", "gdba", "maxsum", "amaxsum"]       # they select variable.initial_value at start


def _bad_init(rng, dom):
    """a value that is == to no element of dom: falsy ones first (0, False, '', 0.0), then truthy ones"""
    falsy = [x for x in (0, False, "", 0.0) if not any(x == d for d in dom)]
    truthy = [x for x in (99, "zz", -1, 7.5) if not any(x == d for d in dom)]
    pool = falsy if (falsy and rng.random() < 0.6) else truthy
    return rng.choice(pool)


def gen_badinit(rng):
    """a DCOP that TRIES to declare one variable with an initial value outside its domain, through the API
    (Variable / VariableWithCostDict), through VariableWithCostFunc, or through a yaml string"""
    algo = rng.choice(INIT_ALGOS) if rng.random() < 0.8 else rng.choice(ALGOS)
    c = gen_one(rng, algo)
    i = rng.randrange(len(c["vars"]))
    v = dict(c["vars"][i])
    v["init"] = _bad_init(rng, v["dom"])
    c["vars"] = c["vars"][:i] + [v] + c["vars"][i + 1:]
    c["via"] = rng.choice(["api", "api", "costfunc", "yaml", "yaml"])
    c["badinit"] = [i, "falsy" if not v["init"] else "truthy"]
    return c


RAW_FORMS = ["gen", "iter", "map", "tuple", "range", "str"]      # first three: one-shot iterables


def gen_rawdom(rng):
    """a DCOP whose variables are declared with RAW iterable domains (what the Variable docstring allows: 'Domain or
    Iterable'): one-shot iterables (generator expression, iter(list), map object), tuple, range, str of chars - with
    initial values.  The generated value list is the ground truth for the domain AND for the membership oracle."""
    algo = rng.choice(INIT_ALGOS) if rng.random() < 0.8 else rng.choice(ALGOS)
    c = gen_one(rng, algo)
    forms, vars_ = [], []
    for v in c["vars"]:
        v = dict(v)
        size = len(v["dom"])
        form = rng.choice(RAW_FORMS + ["gen", "iter", "map"])
        if form == "range":
            off, step = rng.choice([0, 1, 3, 10]), rng.choice([1, 2, 5])
            v["dom"] = [off + step * i for i in range(size)]
        elif form == "str":
            v["dom"] = list("pqrs"[:size])
        elif form == "map" and not all(type(x) is int for x in v["dom"]):
            v["dom"] = [3 + 2 * i for i in range(size)]
        if v.get("costs") is not None:
            v["costs"] = list(v["costs"])[:size]
        v["init"] = rng.choice(v["dom"]) if rng.random() < 0.85 else None
        forms.append(form)
        vars_.append(v)
    c["vars"], c["domforms"], c["via"] = vars_, forms, "api"
    strs = [i for i, f in enumerate(forms) if f == "str" and len(vars_[i]["dom"]) >= 2]
    if strs and rng.random() < 0.5:
        # a str domain makes `x in domain` a substring test: 'pq' is in 'pqr' but is not one of its values
        i = rng.choice(strs)
        k = rng.randrange(len(vars_[i]["dom"]) - 1)
        vars_[i]["init"] = vars_[i]["dom"][k] + vars_[i]["dom"][k + 1]
        c["badinit"] = [i, "truthy"]
    return c


def gen(rng, n, tier):
    out = []
    for k in range(n):
        if k % 14 == 13:          # low-weight stream (7%): out-of-domain initial values
            out.append(gen_badinit(rng))
        elif k % 14 == 6:         # low-weight stream (7%): raw iterable domains with initial values
            out.append(gen_rawdom(rng))
        else:
            out.append(gen_one(rng, ALGOS[k % len(ALGOS)]))
    return out


# ------------------------------------------------------------------ implementation driver
def run_impl(case):
    import contextlib
    import io
    from harness.pydrv import select_drv
    with contextlib.redirect_stdout(io.StringIO()):      # adsa print()s while it waits for its neighbours
        return select_drv.run_case(case)


# ------------------------------------------------------------------ oracle (independent: membership by ==)
def oracle(case, o):
    if o.get("rejected"):
        # the declaration was refused: nothing can be selected.  Only legitimate for the bad-initial-value stream
        return None if case.get("badinit") else "construction rejected: %s" % o.get("error")
    names = ["v%02d" % i for i in range(len(case["vars"]))]
    if o.get("domvals") is not None:
        # the variables hold exactly the generated values, in order (ground truth = the generator's list, never the
        # domain read back from the implementation); a raw iterable domain must not be consumed by the constructor
        want = [[[type(x).__name__, repr(x)] for x in v["dom"]] for v in case["vars"]]
        if o["domvals"] != want:
            i = [a != b for a, b in zip(o["domvals"], want)].index(True) if len(o["domvals"]) == len(want) else 0
            return "%s v%02d: declared with the domain %r (%s) and initial value %r, the variable holds the domain %s" % (
                case["algo"], i, case["vars"][i]["dom"], (case.get("domforms") or [None] * (i + 1))[i],
                case["vars"][i].get("init"), [x[1] for x in o["domvals"][i]] if i < len(o["domvals"]) else None)
    if sorted(o["varcomps"]) != names:
        return "%s: variable computations %s, expected %s" % (case["algo"], o["varcomps"], names)
    for c in o["calls"]:
        node, idx, val = c[0], c[1], c[2]
        if idx == -1:
            return "%s %s: value_selection(%s) is not in the domain %r" % (
                case["algo"], node, val, case["vars"][int(node[1:])]["dom"])
        if c[4] == -1 or c[5] == -1:
            return "%s %s: current_value %s is not in the domain" % (case["algo"], node, c[6])
    for e in o["events"]:
        if e[1] == -1:
            return "%s %s: _on_value_selection(%s) is not in the domain" % (case["algo"], e[0], e[2])
    for n_, f in o["final"].items():
        if f[0] == -1:
            return "%s %s: final current_value %s is not in the domain" % (case["algo"], n_, f[1])
    if case["algo"] == "dba" and o.get("dba_graph") is not None:
        # hypothesis of dba_selects_in_domain (M_Dba.wf_problem), stated independently on the generated instance:
        # every computation holds exactly the constraints its variable occurs in; neighbours = the other variables
        # of those constraints (hence symmetric neighbour sets)
        for i, n_ in enumerate(names):
            want_c = sorted("c%02d" % k for k, c in enumerate(case["cons"]) if i in c["scope"])
            want_n = sorted({"v%02d" % j for c in case["cons"] if i in c["scope"] for j in c["scope"] if j != i})
            got = o["dba_graph"].get(n_)
            if got != [want_c, want_n]:
                return ("dba %s: computation holds constraints/neighbours %s, expected %s: the hypothesis "
                        "wf_problem of dba_selects_in_domain does not hold for this run" % (n_, got, [want_c, want_n]))
    if o.get("model") and o["model"]["mask_bad"]:
        return "%s: best-value list %s is not a sub-list of the domain" % (case["algo"], o["model"]["mask_bad"][0])
    return None


# ------------------------------------------------------------------ Gallina
def _id(name):
    return int(name[1:])


def _act(a):
    return "Start %s" % q.z(_id(a[1])) if a[0] == "S" else "Deliver %s %s" % (q.z(_id(a[1])), q.z(_id(a[2])))


def _oz(x):
    return q.opt(x, q.z)


def _mask(m):
    return q.lst([q.b(x) for x in m])


def coq_case(case, o):
    if o.get("rejected") or o.get("dom_mismatch"):
        return "mkCase2 [] (A2Old ANone)"
    names = o["varcomps"]
    funnel = []
    for n_ in names:
        calls = [c for c in o["calls"] if c[0] == n_]
        funnel.append(q.lst(["(%s, %s, %s)" % (_oz(c[1]), q.b(c[3]), _oz(c[5])) for c in calls]))
    algo = case["algo"]
    model = "ANone"
    m = o.get("model")
    if m is not None:
        ids = [_id(n_) for n_ in names]
        doms = q.lst([q.pair(q.z(i), q.zlist(range(len(case["vars"][i]["dom"])))) for i in ids])
        init = q.lst([q.pair(q.z(_id(n_)), _oz(m["init"][n_])) for n_ in names])
        nbrs = q.lst([q.pair(q.z(_id(n_)), q.zlist([_id(x) for x in m["nbrs"][n_]])) for n_ in names])
        iso = q.lst([q.pair(q.z(_id(n_)), _oz(v)) for n_, v in sorted(m["iso"].items())])
        orc = q.lst([q.pair(q.z(_id(n_)), q.zlist(m["orc"][n_])) for n_ in names])
        sched = q.lst([_act(a) for a in o["sched"]])
        evl = []
        for e in m["mevents"]:
            if e[0] == "sel":
                evl.append("SSel %s %s" % (q.z(_id(e[1])), _oz(e[2])))
            elif e[0] == "fin":
                evl.append("SFin %s" % q.z(_id(e[1])))
            else:
                evl.append("SErr %s %s" % (q.z(_id(e[1])), q.z(e[2])))
        final = q.lst([q.pair(q.z(_id(n_)), _oz(o["final"][n_][0])) for n_ in names])
        run = "(mkRun %s %s %s %s %s %s %s %s %s)" % (doms, init, nbrs, iso, q.b(case["mode"] == "max"), orc, sched,
                                                      q.lst(evl), final)
        if algo == "dsatuto":
            evs = q.lst([q.pair(q.z(_id(n_)), q.lst([q.pair(q.b(r[0]), _mask(r[1])) for r in m["evs"][n_]]))
                         for n_ in names])
            model = "(ATuto %s %s)" % (run, evs)
        elif algo == "adsa":
            if any(r[3] is None or r[4] is None for n_ in names for r in m["evs"][n_]):
                return None                      # the cost inputs could not be recorded: not modelled (counted)
            # record = inputs (cost of every domain value, cost of the current value, violated flag) + what the
            # implementation derived (delta > 0, mask of the list find_best_values returned)
            evs = q.lst([q.pair(q.z(_id(n_)), q.lst(["(%s, %s, %s, %s, %s)" % (
                q.zlist(r[3]), q.z(r[4]), q.b(r[1]), q.b(r[0]), _mask(r[2])) for r in m["evs"][n_]])) for n_ in names])
            variant = "ABC".index(case["params"].get("variant", "B"))
            prob = int(round(case["params"].get("probability", 0.7) * 1000))
            return "mkCase2 %s (A2Adsa %s %s %s %s)" % (q.lst(funnel), run, q.z(variant), q.z(prob), evs)
        elif algo == "gdba":
            # record = inputs (__cost__, eval of every domain value) + what the implementation derived
            # (_my_improve, mask of the list _compute_best_improvement returned)
            evs = q.lst([q.pair(q.z(_id(n_)), q.lst(["(%s, %s, %s, %s)" % (
                q.z(r[2]), q.zlist(r[3]), q.z(r[0]), _mask(r[1])) for r in m["evs"][n_]])) for n_ in names])
            return "mkCase2 %s (A2Gdba %s %s)" % (q.lst(funnel), run, evs)
    return "mkCase2 %s (A2Old %s)" % (q.lst(funnel), model)


# ------------------------------------------------------------------ evidence helpers
def nontrivial(case, o):
    return bool(o.get("events")) or bool(o.get("rejected"))


def histogram(cases, obs):
    h = {}
    for c, o in zip(cases, obs):
        a = c["algo"]
        d = h.setdefault(a, dict(runs=0, calls=0, fired=0, raises=0, mixed_runs=0, driver_errors=0))
        d["runs"] += 1
        if c.get("domforms"):
            b = h.setdefault("raw_iterable_domains", {})
            for f in c["domforms"]:
                b[str(f)] = b.get(str(f), 0) + 1
        if c.get("badinit"):
            b = h.setdefault("bad_initial_value", {})
            key = "%s_%s_%s" % (c["via"], c["badinit"][1], "rejected" if o.get("rejected") else "ACCEPTED")
            b[key] = b.get(key, 0) + 1
        if "__driver_error__" in o:
            d["driver_errors"] += 1
            continue
        d["calls"] += len(o["calls"])
        d["fired"] += len(o["events"])
        d["raises"] += len(o["raises"])
        d["mixed_runs"] += 1 if c.get("kind") == "mixed" else 0
    return h


def classify(case, o, msg):
    return None


def shrink_candidates(case):
    if case["max_steps"] > 20:
        yield dict(case, max_steps=max(20, case["max_steps"] // 2))
    for k in range(len(case["cons"])):
        yield dict(case, cons=case["cons"][:k] + case["cons"][k + 1:])
    nv = len(case["vars"])
    if nv > 1:
        last = nv - 1
        if all(last not in c["scope"] for c in case["cons"]):
            yield dict(case, vars=case["vars"][:-1])
    for i, v in enumerate(case["vars"]):
        if v.get("costs") is not None:
            vs = list(case["vars"])
            vs[i] = dict(v, costs=None)
            yield dict(case, vars=vs)
