"""C12 -- matrix updates, join and projection follow their algebraic definition.

Also holds the helpers shared with C06 (same Coq model M_Rel): building the real objects from
a JSON case, canonicalising costs / relations / exceptions, printing Gallina terms.
"""
import itertools
import math

from harness import coqio as q

ID = "C12"
COQ_REQUIRE = ["ECost", "M_Rel"]
COQ_CASE_TYPE = "M_Rel.case"
COQ_CHECK = "M_Rel.check_case"
OBLIGATIONS = ["set_value_list_spec", "set_value_dict_spec", "set_value_forms_agree",
               "join_spec", "join_scope", "projection_spec", "slice_spec", "generate_assignment_complete"]
N_QUICK, N_THOROUGH = 600, 6000
SHARD = 150
RULE = ("seeded random matrix relations over 0-4 variables (domains of 1-3 distinct, unordered "
        "integer values) with int, float, mixed, 2^31-boundary, 2^40-scale and +/-inf tables, "
        "and for set also explicit int8/uint8/int16/int32 numpy tables with float / out-of-range "
        "/ infinite values set into them; "
        "operations set (list/dict), get (list/dict), slice, generate_assignment_as_dict, join "
        "(overlapping, disjoint, identical, rotated / permuted same scopes, 0-ary scopes; the second "
        "operand built on equal-but-distinct Variable objects: rebuilt, cost dict in another insertion "
        "order, from_repr(simple_repr(v)); a shared variable then projected out of the join), "
        "projection (min/max, the projected variable possibly an equal copy); plus a malformed "
        "stream (values outside the domain, missing / extra variables, short / long lists, "
        "projection on a foreign variable). non-trivial = relation of arity >= 1 with a table that "
        "is not constant; distinct = distinct case JSON")
MODELLED = ("theorems (all sizes and tables): set by list / by dict changes exactly the addressed "
            "cell and both forms agree; join has dims u1 ++ new(u2) and is pointwise u1+u2; "
            "projection has dims minus x and is the pointwise min/max over x; slice; completeness "
            "of generate_assignment_as_dict.  Only checked by this run: the model equals the real "
            "numpy-based code (incl. error kinds, enumeration order, row-major layout) and the "
            "original relation object is unchanged by set (the model is immutable).")
META = dict(
    level_text=("Proof (Coq) that in the model of NAryMatrixRelation / join / projection a set by "
                "list or dict changes exactly the addressed cell (both forms agree), join is "
                "defined on the union of scopes and equals u1+u2 on every assignment, projection is "
                "defined on scope minus x and equals the min/max over x, for relations of any arity, "
                "domain sizes and extended-cost tables; model tied to pydcop/dcop/relations.py by a "
                "differential run on generated relations on every check."),
    level_note=("Trusted: Coq kernel/vm_compute, M_Rel.v, the harness. Costs are integer-valued "
                "(int or float, |x| < 2^50 so float64 arithmetic is exact) or +/-inf/nan; "
                "non-integer floats are checked by the Python oracle only. Variable names distinct, "
                "domains duplicate-free in the theorems. 'Original unchanged' is checked on the "
                "real object only."),
    technique="Coq proof over executable Gallina model + differential correspondence run",
    design_ref="DESIGN.md §5 C12",
)

INF = float("inf")


# ------------------------------------------------------------------ costs
def tok(v):
    """canonical JSON token of a number returned by the implementation"""
    if hasattr(v, "item") and not isinstance(v, (int, float)):
        v = v.item()
    if isinstance(v, bool):
        return int(v)
    if isinstance(v, int):
        return v
    if isinstance(v, float):
        if math.isnan(v):
            return "nan"
        if v == INF:
            return "inf"
        if v == -INF:
            return "-inf"
        if v.is_integer():
            return int(v)
        return {"f": repr(v)}
    if v is None:
        return {"none": 1}
    return {"other": repr(v)}


def untok(t, as_float=False):
    """python number for a token of a generated case"""
    if isinstance(t, dict):
        return float(t["f"])
    if t == "inf":
        return INF
    if t == "-inf":
        return -INF
    if t == "nan":
        return float("nan")
    return float(t) if as_float else int(t)


def expressible(t):
    return not isinstance(t, dict)


def ec(t):
    if isinstance(t, dict):
        raise ValueError("cost %r is not expressible as ecost" % (t,))
    if t == "inf":
        return "PInf"
    if t == "-inf":
        return "NInf"
    if t == "nan":
        return "NaN"
    return "(Fin %s)" % q.z(t)


def same_num(a, b):
    """exact equality of two python numbers, nan == nan"""
    if isinstance(a, float) and math.isnan(a):
        return isinstance(b, float) and math.isnan(b)
    return a == b


def tok_num(t):
    return untok(t, as_float=False)


# ------------------------------------------------------------------ generators
def gen_var(rng, vid, with_cost=0.0, dup=False):
    k = rng.choice([1, 2, 2, 3, 3])
    dom = rng.sample(range(0, 8), k)
    if dup and k >= 2:
        dom[-1] = dom[0]
    v = dict(id=vid, dom=dom, kind="plain", costs=[])
    if rng.random() < with_cost:
        v["kind"] = rng.choice(["dict", "func"])
        vals = dom if v["kind"] == "func" else [d for d in dom if rng.random() < 0.7]
        pal = palette(rng)
        v["costs"] = [[d, pal()] for d in vals]
    return v


def palette(rng, allow_inf=True):
    """returns a drawing function for table entries of one relation"""
    style = rng.choice(["small", "small", "small", "tie", "b31", "big", "mix", "inf", "inf2"])
    if not allow_inf and style in ("inf", "inf2"):
        style = "mix"

    def draw():
        if style == "small":
            return rng.randint(-5, 20)
        if style == "tie":
            return rng.choice([0, 1, 1, 2])
        if style == "b31":
            return rng.choice([2 ** 31 - 1, 2 ** 31, 2 ** 31 + 1, -2 ** 31, -2 ** 31 - 1, 2 ** 31 - 2,
                               2 ** 32 + 5, 3 * 10 ** 9, -3 * 10 ** 9, 7])
        if style == "big":
            return rng.choice([1, -1]) * (2 ** 40 + rng.randint(0, 3))
        if style == "mix":
            return rng.choice([rng.randint(-5, 20), 2 ** 31 + rng.randint(-2, 2), 2 ** 40 + rng.randint(0, 5),
                               -2 ** 33 - rng.randint(0, 5)])
        if style == "inf":
            return rng.choice(["inf", "inf", 2 ** 35, rng.randint(-5, 20)])
        return rng.choice(["inf", "-inf", rng.randint(-5, 20), rng.randint(-5, 20)])
    return draw


# explicit numpy integer dtypes (what np.array(..., np.int8) tables of the unit tests use)
NARROW = {"int8": (-128, 127), "uint8": (0, 255), "int16": (-2 ** 15, 2 ** 15 - 1),
          "int32": (-2 ** 31, 2 ** 31 - 1), "int64": (-2 ** 63, 2 ** 63 - 1)}


def edge_table(rng, dtype, n):
    """entries that fit the integer dtype but whose pairwise sums leave its range (the code adds
    Python numbers, so nothing may wrap around)"""
    lo, hi = NARROW[dtype]
    out = []
    for _ in range(n):
        k = rng.random()
        if dtype == "int64":
            big = 2 ** 62 + rng.randint(-1000, 1000)
        else:
            big = hi - rng.randint(0, hi // 3)
        if k < 0.45:
            out.append(big)
        elif k < 0.75 and lo < 0:
            out.append(-big)
        else:
            out.append(rng.randint(0, 20))
    return out
# values a narrow table must be widened for
WIDE_VALUES = [{"f": "0.1"}, {"f": "1234.567"}, {"f": "2.5"}, {"f": "-0.25"}, {"f": "65504.06"},
               16777217, -2500000000, int(1e300), 300, -5, 70000, 2 ** 40, "inf", "-inf"]


def gen_rel(rng, variables, arity=None, allow_inf=True, narrow=False):
    if arity is None:
        arity = rng.choice([0, 1, 1, 2, 2, 2, 3, 3, 4])
    arity = min(arity, len(variables))
    dims = rng.sample(variables, arity)
    n = 1
    for v in dims:
        n *= len(v["dom"])
    draw = palette(rng, allow_inf)
    table = [draw() for _ in range(n)]
    dtype = rng.choice(["int", "int", "float"])
    if narrow:
        dtype = rng.choice(list(NARROW))
        lo, hi = NARROW[dtype]
        table = [rng.randint(max(lo, -1000), min(hi, 1000)) for _ in range(n)]
    return dict(dims=[v["id"] for v in dims], table=table, dtype=dtype)


def rel_dims(case, r):
    byid = {v["id"]: v for v in case["vars"]}
    return [byid[i] for i in r["dims"]]


def gen(rng, n, tier):
    cases = []
    kinds = ["setlist", "setdict", "getlist", "getdict", "slice", "gen", "join", "join", "join",
             "proj", "proj", "setlist", "setdict"]
    for i in range(n):
        kind = rng.choice(kinds)
        dup = rng.random() < 0.03
        nv = rng.randint(1, 5)
        vs = [gen_var(rng, j, dup=dup, with_cost=0.5 if kind in ("join", "proj") and not dup else 0.0)
              for j in range(nv)]
        for v in vs:        # C12 tables are about relation values: finite own costs, full cost dicts
            if v["kind"] == "dict":
                v["costs"] = [[d, rng.randint(-9, 30)] for d in v["dom"]]
            elif v["kind"] == "func":
                v["costs"] = [[d, rng.randint(-9, 30)] for d in v["dom"]]
        c = dict(kind=kind, vars=vs, dup=dup)
        if kind in ("join", "proj"):
            # the second operand / the projected variable use equal-but-distinct Variable objects
            c["copy"] = rng.choice([None, "fresh", "perm", "perm", "repr"])
        bad = rng.random() < 0.15
        c["bad"] = bad
        if kind in ("setlist", "setdict", "getlist", "getdict", "slice"):
            r = gen_rel(rng, vs, narrow=kind.startswith("set") and rng.random() < 0.35)
            c["rel"] = r
            dims = rel_dims(c, r)
            asg = [[v["id"], rng.choice(v["dom"])] for v in dims]
            if kind == "slice":
                asg = [a for a in asg if rng.random() < 0.5]
            if kind in ("setdict", "getdict", "slice"):
                rng.shuffle(asg)
            if bad:
                m = rng.choice(["value", "missing", "extra", "extra_unknown"])
                if m == "value" and asg:
                    asg[rng.randrange(len(asg))][1] = 9
                elif m == "missing" and asg:
                    del asg[rng.randrange(len(asg))]
                elif m == "extra":
                    others = [v for v in vs if v["id"] not in r["dims"]]
                    if kind in ("setlist", "getlist"):
                        asg.append([99, rng.randint(0, 7)])
                    elif others:
                        o = rng.choice(others)
                        asg.insert(rng.randint(0, len(asg)), [o["id"], rng.choice(o["dom"])])
                else:
                    asg.append([77, 0])
            c["asg"] = asg
            if kind.startswith("set"):
                pal = palette(rng)
                val = pal()
                if rng.random() < 0.08:
                    val = {"f": repr(rng.choice([2.5, -0.25, 1e-3, 7.75]))}
                c["value"] = val
                c["value_float"] = rng.random() < 0.4
                if r["dtype"] in NARROW:
                    c["value"] = rng.choice(WIDE_VALUES)
                    c["value_float"] = isinstance(c["value"], int) and rng.random() < 0.5
        elif kind == "gen":
            k = rng.randint(0, min(4, nv))
            c["dims"] = [v["id"] for v in rng.sample(vs, k)]
        elif kind == "join":
            c["u1"] = gen_rel(rng, vs, arity=rng.choice([0, 1, 1, 2, 2, 3]))
            c["u2"] = gen_rel(rng, vs, arity=rng.choice([0, 1, 1, 2, 2, 3]))
            if rng.random() < 0.1:
                draw = palette(rng)
                c["u2"] = dict(c["u1"], table=[draw() for _ in c["u1"]["table"]])
            elif rng.random() < 0.2 and nv >= 2:
                # same scope in another order (rotations and other permutations, mostly 3 variables)
                c["u1"] = gen_rel(rng, vs, arity=rng.choice([2, 3, 3, 3]))
                d1 = list(c["u1"]["dims"])
                k = rng.randrange(1, len(d1)) if len(d1) > 1 else 0
                d2 = d1[k:] + d1[:k] if rng.random() < 0.7 else rng.sample(d1, len(d1))
                draw = palette(rng)
                c["u2"] = dict(dims=d2, table=[draw() for _ in c["u1"]["table"]], dtype=c["u1"]["dtype"])
            # keep the joined table small
            while _joined_size(c) > 81:
                c["u2"] = gen_rel(rng, vs, arity=1)
            if rng.random() < 0.25:     # fixed-width integer tables whose sums leave the dtype
                dt = rng.choice(["int8", "int8", "int16", "int32"])
                for key in ("u1", "u2"):
                    c[key] = dict(c[key], dtype=dt, table=edge_table(rng, dt, len(c[key]["table"])))
        else:  # proj
            r = gen_rel(rng, vs, arity=rng.choice([1, 1, 2, 2, 3, 3, 4]))
            c["rel"] = r
            c["mode"] = rng.choice(["min", "max"])
            if bad:
                others = [v["id"] for v in vs if v["id"] not in r["dims"]]
                c["x"] = rng.choice(others) if others else 55
                if c["x"] == 55:
                    c["vars"] = vs + [dict(id=55, dom=[0, 1], kind="plain", costs=[])]
            else:
                c["x"] = rng.choice(r["dims"]) if r["dims"] else vs[0]["id"]
        cases.append(c)
    return cases


def _joined_size(c):
    ids = list(c["u1"]["dims"]) + [d for d in c["u2"]["dims"] if d not in c["u1"]["dims"]]
    byid = {v["id"]: v for v in c["vars"]}
    n = 1
    for i in ids:
        n *= len(byid[i]["dom"])
    return n


# ------------------------------------------------------------------ building real objects
def vname(i):
    return "v%02d" % i


def vid(name):
    return int(name[1:])


def build_vars(case, copy=None):
    """copy = None: the variables of the case.  Otherwise EQUAL but distinct objects: "fresh" =
    built again the same way, "perm" = cost dicts filled in reverse insertion order, "repr" =
    from_repr(simple_repr(v)) (plain and cost-dict variables)"""
    from pydcop.dcop.objects import Variable, VariableWithCostDict, VariableWithCostFunc
    out = {}
    for v in case["vars"]:
        name = vname(v["id"])
        if v["kind"] == "dict":
            costs = list(v["costs"])
            if copy == "perm":
                costs.reverse()
            out[v["id"]] = VariableWithCostDict(name, list(v["dom"]), {d: untok(c) for d, c in costs})
        elif v["kind"] == "func":
            table = {d: untok(c) for d, c in v["costs"]}
            out[v["id"]] = VariableWithCostFunc(name, list(v["dom"]), (lambda t: (lambda val: t[val]))(table))
        else:
            out[v["id"]] = Variable(name, list(v["dom"]))
        if copy == "repr" and v["kind"] in ("plain", "dict"):
            from pydcop.utils.simple_repr import simple_repr, from_repr
            out[v["id"]] = from_repr(simple_repr(out[v["id"]]))
    return out


def build_rel(case, r, objs, name=None):
    import numpy as np
    from pydcop.dcop.relations import NAryMatrixRelation
    dims = [objs[i] for i in r["dims"]]
    shape = tuple(len(v.domain) for v in dims)
    as_float = r["dtype"] == "float"
    flat = [untok(t, as_float) for t in r["table"]]
    if r["dtype"] in NARROW:
        arr = np.array(flat, dtype=getattr(np, r["dtype"])).reshape(shape)
    else:
        arr = np.array(flat).reshape(shape)
    return NAryMatrixRelation(dims, arr, name=name)


def obs_rel(rel):
    return dict(dims=[vid(v.name) for v in rel.dimensions],
                table=[tok(x) for x in rel._m.flatten().tolist()],
                shape=list(rel._m.shape))


ERRS = {"ValueError": "ErrValue", "KeyError": "ErrKey", "IndexError": "ErrIndex",
        "AttributeError": "ErrAttr"}


def err_obs(e):
    return {"error": type(e).__name__}


def asg_dict(asg):
    return {vname(i): v for i, v in asg}


def run_impl(c):
    from pydcop.dcop import relations as R
    objs = build_vars(c)
    k = c["kind"]
    if k == "gen":
        out = []
        for a in R.generate_assignment_as_dict([objs[i] for i in c["dims"]]):
            out.append([[vid(n), v] for n, v in a.items()])
        return dict(asgs=out)
    objs2 = build_vars(c, c["copy"]) if c.get("copy") else objs
    if k == "join":
        u1, u2 = build_rel(c, c["u1"], objs, "u1"), build_rel(c, c["u2"], objs2, "u2")
        try:
            j = R.join(u1, u2)
            res = dict(rel=obs_rel(j))
        except Exception as e:
            return err_obs(e)
        shared = [i for i in c["u1"]["dims"] if i in c["u2"]["dims"]]
        if shared:      # DPOP's next step: project a shared variable out of the join
            try:
                res["proj_x"] = shared[0]
                res["proj"] = obs_rel(R.projection(j, objs2[shared[0]], "min"))
            except Exception as e:
                res["proj"] = err_obs(e)
        return res
    r = build_rel(c, c["rel"], objs, "r")
    before = (str(r._m.dtype), r._m.tolist())
    try:
        if k == "proj":
            res = dict(rel=obs_rel(R.projection(r, objs2[c["x"]], c["mode"])))
        elif k == "setlist":
            val = untok(c["value"], c["value_float"])
            new = r.set_value_for_assignment([v for _, v in c["asg"]], val)
            res = dict(rel=obs_rel(new), readback=tok(_read(new, c)))
        elif k == "setdict":
            val = untok(c["value"], c["value_float"])
            new = r.set_value_for_assignment(asg_dict(c["asg"]), val)
            res = dict(rel=obs_rel(new), readback=tok(_read(new, c)))
            # the list form on the same assignment
            try:
                byname = asg_dict(c["asg"])
                l = r.set_value_for_assignment([byname[v.name] for v in r.dimensions], val)
                res["list_form"] = obs_rel(l)
            except Exception as e:
                res["list_form"] = err_obs(e)
        elif k == "getlist":
            res = dict(value=tok(r.get_value_for_assignment([v for _, v in c["asg"]])))
        elif k == "getdict":
            res = dict(value=tok(r.get_value_for_assignment(asg_dict(c["asg"]))))
        elif k == "slice":
            res = dict(rel=obs_rel(r.slice(asg_dict(c["asg"]))))
        else:
            raise RuntimeError("unknown kind " + k)
    except Exception as e:
        res = err_obs(e)
    after = (str(r._m.dtype), r._m.tolist())
    res["orig_same"] = (before[0] == after[0]) and _same_nested(before[1], after[1])
    return res


def _read(new, c):
    byname = asg_dict(c["asg"])
    try:
        return new.get_value_for_assignment({v.name: byname[v.name] for v in new.dimensions})
    except Exception as e:
        return None


def _same_nested(a, b):
    if isinstance(a, list):
        return isinstance(b, list) and len(a) == len(b) and all(_same_nested(x, y) for x, y in zip(a, b))
    return same_num(a, b) and type(a) == type(b)


# ------------------------------------------------------------------ oracle
def table_fn(case, r):
    """independent reading of a generated relation: dict assignment -> python number
    (exact: ints stay ints)"""
    dims = rel_dims(case, r)
    doms = [v["dom"] for v in dims]
    cells = {}
    for pos, combo in enumerate(itertools.product(*[range(len(d)) for d in doms])):
        cells[combo] = tok_num(r["table"][pos])

    def f(asg):
        return cells[tuple(doms[i].index(asg[v["id"]]) for i, v in enumerate(dims))]
    return f, dims


def obs_fn(case, o):
    """reading of an observed relation {dims, table, shape}"""
    byid = {v["id"]: v for v in case["vars"]}
    dims = [byid[i] for i in o["dims"]]
    doms = [v["dom"] for v in dims]
    if list(o["shape"]) != [len(d) for d in doms]:
        return None, dims
    cells = {}
    for pos, combo in enumerate(itertools.product(*[range(len(d)) for d in doms])):
        cells[combo] = tok_num(o["table"][pos])

    def f(asg):
        return cells[tuple(doms[i].index(asg[v["id"]]) for i, v in enumerate(dims))]
    return f, dims


def all_asg(dims):
    for combo in itertools.product(*[v["dom"] for v in dims]):
        yield {v["id"]: x for v, x in zip(dims, combo)}


def valid_full(case, r, asg, listform):
    dims = rel_dims(case, r)
    if listform:
        return len(asg) == len(dims) and all(a[1] in v["dom"] for a, v in zip(asg, dims))
    d = dict((a, b) for a, b in asg)
    if len(d) != len(asg):
        return False
    return set(d) == {v["id"] for v in dims} and all(d[v["id"]] in v["dom"] for v in dims)


def oracle(c, o):
    if c.get("dup"):
        return None     # duplicate domain values: outside the property, model comparison only
    k = c["kind"]
    if k == "gen":
        byid = {v["id"]: v for v in c["vars"]}
        dims = [byid[i] for i in c["dims"]]
        exp = sorted(sorted(a.items()) for a in all_asg(dims))
        got = sorted(sorted((a, b) for a, b in asg) for asg in o["asgs"])
        if exp != got:
            return "generate_assignment_as_dict does not enumerate every assignment exactly once"
        return None
    if k == "join":
        if "error" in o:
            return "join raised " + o["error"]
        f1, d1 = table_fn(c, c["u1"])
        f2, d2 = table_fn(c, c["u2"])
        exp_dims = [v["id"] for v in d1] + [v["id"] for v in d2 if v["id"] not in c["u1"]["dims"]]
        if o["rel"]["dims"] != exp_dims:
            return "join scope %r, expected %r (union by name, no duplicate, u1's variables first)" % (
                o["rel"]["dims"], exp_dims)
        fo, do = obs_fn(c, o["rel"])
        if fo is None:
            return "join table shape does not match its scope"
        for a in all_asg(do):
            e = f1(a) + f2(a)
            if not same_num(fo(a), e):
                return "join(%r) = %r, u1+u2 = %r" % (a, fo(a), e)
        if "proj" in o:
            px = o["proj_x"]
            if "error" in o["proj"]:
                return "projection of the join on shared variable %r raised %s" % (px, o["proj"]["error"])
            want = [i for i in exp_dims if i != px]
            if o["proj"]["dims"] != want:
                return "projection of the join on %r has scope %r, expected %r" % (px, o["proj"]["dims"], want)
            fp, dp = obs_fn(c, o["proj"])
            if fp is None:
                return "projection of the join: table shape does not match its scope"
            xv = [v for v in c["vars"] if v["id"] == px][0]
            for a in all_asg(dp):
                vals = [f1({**a, px: d}) + f2({**a, px: d}) for d in xv["dom"]]
                if any(isinstance(v, float) and math.isnan(v) for v in vals):
                    continue
                if not same_num(fp(a), min(vals)):
                    return "projection(min) of the join at %r = %r, optimum = %r" % (a, fp(a), min(vals))
        return None
    if k == "proj":
        f, dims = table_fn(c, c["rel"])
        if c["x"] not in c["rel"]["dims"]:
            return None if "error" in o else "projection on a variable outside the scope did not raise"
        if "error" in o:
            return "projection raised " + o["error"]
        if not o.get("orig_same"):
            return "projection modified its argument"
        exp_dims = [i for i in c["rel"]["dims"] if i != c["x"]]
        if o["rel"]["dims"] != exp_dims:
            return "projection scope %r, expected %r" % (o["rel"]["dims"], exp_dims)
        fo, do = obs_fn(c, o["rel"])
        if fo is None:
            return "projection table shape does not match its scope"
        xv = [v for v in dims if v["id"] == c["x"]][0]
        for a in all_asg(do):
            vals = [f({**a, c["x"]: d}) for d in xv["dom"]]
            if any(isinstance(v, float) and math.isnan(v) for v in vals):
                continue
            e = min(vals) if c["mode"] == "min" else max(vals)
            if not same_num(fo(a), e):
                return "projection(%s)(%r) = %r, optimum over x = %r" % (c["mode"], a, fo(a), e)
        return None
    r = c["rel"]
    f, dims = table_fn(c, r)
    if k in ("setlist", "setdict"):
        if not o.get("orig_same"):
            return "set_value_for_assignment modified the original relation"
        ok = valid_full(c, r, c["asg"], k == "setlist")
        if not ok:
            return None     # malformed call: no statement in the property (model comparison only)
        if "error" in o:
            return "set_value_for_assignment raised " + o["error"]
        if o["rel"]["dims"] != r["dims"]:
            return "set changed the scope"
        fo, do = obs_fn(c, o["rel"])
        if fo is None:
            return "set changed the shape"
        target = {v["id"]: a[1] for v, a in zip(dims, c["asg"])} if k == "setlist" else dict((a, b) for a, b in c["asg"])
        val = untok(c["value"], c["value_float"])
        for a in all_asg(dims):
            if a == target:
                if not same_num(fo(a), val):
                    return "after set(%r, %r) the relation holds %r there" % (target, val, fo(a))
            elif not same_num(fo(a), f(a)):
                return "set(%r) changed another cell %r: %r -> %r" % (target, a, f(a), fo(a))
        if k == "setdict" and o.get("list_form") != o["rel"]:
            return "dict form and list form of set_value_for_assignment disagree"
        return None
    if k in ("getlist", "getdict"):
        ok = valid_full(c, r, c["asg"], k == "getlist")
        if not ok:
            return None
        if "error" in o:
            return "get_value_for_assignment raised " + o["error"]
        a = {v["id"]: x[1] for v, x in zip(dims, c["asg"])} if k == "getlist" else dict((x, y) for x, y in c["asg"])
        if not same_num(tok_num(o["value"]), f(a)):
            return "get(%r) = %r, table holds %r" % (a, o["value"], f(a))
        return None
    if k == "slice":
        d = dict((a, b) for a, b in c["asg"])
        ok = len(d) == len(c["asg"]) and set(d) <= set(r["dims"]) and all(
            d[v["id"]] in v["dom"] for v in dims if v["id"] in d)
        if not ok:
            return None
        if "error" in o:
            return "slice raised " + o["error"]
        exp_dims = [i for i in r["dims"] if i not in d]
        if o["rel"]["dims"] != exp_dims:
            return "slice scope %r, expected %r" % (o["rel"]["dims"], exp_dims)
        fo, do = obs_fn(c, o["rel"])
        if fo is None:
            return "slice shape does not match its scope"
        for a in all_asg(do):
            if not same_num(fo(a), f({**a, **d})):
                return "slice(%r)(%r) = %r, relation holds %r" % (d, a, fo(a), f({**a, **d}))
        return None
    return "unknown kind"


# ------------------------------------------------------------------ Gallina
def g_var(v):
    return "(mkVar %s %s %s)" % (q.z(v["id"]), q.zlist(v["dom"]),
                                 q.lst([q.pair(q.z(d), ec(t)) for d, t in v["costs"]]))


def g_rel(case, r):
    return "(mkRel %s %s)" % (q.lst([g_var(v) for v in rel_dims(case, r)]), q.lst([ec(t) for t in r["table"]]))


def g_asg(asg):
    return q.lst([q.pair(q.z(a), q.z(b)) for a, b in asg])


def g_mode(m):
    return "Min" if m == "min" else "Max"


def g_res(o, key, f):
    if "error" in o:
        if o["error"] not in ERRS:
            raise ValueError("unexpected exception %s" % o["error"])
        return "(Err %s)" % ERRS[o["error"]]
    return "(Ok %s)" % f(o[key])


def g_obsrel(o):
    return q.pair(q.zlist(o["dims"]), q.lst([ec(t) for t in o["table"]]))


def case_expressible(c):
    for key in ("rel", "u1", "u2"):
        if key in c and not all(expressible(t) for t in c[key]["table"]):
            return False
    if "value" in c and not expressible(c["value"]):
        return False
    return True


def coq_case(c, o):
    if not case_expressible(c):
        return None
    k = c["kind"]
    if k == "gen":
        byid = {v["id"]: v for v in c["vars"]}
        return "CGen %s %s" % (q.lst([g_var(byid[i]) for i in c["dims"]]), q.lst([g_asg(a) for a in o["asgs"]]))
    if k == "join":
        return "CJoin %s %s %s" % (g_rel(c, c["u1"]), g_rel(c, c["u2"]), g_res(o, "rel", g_obsrel))
    byid = {v["id"]: v for v in c["vars"]}
    if k == "proj":
        return "CProj %s %s %s %s" % (g_rel(c, c["rel"]), g_var(byid[c["x"]]), g_mode(c["mode"]),
                                      g_res(o, "rel", g_obsrel))
    r = g_rel(c, c["rel"])
    if k == "setlist":
        return "CSetList %s %s %s %s" % (r, q.zlist([v for _, v in c["asg"]]), ec(c["value"]), g_res(o, "rel", g_obsrel))
    if k == "setdict":
        return "CSetDict %s %s %s %s" % (r, g_asg(c["asg"]), ec(c["value"]), g_res(o, "rel", g_obsrel))
    if k == "getlist":
        return "CGetList %s %s %s" % (r, q.zlist([v for _, v in c["asg"]]), g_res(o, "value", ec))
    if k == "getdict":
        return "CGetDict %s %s %s" % (r, g_asg(c["asg"]), g_res(o, "value", ec))
    if k == "slice":
        return "CSlice %s %s %s" % (r, g_asg(c["asg"]), g_res(o, "rel", g_obsrel))
    raise ValueError("unknown kind")


def nontrivial(c, o):
    for key in ("rel", "u1"):
        if key in c:
            return len(c[key]["dims"]) >= 1 and len(set(map(str, c[key]["table"]))) > 1
    return len(c.get("dims", [])) >= 1


def histogram(cases, obs):
    h = {}
    for c, o in zip(cases, obs):
        k = c["kind"] + ("/bad" if c.get("bad") and c["kind"] != "join" and c["kind"] != "gen" else "")
        h[k] = h.get(k, 0) + 1
        if isinstance(o, dict) and "error" in o:
            h["raised " + o["error"]] = h.get("raised " + o["error"], 0) + 1
        if not case_expressible(c):
            h["oracle-only (non-integer float)"] = h.get("oracle-only (non-integer float)", 0) + 1
    return h


def classify(c, o, msg):
    return None


def shrink_candidates(c):
    for key in ("rel", "u1", "u2"):
        if key in c:
            r = c[key]
            for i, t in enumerate(r["table"]):
                if t != 0:
                    d = dict(c)
                    d[key] = dict(r, table=r["table"][:i] + [0] + r["table"][i + 1:])
                    yield d
