"""C09 -- DBA declares termination only on a satisfying assignment."""
from harness import coqio as q

ID = "C09"
COQ_REQUIRE = ["Net", "M_Dba"]
COQ_CASE_TYPE = "M_Dba.case"
COQ_CHECK = "M_Dba.check_case"
OBLIGATIONS = []  # filled below
N_QUICK, N_THOROUGH = 600, 6000
PARALLEL = 8
SHARD = 20
RULE = ("random CSPs of 1-6 variables (domains of 1-3 integer values): graph colouring, random hard binary / "
        "ternary / unary tables given as NAryMatrixRelation or expression constraints, costs in "
        "{0, infinity, infinity+3, infinity-1}; 85% connected; infinity 10000 (75%) or 1..3 / 0 (weights then "
        "overtake infinity and reach the best_eval cap and the random.choice([]) IndexError); max_distance from "
        "diameter to diameter+2 (80%) or below the diameter; the real DbaComputation objects run under a seeded "
        "per-channel-FIFO schedule (6 policies, random start times) until quiescence, an exception or the step "
        "budget; the last max(4, n/40) cases of a run are unsatisfiable 2-colourings (odd cycle + tail, max_distance = "
        "diameter, 450 steps: nobody may ever finish); harness/corpus/C09.json holds 7 fixed cases (same-name problem "
        "pair with opposite tables, infinity=1000, triangle-with-tail). non-trivial = at least one complete DBA cycle; "
        "distinct = distinct case JSON")
MODELLED = ("DbaComputation (all handlers, weights, counter, postponed-message replay, end flood, IndexError path, "
            "the stop-then-back-to-ok-mode quirk) is modelled as a Net.v proto; every hook call, the final state of "
            "every computation and every in-flight message is compared with the model replaying the same schedule, "
            "and the model's synchronous-round semantics is compared with the per-cycle values (now also a theorem: "
            "dba_refines_rounds). Theorems about the model: safety at EVERY finished() of every schedule "
            "(dba_finish_safe_every / dba_finish_safe_all), liveness of the dba_end flood at quiescence (dba_end_flood), "
            "shape of the finished() calls of one computation (dba_finished_count_partial). Only measured on the "
            "real runs (histogram): at most two finished() calls per computation, flood complete at quiescence.")
META = dict(
    level_text=("Proof (Coq). Proved for all problems (any number of variables, constraints of any arity, any "
                "domains, weights, random draws) and for EVERY asynchronous per-channel-FIFO schedule of the network "
                "model (any interleaving of start() calls and deliveries, pre-start buffering, IndexError and "
                "empty-domain paths included): dba_finish_safe_every - if the problem is well formed, infinity > 0 "
                "and any two variables that occur in constraints are within max_distance hops, then right after "
                "ANY step in which ANY computation calls finished() (first or later call, by stop_condition or "
                "because a dba_end arrived) the assignment held by ALL computations violates no constraint; "
                "dba_finish_safe_all - from the first finished() on the assignment never changes again, whatever "
                "the rest of the schedule does.  It rests on dba_refines_rounds (barrier invariant M_Dba2.Inv up to "
                "the first finished(): every started computation is in the state, and every message in a channel / "
                "pre-start buffer / postponed list is the message, that the synchronous rounds prescribe), on the "
                "termination-counter radius lemma, and on the frozen-assignment invariant P_Dba3.Fz that is "
                "established at the first finished() and preserved by every step (dba_frozen_step) although the "
                "stopped computation skips one ok? broadcast and returns to 'ok' mode (quirk kept in the model).  "
                "Also proved: dba_end_flood (in every quiescent configuration with a finished computation every "
                "connected computation has finished and is in mode 'finished'), dba_finished_kinds / "
                "dba_end_is_last / dba_finished_count_partial (the finished() calls of a computation are "
                "stop_condition firings followed by at most one dba_end call, after which it is silent).  NOT a "
                "theorem: stop_condition fires at most once per computation (so 'at most two finished() calls' "
                "is measured by the histogram of the correspondence run, not proved)."),
    level_note=("Trusted: Coq kernel/vm_compute, M_Dba.v + Net.v as a rendering of dba.py and of "
                "MessagePassingComputation.start/on_message, the thread-free netdriver, the harness. Domains are "
                "non-empty in generated cases; integer costs."),
    technique="Coq barrier-invariant (round refinement) proof over an executable network model, all schedules + synchronous abstraction + schedule-replay correspondence",
    design_ref="DESIGN.md §5 C09",
)
OBLIGATIONS = ["dba_sync_finish_safe_partial", "dba_sync_safe_forever", "dba_counter_radius", "dba_sinit_is_initial",
               "dba_first_finish_by_counter", "dba_stop_needs_counter", "dba_end_after_finish", "dba_no_nested_replay",
               "dba_refines_rounds", "dba_phase_gap", "dba_delivery_expected", "dba_postponed_next_phase",
               "dba_finish_safe", "dba_finish_safe_any_run",
               "dba_frozen_step", "dba_first_finish_frozen", "dba_finish_safe_all", "dba_finish_safe_every",
               "dba_flood_invariant", "dba_end_flood", "dba_finished_kinds", "dba_end_is_last",
               "dba_finished_count_partial"]


def _name(i):
    return "v%02d" % i


def _idx(name):
    return int(name[1:])


# ------------------------------------------------------------------ generator
def _components(n, edges):
    comp = list(range(n))

    def find(x):
        while comp[x] != x:
            x = comp[x]
        return x
    for a, b in edges:
        ra, rb = find(a), find(b)
        if ra != rb:
            comp[ra] = rb
    return len({find(i) for i in range(n)})


def _diameter(n, edges):
    """max finite eccentricity; None if disconnected"""
    adj = {i: set() for i in range(n)}
    for a, b in edges:
        adj[a].add(b)
        adj[b].add(a)
    best = 0
    for s in range(n):
        dist = {s: 0}
        fr = [s]
        while fr:
            nx = []
            for x in fr:
                for y in adj[x]:
                    if y not in dist:
                        dist[y] = dist[x] + 1
                        nx.append(y)
            fr = nx
        if len(dist) < n:
            return None
        best = max(best, max(dist.values()))
    return best


def _scope_edges(constraints):
    e = set()
    for c in constraints:
        sc = sorted(set(c["scope"]))
        for i in range(len(sc)):
            for j in range(i + 1, len(sc)):
                e.add((sc[i], sc[j]))
    return sorted(e)


def _gen_unsat_cycle(rng, tier):
    """structured stream (seeded change C09-r3m3): an UNSATISFIABLE 2-colouring - an odd cycle with a tail -
    with max_distance = diameter >= 2 and a long run.  No computation may ever call finished(); a termination
    counter that is not reset by a far-away violation (e.g. the min-merge skipped for improve messages that were
    postponed because the sender is one phase ahead) makes a computation at the end of the tail finish."""
    inf = 10000
    if rng.random() < 0.7:
        cyc, tail = 3, rng.randint(1, 3)
    else:
        cyc, tail = 5, rng.randint(0, 1)
    nv = cyc + tail
    lab = list(range(nv))
    rng.shuffle(lab)
    pairs = [(lab[i], lab[(i + 1) % cyc]) for i in range(cyc)]
    prev = lab[rng.randrange(cyc)]
    for t in range(tail):
        pairs.append((prev, lab[cyc + t]))
        prev = lab[cyc + t]
    pool = rng.choice([[0, 1], [0, 1], [1, 2], [5, 3]])
    constraints = []
    for (a, b) in pairs:
        a, b = (a, b) if rng.random() < 0.5 else (b, a)
        constraints.append(dict(scope=[a, b], form=rng.choice(["matrix", "neq", "neq"]),
                                table=[[[x, x], inf] for x in pool]))
    rng.shuffle(constraints)
    diam = _diameter(nv, _scope_edges(constraints))
    return dict(nvars=nv, doms={str(i): list(pool) for i in range(nv)}, constraints=constraints, infinity=inf,
                maxd=diam, diameter=diam, seed=rng.randrange(10**9),
                steps=450 if tier == "quick" else rng.choice([600, 900]))


def gen(rng, n, tier):
    import itertools
    cases = []
    n_struct = max(4, n // 40) if n >= 40 else 0     # the LAST n_struct cases come from the structured stream
    for _ in range(n - n_struct):
        nv = rng.choice([1, 2, 2, 3, 3, 3, 4, 4, 4, 5, 5, 6])
        r = rng.random()
        inf = 10000 if r < 0.75 else rng.choice([1, 1, 2, 2, 3, 0])
        pool = rng.choice([[0, 1, 2], [0, 1, 2], [0, 1], [1, 2, 3], [5, 3, 9]])
        doms = {}
        same_dom = rng.random() < 0.6
        for i in range(nv):
            if same_dom:
                doms[str(i)] = list(pool)
            else:
                k = rng.randint(1, len(pool))
                doms[str(i)] = list(pool[:k]) if rng.random() < 0.7 else rng.sample(pool, k)
        kind = rng.choice(["colour", "colour", "tables", "tables", "mixed"])
        # the constraint graph: a spanning tree (connected) or a random edge set
        pairs = []
        connected = rng.random() < 0.85
        if connected:
            order = list(range(nv))
            rng.shuffle(order)
            for k in range(1, nv):
                pairs.append((order[rng.randrange(k)], order[k]))
        extra_p = rng.choice([0.0, 0.15, 0.3, 0.6])
        for i in range(nv):
            for j in range(i + 1, nv):
                if rng.random() < extra_p:
                    pairs.append((i, j))
        constraints = []

        def viol_cost():
            x = rng.random()
            return inf if x < 0.8 else inf + 3 if x < 0.9 else inf - 1

        for (a, b) in pairs:
            a, b = (a, b) if rng.random() < 0.8 else (b, a)
            if a == b:
                continue
            ck = kind if kind != "mixed" else rng.choice(["colour", "tables"])
            if ck == "colour":
                table = [[[x, y], inf] for x in doms[str(a)] for y in doms[str(b)] if x == y]
                constraints.append(dict(scope=[a, b], form=rng.choice(["matrix", "neq"]), table=table))
            else:
                dens = rng.choice([0.2, 0.4, 0.6, 0.9])
                table = [[[x, y], viol_cost()] for x in doms[str(a)] for y in doms[str(b)] if rng.random() < dens]
                constraints.append(dict(scope=[a, b], form=rng.choice(["matrix", "matrix", "dict"]), table=table))
        # a few unary / ternary constraints
        for i in range(nv):
            if rng.random() < 0.15:
                table = [[[x], viol_cost()] for x in doms[str(i)] if rng.random() < 0.4]
                constraints.append(dict(scope=[i], form="matrix", table=table))
        if nv >= 3 and rng.random() < 0.25:
            sc = rng.sample(range(nv), 3)
            table = [[list(t), viol_cost()] for t in itertools.product(*[doms[str(v)] for v in sc])
                     if rng.random() < 0.25]
            constraints.append(dict(scope=sc, form=rng.choice(["matrix", "dict"]), table=table))
        # drop zero-cost entries (the table default)
        for c in constraints:
            c["table"] = [e for e in c["table"] if e[1] != 0]
        rng.shuffle(constraints)
        edges = _scope_edges(constraints)
        diam = _diameter(nv, edges)
        if diam is None:
            maxd = rng.randint(1, 4)
        elif rng.random() < 0.8:
            maxd = max(1, diam) + rng.randint(0, 2)
        else:
            maxd = rng.randint(0, max(1, diam))
        cases.append(dict(nvars=nv, doms=doms, constraints=constraints, infinity=inf, maxd=maxd,
                          diameter=diam, seed=rng.randrange(10**9),
                          steps=rng.choice([60, 150, 300, 300, 450]) if tier == "quick" else rng.choice([150, 300, 600, 900])))
    for _ in range(n_struct):
        cases.append(_gen_unsat_cycle(rng, tier))
    return cases


# ------------------------------------------------------------------ implementation driver
class _Shim:
    """stands for the `random` module inside pydcop.algorithms.dba: every draw comes from the case PRNG
    and is logged per executing node"""

    def __init__(self, rng):
        self.rng = rng
        self.node = None
        self.draws = {}

    def choice(self, seq):
        if len(seq) == 0:
            raise IndexError("Cannot choose from an empty sequence")
        k = self.rng.randrange(len(seq))
        self.draws.setdefault(self.node, []).append(k)
        return seq[k]


def _build_dcop(c):
    import numpy as np
    from pydcop.dcop.dcop import DCOP
    from pydcop.dcop.objects import Domain, Variable
    from pydcop.dcop.relations import NAryMatrixRelation, constraint_from_str
    nv = c["nvars"]
    vs = []
    for i in range(nv):
        d = Domain("d%02d" % i, "d", list(c["doms"][str(i)]))
        vs.append(Variable(_name(i), d))
    dcop = DCOP("csp", "min")
    for v in vs:
        dcop.add_variable(v)
    for k, cons in enumerate(c["constraints"]):
        name = "c%02d" % k
        sc = cons["scope"]
        svars = [vs[i] for i in sc]
        if cons["form"] == "matrix":
            m = np.zeros([len(c["doms"][str(i)]) for i in sc], dtype=int)
            for vals, cost in cons["table"]:
                m[tuple(c["doms"][str(i)].index(x) for i, x in zip(sc, vals))] = cost
            rel = NAryMatrixRelation(svars, m, name=name)
        elif cons["form"] == "neq":
            rel = constraint_from_str(name, "%d if %s == %s else 0" % (c["infinity"], _name(sc[0]), _name(sc[1])), vs)
        else:
            body = "{" + ", ".join("(%s,): %d" % (", ".join(str(x) for x in vals), cost) for vals, cost in cons["table"]) + "}"
            rel = constraint_from_str(name, "%s.get((%s,), 0)" % (body, ", ".join(_name(i) for i in sc)), vs)
        dcop.add_constraint(rel)
    return dcop, vs


def run_impl(c):
    import random
    from importlib import import_module
    import numpy
    from pydcop.algorithms import load_algorithm_module, AlgorithmDef, ComputationDef
    from harness.pydrv.netdriver import NetDriver, pick_policy
    rng = random.Random(c["seed"])
    random.seed(c["seed"])
    numpy.random.seed(c["seed"] % (2 ** 32))
    dcop, vs = _build_dcop(c)
    mod = load_algorithm_module("dba")
    gm = import_module("pydcop.computations_graph." + mod.GRAPH_TYPE)
    cg = gm.build_computation_graph(dcop)
    adef = AlgorithmDef.build_with_default_param("dba", {"infinity": c["infinity"], "max_distance": c["maxd"]},
                                                 mode="min", parameters_definitions=mod.algo_params)
    comps = {}
    log = []
    snaps = []
    for node in cg.nodes:
        comps[node.name] = mod.build_computation(ComputationDef(node, adef))
    names = sorted(comps)

    def snapshot():
        return [[n_, comps[n_].current_value] for n_ in names]
    for n_, comp in comps.items():
        comp._on_value_selection = (lambda v, cost, cyc, _n=n_: log.append(["sel", _n, int(v), None if cost is None else int(cost), int(cyc)]))
        comp._on_new_cycle = (lambda k, _n=n_: log.append(["cyc", _n, int(k)]))

        def fin(_n=n_):
            log.append(["fin", _n])
            snaps.append([_n, len(log) - 1, snapshot()])
        comp.finished = fin

    class Drv(NetDriver):
        def enabled(self):
            return sorted(NetDriver.enabled(self))
    drv = Drv(comps, names)
    shim = _Shim(rng)
    dba_mod = import_module("pydcop.algorithms.dba")
    saved = dba_mod.random
    dba_mod.random = shim
    real_do = drv.do

    def do(act):
        shim.node = act[1] if act[0] != "D" else act[2]
        ne = len(drv.events)
        real_do(act)
        for e in drv.events[ne:]:
            if e[0] == "raise":
                log.append(["raise", e[1], e[2], e[3]])
    drv.do = do
    try:
        policy = pick_policy(rng, names)
        drv.run_random(rng, max_steps=c["steps"], policy=policy,
                       stop=lambda d: any(e[0] == "raise" for e in log))
    finally:
        dba_mod.random = saved
    states = []
    for n_ in names:
        cp = comps[n_]
        states.append(dict(
            id=n_, mode=cp._mode, value=cp.current_value, cost=cp.current_cost,
            w=[int(x) for x in cp.__constraints_weights__], viol=[int(x) for x in cp._violated_constraints],
            nvals=[[k, int(v)] for k, v in cp._neighbors_values.items()],
            nimps=list(cp._neighbors_improvements),
            pok=[[s, int(m.value)] for s, m in cp.__postponed_ok_messages__],
            pimp=[[s, int(m.improve), int(m.current_eval), int(m.termination_counter)] for s, m in cp.__postponed_improve_messages__],
            tc=int(cp._termination_counter), cons=cp._consistent, can=bool(cp._can_move), qlm=bool(cp._quasi_local_minimum),
            imp=int(cp._my_improve), new=cp._new_value, cycle=int(cp.cycle_count),
            started=n_ in drv.started, held=len(cp._paused_messages_recv),
            constraints=[r.name for r in cp.constraints], neighbors=sorted(cp.neighbors)))
        for k in ("value", "cost", "new"):
            if states[-1][k] is not None:
                states[-1][k] = int(states[-1][k])

    def enc(m):
        if m.type == "dba_ok":
            return ["ok", int(m.value)]
        if m.type == "dba_improve":
            return ["imp", int(m.improve), int(m.current_eval), int(m.termination_counter)]
        return ["end"]
    inflight = [[s, d, [enc(m) for m in ql]] for (s, d), ql in sorted(drv.chans.items()) if d in comps]
    return dict(log=log, sched=drv.schedule, states=states, inflight=inflight, snaps=snaps,
                draws={k: v for k, v in shim.draws.items()}, policy=policy)


# ------------------------------------------------------------------ oracle
def _cost(cons, asg):
    key = [asg[i] for i in cons["scope"]]
    for vals, cost in cons["table"]:
        if vals == key:
            return cost
    return 0


def in_scope_of_property(c):
    """hypotheses of C09: a CSP whose variables are all within max_distance hops of each other"""
    return c["diameter"] is not None and c["maxd"] >= c["diameter"] and c["infinity"] > 0


def oracle(c, o):
    if not in_scope_of_property(c):
        return None      # model validation only
    for who, pos, snap in o["snaps"]:
        asg = {}
        for n_, v in snap:
            if v is None:
                return "%s finished while %s holds no value" % (who, n_)
            asg[_idx(n_)] = v
        for k, cons in enumerate(c["constraints"]):
            if _cost(cons, asg) >= c["infinity"]:
                return ("%s called finished() (event %d) while constraint c%02d over %s is violated by %s"
                        % (who, pos, k, cons["scope"], [asg[i] for i in cons["scope"]]))
    return None


# ------------------------------------------------------------------ Gallina
_MODE = {"starting": 0, "ok": 1, "improve": 2, "finished": 3}


def coq_case(c, o):
    nv = c["nvars"]
    cs = q.lst([q.pair(q.zlist(cons["scope"]), q.lst([q.pair(q.zlist(vals), q.z(cost)) for vals, cost in cons["table"]]))
                for cons in c["constraints"]])
    st = {s["id"]: s for s in o["states"]}
    ncs = q.lst([q.pair(q.z(i), q.lst([q.nat(int(nm[1:])) for nm in st[_name(i)]["constraints"]])) for i in range(nv)
                 if _name(i) in st])
    dom = q.lst([q.pair(q.z(i), q.zlist(c["doms"][str(i)])) for i in range(nv)])
    orc = q.lst([q.pair(q.z(_idx(k)), q.zlist(v)) for k, v in sorted(o["draws"].items())])
    sched = q.lst(["Start %s" % q.z(_idx(a[1])) if a[0] == "S" else "Deliver %s %s" % (q.z(_idx(a[1])), q.z(_idx(a[2])))
                   for a in o["sched"]])
    evs = []
    for e in o["log"]:
        if e[0] == "sel":
            evs.append("OSelect %s %s %s %s" % (q.z(_idx(e[1])), q.z(e[2]), q.opt(e[3], q.z), q.z(e[4])))
        elif e[0] == "cyc":
            evs.append("OCycle %s %s" % (q.z(_idx(e[1])), q.z(e[2])))
        elif e[0] == "fin":
            evs.append("OFinished %s" % q.z(_idx(e[1])))
        else:
            evs.append("ORaise %s %s" % (q.z(_idx(e[1])), q.z(1 if e[2] == "IndexError" else 0)))
    states = []
    for s in o["states"]:
        states.append("mkObs %s %s %s %s %s %s %s %s %s %s %s %s %s %s %s %s %s" % (
            q.z(_idx(s["id"])), q.z(_MODE[s["mode"]]), q.opt(s["value"], q.z), q.opt(s["cost"], q.z), q.zlist(s["w"]),
            q.zlist(s["viol"]), q.lst([q.pair(q.z(_idx(k)), q.z(v)) for k, v in s["nvals"]]),
            q.zlist([_idx(k) for k in s["nimps"]]), q.lst([q.pair(q.z(_idx(k)), q.z(v)) for k, v in s["pok"]]),
            q.lst(["(%s, (%s, %s, %s))" % (q.z(_idx(k)), q.z(a), q.z(b_), q.z(t)) for k, a, b_, t in s["pimp"]]),
            q.z(s["tc"]), q.opt(s["cons"], q.b), q.b(s["can"]), q.b(s["qlm"]), q.z(s["imp"]), q.opt(s["new"], q.z),
            q.z(s["cycle"])))

    def om(m):
        if m[0] == "ok":
            return "OOk %s" % q.z(m[1])
        if m[0] == "imp":
            return "OImp %s %s %s" % (q.z(m[1]), q.z(m[2]), q.z(m[3]))
        return "OEnd"
    infl = q.lst(["(%s, %s, %s)" % (q.z(_idx(s)), q.z(_idx(d)), q.lst([om(m) for m in l])) for s, d, l in o["inflight"]])
    # value held during cycle k, per node
    vals = {}
    for e in o["log"]:
        if e[0] == "sel":
            if e[4] == 0:
                vals[e[1]] = [e[2]]
            else:
                vals[e[1]][-1] = e[2]
        elif e[0] == "cyc":
            vals[e[1]].append(vals[e[1]][-1])
    sync = q.lst([q.pair(q.z(i), q.zlist(vals.get(_name(i), []))) for i in range(nv)])
    fuel = max([len(v) for v in vals.values()] + [0]) + 1
    return "mkCase %s %s %s %s %s %s %s %s %s %s %s %s" % (
        cs, ncs, dom, q.z(c["infinity"]), q.z(c["maxd"]), orc, sched, q.lst(evs), q.lst(states), infl, sync, q.nat(fuel))


def nontrivial(c, o):
    return any(e[0] == "cyc" for e in o.get("log", []))


def _wf_problem(c, o):
    """hypothesis wf_problem of dba_finish_safe / dba_refines_rounds evaluated on the REAL computations:
    the constraint list of every computation holds exactly the constraints its variable occurs in,
    and no constraint has an empty scope"""
    st = {s["id"]: s for s in o["states"]}
    for k, cons in enumerate(c["constraints"]):
        if not cons["scope"]:
            return False
    for i in range(c["nvars"]):
        if _name(i) not in st:
            continue
        mine = sorted(int(nm[1:]) for nm in st[_name(i)]["constraints"])
        occ = sorted(k for k, cons in enumerate(c["constraints"]) if i in cons["scope"])
        if sorted(set(mine)) != occ:
            return False
    return True


def histogram(cases, obs):
    h = dict(in_scope=0, out_of_scope=0, runs_with_finish=0, finished_calls=0, double_finish=0, raises=0,
             cycles=0, max_cycle=0, moves=0, small_infinity=0, sched_steps=0, all_finished=0,
             in_scope_theorem_hypotheses_hold=0, later_finished_calls_in_scope=0,
             max_finished_calls_per_computation=0, computations_with_3plus_finished_calls=0,
             quiescent_runs_with_finish=0, quiescent_flood_complete=0)
    for c, o in zip(cases, obs):
        if "log" not in o:
            continue
        h["in_scope" if in_scope_of_property(c) else "out_of_scope"] += 1
        h["in_scope_theorem_hypotheses_hold"] += bool(in_scope_of_property(c) and _wf_problem(c, o))
        h["small_infinity"] += c["infinity"] < 100
        fins = [e[1] for e in o["log"] if e[0] == "fin"]
        h["runs_with_finish"] += bool(fins)
        h["finished_calls"] += len(fins)
        h["double_finish"] += len(fins) - len(set(fins))
        h["all_finished"] += bool(fins) and len(set(fins)) == c["nvars"]
        if in_scope_of_property(c):
            h["later_finished_calls_in_scope"] += max(0, len(fins) - 1)
        for n_ in set(fins):
            k = fins.count(n_)
            h["max_finished_calls_per_computation"] = max(h["max_finished_calls_per_computation"], k)
            h["computations_with_3plus_finished_calls"] += k >= 3
        # the dba_end flood at quiescence (hypotheses of dba_end_flood evaluated on the real run)
        quiet = (all(not ql for _s, _d, ql in o["inflight"]) and all(s_["started"] for s_ in o["states"])
                 and not any(e[0] == "raise" for e in o["log"]))
        if quiet and fins:
            h["quiescent_runs_with_finish"] += 1
            adj = {}
            for a_, b_ in _scope_edges(c["constraints"]):
                adj.setdefault(a_, set()).add(b_)
                adj.setdefault(b_, set()).add(a_)
            reach, fr = set(), [_idx(n_) for n_ in set(fins)]
            while fr:
                x = fr.pop()
                if x not in reach:
                    reach.add(x)
                    fr.extend(adj.get(x, ()))
            st_ = {s_["id"]: s_ for s_ in o["states"]}
            h["quiescent_flood_complete"] += all(
                _name(x) in fins and (not adj.get(x) or st_[_name(x)]["mode"] == "finished") for x in reach)
        h["raises"] += sum(e[0] == "raise" for e in o["log"])
        h["sched_steps"] += len(o["sched"])
        for e in o["log"]:
            if e[0] == "cyc":
                h["cycles"] += 1
                h["max_cycle"] = max(h["max_cycle"], e[2])
            elif e[0] == "sel" and e[4] > 0:
                h["moves"] += 1
    return h


def classify(c, o, msg):
    return None


def shrink_candidates(c):
    out = []
    for k in range(len(c["constraints"])):
        d = dict(c)
        d["constraints"] = c["constraints"][:k] + c["constraints"][k + 1:]
        d["diameter"] = _diameter(d["nvars"], _scope_edges(d["constraints"]))
        if in_scope_of_property(d):
            out.append(d)
    if c["steps"] > 40:
        d = dict(c)
        d["steps"] = c["steps"] * 2 // 3
        out.append(d)
    return out
