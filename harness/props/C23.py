"""C23 -- distribution methods return valid mappings or declare impossibility."""
from harness import coqio as q
from harness.props import _dist_common as dc

ID = "C23"
COQ_REQUIRE = ["M_Dist"]
COQ_CASE_TYPE = "M_Dist.case"
COQ_CHECK = "M_Dist.check_case"
OBLIGATIONS = []
N_QUICK, N_THOROUGH = 400, 6000
PARALLEL = 8
SHARD = 100

METHODS = ["oneagent", "adhoc", "gh_cgdp", "heur_comhost", "oilp_cgdp", "ilp_fgdp"]
CAPACITY_AWARE = {"adhoc", "gh_cgdp", "heur_comhost", "oilp_cgdp", "ilp_fgdp"}
ALLOWED_ERRORS = {"ImpossibleDistributionException", "TimeoutError"}


def gen(rng, n, tier):
    cases = []
    for i in range(n):
        r = rng.random()
        if r < 0.14:
            method = "oneagent"
        elif r < 0.40:
            method = "adhoc"
        elif r < 0.66:
            method = "gh_cgdp"
        elif r < 0.82:
            method = "heur_comhost"
        elif r < 0.91:
            method = "oilp_cgdp"
        else:
            method = "ilp_fgdp"
        graphs = ["factor_graph"] if method == "ilp_fgdp" else dc.GRAPHS
        c = dc.gen_instance(rng, graphs=graphs,
                            max_agents=6 if method == "oneagent" else 4)
        c["method"] = method
        c["via"] = "api"
        dc.add_hints(rng, c, p_must=0.45, p_with=0.25 if method == "adhoc" else 0.0)
        cases.append(c)
    return cases


def run_impl(c):
    dcop, cg, agents, hints, cm, cl = dc.build_objects(c)
    view = dc.graph_view(cg)
    rnd = dc.Rnd(c)
    try:
        with dc.patched(c["method"], rnd) as mod:
            dist = mod.distribute(cg, agents, hints=hints, computation_memory=cm, communication_load=cl)
        res = dict(mapping=dc.canon_mapping(dist))
    except Exception as e:
        res = dict(error=type(e).__name__, msg=str(e)[:200])
    return dict(graph=view, result=res, shuffles=rnd.shuffles, choices=rnd.choices, nrnd=rnd.k)


# ------------------------------------------------------------------ oracle (independent)
def oracle(c, o):
    res = o["result"]
    if "error" in res:
        if res["error"] in ALLOWED_ERRORS:
            return None
        return "%s raised %s (%s): neither a mapping nor a declared impossibility" % (
            c["method"], res["error"], res.get("msg", ""))
    m = res["mapping"]
    comps = [n[0] for n in o["graph"]["nodes"]]
    declared = {a["name"]: a for a in c["agents"]}
    hosted = [x for a in m for x in m[a]]
    for a in m:
        if a not in declared:
            return "mapping uses undeclared agent %s" % a
    for x in comps:
        k = hosted.count(x)
        if k != 1:
            return "computation %s hosted %d times" % (x, k)
    for x in hosted:
        if x not in comps:
            return "mapping hosts unknown computation %s" % x
    for a, lst in (c.get("must_host") or {}).items():
        for x in lst:
            if x not in m.get(a, []):
                return "must-host hint not honoured: %s must be on %s" % (x, a)
    if c["method"] in CAPACITY_AWARE:
        for a, lst in m.items():
            used = sum(c["fp"][x] for x in lst)
            if used > declared[a]["capacity"]:
                return "capacity exceeded on %s: footprint %d > capacity %d" % (a, used, declared[a]["capacity"])
    return None


def coq_case(c, o):
    return None


def classify(c, o, msg):
    return None


def nontrivial(c, o):
    return len(o["graph"]["nodes"]) >= 2


def histogram(cases, obs):
    h = {}
    for c, o in zip(cases, obs):
        r = o.get("result", {})
        k = "%s/%s" % (c["method"], "ok" if "mapping" in r else r.get("error", "driver"))
        h[k] = h.get(k, 0) + 1
    return h
