"""C23 -- distribution methods return valid mappings or declare impossibility."""
from harness import coqio as q
from harness.props import _dist_common as dc

ID = "C23"
COQ_REQUIRE = ["M_Dist", "M_Dist2"]
COQ_CASE_TYPE = "M_Dist2.case2"
COQ_CHECK = "M_Dist2.check_case2"
OBLIGATIONS = ["valid_or_impossible_oneagent", "valid_or_impossible_gh_cgdp",
               "valid_or_impossible_heur_comhost", "must_host_ignored_refuted", "adhoc_secp_refuted",
               "valid_or_impossible_adhoc", "must_host_honoured_adhoc", "gh_cgdp_pins_zero_cost",
               "must_host_by_cost_gh_cgdp", "ilp_feasible_decodes_valid_oilp",
               "ilp_feasible_decodes_valid_fgdp", "ilp_must_host_ignored_refuted", "valid_b_sound",
               "heur_comhost_is_pure_greedy", "gh_cgdp_is_pure_greedy"]
N_QUICK, N_THOROUGH = 400, 6000
PARALLEL = 8
SHARD = 100

RULE = ("seeded random DCOPs (1-4 binary variables, 0-4 constraints of arity 1-3) turned into a computation "
        "graph by the REAL builder of one of the four graph models; 1-4 agents (oneagent: 1-6) with tight / "
        "ample / mixed / tiny capacities, default-0 / positive / some-zero / mixed hosting costs, routes; "
        "footprints 0-6, communication loads; well-formed must_host hints (45%) and host_with hints (adhoc, "
        "25%; adhoc on factor graphs, 30%: a factor hosted with one variable = the SECP shape); method drawn among oneagent, adhoc, gh_cgdp, heur_comhost, oilp_cgdp, ilp_fgdp (factor graphs "
        "only) and called through the API with random/shuffle/choice replaced by the case's draws and GLPK by "
        "PuLP's CBC in the driver process; 12%: the same through `pydcop distribute` (generated yaml file incl. agents, "
        "routes, hosting costs, must_host with EMPTY entries in any position, host_with; run_cmd in process, --algo dsa, "
        "footprints = the generator's own neighbour count); non-trivial = at least 2 computations; distinct = distinct case JSON")
MODELLED = ("theorems (all instances, all rankings/draws, termination of the backtracking loop / of the retry "
            "included): oneagent, gh_cgdp, heur_comhost return a mapping hosting every computation once on declared "
            "agents within capacity, or ImpossibleDistributionException, never another error; adhoc (3 loops, hints, "
            "retry, every shuffle/choice oracle): the same plus must-host honoured, under the boolean guards hints_wfb "
            "(well-formed hints) and secp_free (the input shape of finding C23-adhoc-secp-hostwith excluded); every "
            "mapping adhoc returns honours must-host (no secp guard); gh_cgdp pins zero-hosting-cost computations on "
            "the first such agent, hence honours must-host hints expressed that way; any feasible integral point of "
            "the oilp_cgdp / ilp_fgdp ILP (C24's model) decodes to a valid mapping; refuted: must-host hints (ignored "
            "by oneagent, gh_cgdp, heur_comhost, and by the ILP rows), adhoc's SECP loop capacity. Correspondence: "
            "model = implementation on every non-ILP case; for adhoc also Coq guard = harness classifier predicate and "
            "guards => observed result valid (valid_b, proved sound). The ILP methods are run and checked here by the "
            "oracle only (their model is C24's); 12% of the cases go through the distribute command in process (yaml file -> run_cmd, --algo dsa, oracle only).")
META = dict(
    level_text=("Proof (Coq) that in the executable model of oneagent, gh_cgdp, heur_comhost (faithful to the "
                "code incl. zero-hosting-cost pinning, stale candidate lists after a backtrack, random tie-breaks as "
                "an oracle, the float ranking as a parameter) and adhoc (must-host phase, SECP loop, scoring loop with "
                "strict capacity test and host_with lookup, retry; shuffle/choice as oracles) every run ends with a "
                "mapping hosting every computation exactly once on a declared agent within every capacity (adhoc: and "
                "honouring must-host hints), or with ImpossibleDistributionException - for all graphs, agents, costs, "
                "hints and draws; adhoc under two boolean input guards (well-formed hints; no SECP-shaped host_with "
                "hint = the recorded finding, refuted without the guard). The must-host clause is refuted for the "
                "hint-blind methods (finding) and proved for adhoc unconditionally and for gh_cgdp when the hint is "
                "also a zero hosting cost. ILP methods: every feasible integral point of C24's ILP model decodes to "
                "a valid mapping. Model tied to /repo by a differential run (real code vs vm_compute, PrimFloat for "
                "the 0.8/0.2 cost; Coq guards vs the harness' classifier; guards => observed mapping valid)."),
    level_note=("Partial: must-host is false for oneagent/gh_cgdp/heur_comhost/ILP (finding C23-must-host-ignored); "
                "adhoc validity carries the guard secp_free (finding C23-adhoc-secp-hostwith). Hypotheses: unique "
                "names (wf); heur_comhost: capacities >= 0; adhoc: hints_wfb, secp_free, each shuffle a permutation. "
                "ILP: the solver is an oracle and the rows-to-feasibility tie is C24's correspondence. The `pydcop "
                "distribute` command is exercised in process for the non-ILP methods with --algo dsa only. Trusted: Coq "
                "kernel/vm_compute incl. primitive floats in the correspondence only (no theorem depends on them), "
                "M_Dist.v, M_Dist2.v, harness, PuLP CBC."),
    technique="Coq proof over executable Gallina model + differential correspondence run + brute-force validity oracle",
    design_ref="DESIGN.md §5 C23",
)
TRUSTED = ["PuLP's bundled CBC substituted for the absent GLPK in the driver process (ILP methods)",
           "Coq primitive floats (binary64) in the correspondence evaluation of the 0.8/0.2 cost ranking only"]

METHODS = ["oneagent", "adhoc", "gh_cgdp", "heur_comhost", "oilp_cgdp", "ilp_fgdp"]
CAPACITY_AWARE = {"adhoc", "gh_cgdp", "heur_comhost", "oilp_cgdp", "ilp_fgdp"}
ALLOWED_ERRORS = {"ImpossibleDistributionException", "TimeoutError"}


def dsa_footprints(c):
    """ground truth for `--algo dsa` (memory = number of distinct neighbours in the constraints
    hypergraph, UNIT_SIZE 1), computed from the generated scopes only"""
    nb = {i: set() for i in range(c["nv"])}
    for scope in c["cons"]:
        for i in scope:
            nb[i].update(j for j in scope if j != i)
    return {"v%d" % i: len(nb[i]) for i in range(c["nv"])}


def gen_cli(rng):
    """a case for the `pydcop distribute` command: yaml file -> load_dcop_from_file -> graph of the
    algorithm -> distribute() with the hints / agents read from the file"""
    r = rng.random()
    method = "adhoc" if r < 0.6 else "gh_cgdp" if r < 0.75 else "heur_comhost" if r < 0.9 else "oneagent"
    c = dc.gen_instance(rng, graphs=["constraints_hypergraph"], max_agents=6 if method == "oneagent" else 4)
    c["fp"] = dsa_footprints(c)
    na, total = len(c["agents"]), sum(c["fp"].values())
    dr = rng.randint(0, 4)
    for a in c["agents"]:
        if c["tight"] == "ample":
            a["capacity"] = total + rng.randint(1, 5)
        elif c["tight"] == "tight":
            a["capacity"] = max(0, (total + na - 1) // na + rng.randint(-1, 2))
        elif c["tight"] == "tiny":
            a["capacity"] = rng.randint(0, 3)
        else:
            a["capacity"] = rng.randint(0, total + 2)
        a["droute"], a["routes"] = dr, {}          # the yaml format has one default and symmetric routes
    for j in range(na):
        for k in range(j + 1, na):
            if rng.random() < 0.4:
                v = rng.randint(0, 6)
                c["agents"][j]["routes"]["a%d" % k] = v
                c["agents"][k]["routes"]["a%d" % j] = v
    c["load"] = {}
    c.update(method=method, via="cli", algo="dsa")
    dc.add_hints(rng, c, p_must=0.75 if method == "adhoc" else 0.3, p_with=0.2 if method == "adhoc" else 0.0)
    if c["must_host"] and rng.random() < 0.6:
        # agents listed with an EMPTY must_host list, anywhere among the others
        free = [a["name"] for a in c["agents"] if a["name"] not in c["must_host"]]
        keys = list(c["must_host"]) + rng.sample(free, min(len(free), rng.randint(1, 2)))
        rng.shuffle(keys)
        c["must_host"] = {k: c["must_host"].get(k, []) for k in keys}
    return c


def gen(rng, n, tier):
    cases = []
    for i in range(n):
        if rng.random() < 0.12:
            cases.append(gen_cli(rng))
            continue
        r = rng.random()
        if r < 0.14:
            method = "oneagent"
        elif r < 0.40:
            method = "adhoc"
        elif r < 0.66:
            method = "gh_cgdp"
        elif r < 0.82:
            method = "heur_comhost"
        elif r < 0.91:
            method = "oilp_cgdp"
        else:
            method = "ilp_fgdp"
        graphs = ["factor_graph"] if method == "ilp_fgdp" else dc.GRAPHS
        c = dc.gen_instance(rng, graphs=graphs,
                            max_agents=6 if method == "oneagent" else 4)
        if method == "adhoc" and rng.random() < 0.4:
            # order-sensitive capacities (just above an even share; adhoc's test is a strict `>`):
            # the first attempt often fails in the scoring loop and a retry with another shuffle
            # succeeds, so the retry path is compared and not only "first try" / "all four fail"
            na, total = len(c["agents"]), sum(c["fp"].values())
            for a in c["agents"]:
                a["capacity"] = total // na + rng.randint(1, 3)
            c["tight"] = "retry"
        c["method"] = method
        c["via"] = "api"
        dc.add_hints(rng, c, p_must=0.45, p_with=0.25 if method == "adhoc" else 0.0)
        if method == "adhoc" and c["graph"] == "factor_graph" and c["cons"] and rng.random() < 0.3:
            # the SECP shape (a factor hosted with one variable): the first loop of adhoc fires,
            # the guard secp_free of the theorem is false (finding C23-adhoc-secp-hostwith)
            k = rng.randrange(len(c["cons"]))
            c["host_with"] = {"c%d" % k: ["v%d" % rng.choice(c["cons"][k] if rng.random() < 0.7
                                                             else list(range(c["nv"])))]}
            if c["nv"] >= 2 and rng.random() < 0.35:
                # a group of two variables: NOT the SECP shape (the guard holds), hinted agents matter
                c["host_with"] = {"c%d" % k: ["v%d" % j for j in rng.sample(range(c["nv"]), 2)]}
        cases.append(c)
    return cases


def yaml_text(c):
    import yaml
    doc = {"name": "t", "objective": "min", "domains": {"d": {"values": [0, 1]}},
           "variables": {"v%d" % i: {"domain": "d"} for i in range(c["nv"])},
           "constraints": {"c%d" % i: {"type": "intention", "function": " + ".join("v%d" % j for j in scope)}
                           for i, scope in enumerate(c["cons"])},
           "agents": {a["name"]: {"capacity": a["capacity"]} for a in c["agents"]}}
    routes = {"default": c["agents"][0]["droute"]}
    for a in c["agents"]:
        mine = {b: v for b, v in a["routes"].items() if dc.aid(a["name"]) < dc.aid(b)}
        if mine:
            routes[a["name"]] = mine
    doc["routes"] = routes
    doc["hosting_costs"] = {a["name"]: {"default": a["dhost"], "computations": dict(a["host"])}
                            for a in c["agents"]}
    hints = {}
    if c.get("must_host"):
        hints["must_host"] = {a: list(l) for a, l in c["must_host"].items()}
    if c.get("host_with"):
        hints["host_with"] = {a: list(l) for a, l in c["host_with"].items()}
    if hints:
        doc["distribution_hints"] = hints
    return yaml.dump(doc, sort_keys=False)          # key order of must_host is part of the case


def run_cli(c):
    """the distribute command, in process: pydcop.commands.distribute.run_cmd on a yaml file"""
    import argparse, contextlib, io, os, tempfile, yaml, logging
    logging.getLogger("distribution").setLevel(logging.CRITICAL)
    from pydcop.commands import distribute as cmd
    rnd = dc.Rnd(c)
    base = os.path.join(os.path.dirname(os.path.dirname(os.path.dirname(os.path.abspath(__file__)))), ".work")
    os.makedirs(base, exist_ok=True)
    with tempfile.TemporaryDirectory(prefix="c23cli_", dir=base) as d:
        path = os.path.join(d, "t.yaml")
        with open(path, "w") as f:
            f.write(yaml_text(c))
        args = argparse.Namespace(dcop_files=[path], distribution=c["method"], graph=None, algo=c["algo"],
                                  cost=None, output=None)
        cmd.result = {}
        buf = io.StringIO()
        try:
            with dc.patched(c["method"], rnd), contextlib.redirect_stdout(buf):
                cmd.run_cmd(args)
            res = dict(error="NoExit", msg="run_cmd returned")
        except SystemExit as e:
            try:
                out = yaml.safe_load(buf.getvalue()) or {}
            except Exception as e2:
                out = {"status": "unparsable output: %s" % type(e2).__name__}
            st = out.get("status")
            if e.code not in (0, None):
                res = dict(error="SystemExit", msg="exit code %s: %s" % (e.code, buf.getvalue()[-150:]))
            elif st == "SUCCESS":
                m = out.get("distribution") or {}
                res = dict(mapping={a: sorted(m[a]) for a in sorted(m)})
            elif st == "FAIL":
                res = dict(error="ImpossibleDistributionException", msg=str(out.get("error"))[:200])
            elif st == "TIMEOUT":
                res = dict(error="TimeoutError", msg="")
            else:
                res = dict(error="BadStatus", msg=str(st)[:200])
        except Exception as e:
            res = dict(error=type(e).__name__, msg=str(e)[:200])
    view = dict(nodes=[[n, 0, []] for n in dc.comp_names(c)], links=[])     # generator's own view
    return dict(graph=view, result=res, shuffles=rnd.shuffles, choices=rnd.choices, nrnd=rnd.k, host_with={})


def run_impl(c):
    if c.get("via") == "cli":
        return run_cli(c)
    dcop, cg, agents, hints, cm, cl = dc.build_objects(c)
    view = dc.graph_view(cg)
    rnd = dc.Rnd(c)
    try:
        with dc.patched(c["method"], rnd) as mod:
            dist = mod.distribute(cg, agents, hints=hints, computation_memory=cm, communication_load=cl)
        res = dict(mapping=dc.canon_mapping(dist))
    except Exception as e:
        res = dict(error=type(e).__name__, msg=str(e)[:200])
    hw = {}
    if hints is not None:
        for n in view["nodes"]:
            l = hints.host_with(n[0])
            if l:
                hw[n[0]] = l
    return dict(graph=view, result=res, shuffles=rnd.shuffles, choices=rnd.choices, nrnd=rnd.k,
                host_with=hw)


# ------------------------------------------------------------------ oracle (independent)
def violations(c, o):
    """every way the observed behaviour violates C23 (list of strings)"""
    res = o["result"]
    if "error" in res:
        if res["error"] in ALLOWED_ERRORS:
            return []
        return ["%s raised %s (%s): neither a mapping nor a declared impossibility" % (
            c["method"], res["error"], res.get("msg", ""))]
    out = []
    m = res["mapping"]
    comps = [n[0] for n in o["graph"]["nodes"]]
    declared = {a["name"]: a for a in c["agents"]}
    hosted = [x for a in m for x in m[a]]
    for a in m:
        if a not in declared:
            out.append("mapping uses undeclared agent %s" % a)
    for x in comps:
        k = hosted.count(x)
        if k != 1:
            out.append("computation %s hosted %d times" % (x, k))
    for x in hosted:
        if x not in comps:
            out.append("mapping hosts unknown computation %s" % x)
    for a, lst in (c.get("must_host") or {}).items():
        for x in lst:
            if x not in m.get(a, []):
                out.append("must-host hint not honoured: %s must be on %s" % (x, a))
    if c["method"] in CAPACITY_AWARE:
        for a, lst in m.items():
            if a in declared:
                used = sum(c["fp"].get(x, 0) for x in lst)
                if used > declared[a]["capacity"]:
                    out.append("capacity exceeded on %s: footprint %d > capacity %d"
                               % (a, used, declared[a]["capacity"]))
    return out


def oracle(c, o):
    v = violations(c, o)
    return "; ".join(v) if v else None


# ------------------------------------------------------------------ known findings
HINT_BLIND = {"oneagent", "gh_cgdp", "heur_comhost", "oilp_cgdp", "ilp_fgdp"}


def secp_factors(c, o):
    """factors that adhoc's first ('secp') loop handles: not must-hosted, host_with == one variable"""
    if c["graph"] != "factor_graph":
        return []
    must = {x for l in (c.get("must_host") or {}).values() for x in l}
    hw = o.get("host_with") or {}
    return [f for f, l in hw.items()
            if f[0] == "c" and f not in must and len(l) == 1 and l[0][0] == "v"]


def classify(c, o, msg):
    v = violations(c, o)
    if not v:
        return None
    if c["method"] in HINT_BLIND and c.get("must_host") and \
            all(x.startswith("must-host hint not honoured") for x in v):
        return "C23-must-host-ignored"
    if c["method"] == "adhoc":
        sf = secp_factors(c, o)
        res = o["result"]
        if sf and res.get("error") == "ValueError" and "Inconsistent distribution" in res.get("msg", ""):
            return "C23-adhoc-secp-hostwith"
        if sf and "mapping" in res:
            m = res["mapping"]
            hw = o.get("host_with") or {}
            touched = {a for a, l in m.items() if any(f in l or hw[f][0] in l for f in sf)}
            if all(x.startswith("capacity exceeded on ") and x.split()[3].rstrip(":") in touched for x in v):
                return "C23-adhoc-secp-hostwith"
    return None


# ------------------------------------------------------------------ Gallina printer
COQ_METHOD = {"oneagent": "MOneAgent", "gh_cgdp": "MGhCgdp", "heur_comhost": "MHeurComhost",
              "adhoc": "MAdhoc"}


def zz(d, kf, vf=q.z):
    return q.lst([q.pair(kf(k), vf(v)) for k, v in d])


def inst_term(c, o):
    nodes = q.lst(["(mkNode %s %s %s %s)" % (q.z(dc.cid(n)), q.z(k), q.z(c["fp"][n]),
                                            q.lst([q.zlist([dc.cid(x) for x in l]) for l in links]))
                   for n, k, links in o["graph"]["nodes"]])
    agents = q.lst(["(mkAg %s %s %s %s %s %s)" % (
        q.z(dc.aid(a["name"])), q.z(a["capacity"]), q.z(a["dhost"]),
        zz(a["host"].items(), lambda k: q.z(dc.cid(k))), q.z(a["droute"]),
        zz(a["routes"].items(), lambda k: q.z(dc.aid(k)))) for a in c["agents"]])
    load = q.lst([q.pair(q.pair(q.z(dc.cid(k.split("|")[0])), q.z(dc.cid(k.split("|")[1]))), q.z(v))
                  for k, v in c["load"].items()])
    must = q.lst([q.pair(q.z(dc.aid(a)), q.zlist([dc.cid(x) for x in l]))
                  for a, l in (c.get("must_host") or {}).items()])
    hw = q.lst([q.pair(q.z(dc.cid(a)), q.zlist([dc.cid(x) for x in l]))
                for a, l in (o.get("host_with") or {}).items()])
    return "(mkInst %s %s %s %s %s %s)" % (nodes, agents, load, q.z(c["dload"]), must, hw)


def obs_term(res):
    if "mapping" in res:
        pairs = sorted((dc.cid(x), dc.aid(a)) for a, l in res["mapping"].items() for x in l)
        return "(OMap %s)" % q.lst([q.pair(q.z(x), q.z(a)) for x, a in pairs])
    if res["error"] == "ImpossibleDistributionException":
        return "OImpossible"
    return "OError"


def hints_wf_py(c, o):
    """the harness' own evaluation of the guard M_Dist2.hints_wfb (well-formed hints)"""
    comps = {n[0] for n in o["graph"]["nodes"]}
    declared = {a["name"] for a in c["agents"]}
    mh = c.get("must_host") or {}
    listed = [x for l in mh.values() for x in l]
    hw = o.get("host_with") or {}
    return (all(a in declared for a in mh) and len(set(listed)) == len(listed)
            and all(x in comps for x in listed)
            and all(x in comps for l in hw.values() for x in l))


def coq_case(c, o):
    if c["method"] not in COQ_METHOD or c.get("via") != "api":
        return None
    rnd = [c["rnd"][i % dc.NRND] for i in range(o["nrnd"])]
    shuf = q.lst([q.zlist([dc.cid(x) for x in l]) for l in o["shuffles"]])
    choices = q.lst([q.nat(i) for i in o["choices"]])
    case = "(mkCase %s %s %s %s %s %s)" % (COQ_METHOD[c["method"]], inst_term(c, o), q.zlist(rnd),
                                          shuf, choices, obs_term(o["result"]))
    # guards of valid_or_impossible_adhoc as the harness sees them: hints well-formed, and the
    # classifier predicate of C23-adhoc-secp-hostwith is false (M_Dist2.guard_ok compares them
    # with the Coq guards and applies the theorem's conclusion to the OBSERVED result)
    return "(mkCase2 %s %s %s)" % (case, q.b(hints_wf_py(c, o)), q.b(not secp_factors(c, o)))


def nontrivial(c, o):
    return len(o["graph"]["nodes"]) >= 2


def histogram(cases, obs):
    h = {}
    for c, o in zip(cases, obs):
        r = o.get("result", {})
        k = "%s%s/%s" % ("cli:" if c.get("via") == "cli" else "", c["method"],
                         "ok" if "mapping" in r else r.get("error", "driver"))
        h[k] = h.get(k, 0) + 1
        if c["method"] == "adhoc" and "graph" in o:
            if "mapping" in r and len(o.get("shuffles", [])) > 1:
                h["adhoc/ok-after-retry"] = h.get("adhoc/ok-after-retry", 0) + 1
            if hints_wf_py(c, o) and not secp_factors(c, o):
                h["adhoc/theorem-guards-hold"] = h.get("adhoc/theorem-guards-hold", 0) + 1
    return h
