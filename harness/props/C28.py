"""C28 -- algorithm parameters are validated and completed exactly."""
import collections
import contextlib
import io
import math
import re
import sys
import types

from harness import coqio as q

ID = "C28"
COQ_REQUIRE = ["M_Params"]
COQ_CASE_TYPE = "M_Params.case"
COQ_CHECK = "M_Params.check_case"
OBLIGATIONS = ["effective_definition", "prepare_exact_keys", "prepare_exact", "prepare_user_values_converted_checked",
               "check_param_value_spec", "prepare_defaults_fill", "prepare_rejects_unknown",
               "prepare_rejects_invalid", "prepare_accepts_valid", "prepare_idempotent",
               "split_colon_spec", "cli_strings_split", "cli_malformed_rejected",
               "build_algo_def_prepares_cli", "build_algo_def_no_params"]
N_QUICK, N_THOROUGH = 1000, 15000
SHARD = 125
RULE = ("seeded cases of four kinds: check_param_value(value, def); prepare_algo_params / "
        "AlgorithmDef.build_with_default_param (with and without explicit definitions) on a random "
        "subset of parameters; build_algo_def on 'name:value' strings (also malformed: no colon, two "
        "colons, empty parts) with the real module, a module without algo_params, or a registered "
        "synthetic module; str.split(':'). Definitions are the algo_params of every shipped algorithm "
        "(read from the tree under test at run time) or synthetic ones (types int/float/str/bool/list, "
        "values None/[]/typed/mixed lists, duplicate names, ill-typed defaults). Values per parameter: "
        "valid of the declared type, valid typed as string (' 7 ', '1_0', '1e-3', 'inf'), of a "
        "convertible other type (bool, float for int, int for float), invalid (wrong str, '2.5' for "
        "int, None, inf/nan, a list), unknown names. non-trivial = at least one user parameter or a "
        "non-empty definition list; distinct = distinct case JSON")
MODELLED = ("is_of_type_by_str, check_param_value, prepare_algo_params, build_algo_def (split, both "
            "preparations, exits) and Python's ==/int()/float() on non-str values are modelled; "
            "int(str)/float(str) are oracle arguments of the model (tables recorded from the "
            "interpreter per case); exact keys, conversion+check of user values, defaults, rejection "
            "of unknown/invalid, acceptance of valid, idempotence of the second preparation and the "
            "cli split are theorems (Prop_C28.v); the order of the result dict, log output and the "
            "text of error messages are not modelled")
META = dict(
    level_text=("Proof (Coq) that in the model of prepare_algo_params/check_param_value/build_algo_def "
                "a successful preparation returns exactly the declared parameter names, each user value "
                "converted to the declared type (int()/float() as the code applies them) and member of "
                "the allowed values, every other parameter at its default; that an unknown name or a "
                "value failing conversion or the allowed-values test makes the preparation fail, and "
                "that otherwise it succeeds; that build_algo_def applied to 'name:value' strings equals "
                "one preparation of the split dict (the second preparation is the identity when the "
                "declared defaults are valid), exits on any invalid input and yields no parameter for "
                "a module without declaration; the model is tied to pydcop/algorithms/__init__.py and "
                "pydcop/commands/_utils.py by a differential run on generated inputs on every check."),
    level_note=("Trusted: Coq kernel/vm_compute, the hand-written model M_Params.v, the harness. "
                "int(str) and float(str) are uninterpreted functions of the model (theorems hold for any); "
                "float(int) is modelled exactly, valid for |z| <= 2^53 (generated range). Dict keys unique "
                "(NoDup hypothesis). The iteration order of the result dict is not part of the model."),
    technique="Coq proof over executable Gallina model + differential correspondence run",
    design_ref="DESIGN.md §5 C28",
)

ALGOS = ["adsa", "amaxsum", "dba", "dpop", "dsa", "dsatuto", "gdba", "maxsum", "maxsum_dynamic",
         "mgm", "mgm2", "mixeddsa", "ncbb", "syncbb"]
UNKNOWN = ["foo", "Variant", "stop-cycle", "", "probability ", "p"]
SYN_NAMES = ["p1", "p2", "q", "variant", "stop_cycle", "x_y"]


# ---------------------------------------------------------------- value encoding
def V(x):
    """python value -> tagged JSON"""
    if isinstance(x, bool):
        return {"t": "bool", "v": x}
    if isinstance(x, int):
        return {"t": "int", "v": x}
    if isinstance(x, float):
        return {"t": "float", "v": repr(x)}
    if isinstance(x, str):
        return {"t": "str", "v": x}
    if x is None:
        return {"t": "none"}
    if isinstance(x, _Other):
        return {"t": "other", "cls": type(x).__name__, "id": x.ident}
    raise TypeError("unencodable value %r" % (x,))


class _Other:
    def __init__(self, ident):
        self.ident = ident

    def __eq__(self, o):
        return type(o) is type(self) and o.ident == self.ident

    def __hash__(self):
        return hash(self.ident)


class Blob(_Other):
    pass


class Thing(_Other):
    pass


_OTHER = {"Blob": Blob, "Thing": Thing}


def P(j):
    """tagged JSON -> fresh python value"""
    t = j["t"]
    if t == "none":
        return None
    if t == "float":
        return float(j["v"])
    if t == "other":
        return _OTHER[j["cls"]](j["id"])
    return j["v"]


def _same(a, b):
    """same tagged value (nan = nan)"""
    return a == b


# ---------------------------------------------------------------- generator
def _real_defs():
    """declared parameters of every importable shipped algorithm (tree under test)"""
    from pydcop.algorithms import load_algorithm_module
    out = {}
    for a in ALGOS:
        try:
            m = load_algorithm_module(a)
            out[a] = [_def_json(d) for d in m.algo_params]
        except Exception:
            continue
    return out


def _def_json(d):
    return dict(name=d.name, type=d.type, values=None if d.values is None else [V(x) for x in d.values],
                default=V(d.default_value))


def _value_for(rng, d, p_valid=0.7):
    """a user value for definition d: (tagged value, intended-valid flag is not used by the oracle)"""
    ty, vals = d["type"], d["values"]
    valid = rng.random() < p_valid
    if vals and valid:
        x = rng.choice(vals)
        if x["t"] in ("int", "float") and rng.random() < 0.3:
            return {"t": "str", "v": str(P(x))}
        return x
    if vals and rng.random() < 0.6:
        # of the declared (or a convertible) type but not an allowed value
        return rng.choice({"int": [V(7), V("7"), V(7.0), V(33)], "float": [V(0.3), V("0.3"), V(3), V(True)],
                           "str": [V("zzz"), V("a"), V("")]}.get(ty, [V(None)]))
    if ty == "int":
        if valid:
            return rng.choice([
                {"t": "int", "v": rng.choice([0, 1, 5, -3, 100, 2 ** 40, 10 ** 20])},
                {"t": "str", "v": rng.choice(["5", " 7 ", "1_0", "+3", "-2", "0", "007"])},
                {"t": "bool", "v": rng.random() < 0.5},
                {"t": "float", "v": rng.choice(["2.0", "2.7", "-2.7", "1e+300", "-0.0", "0.5"])}])
        return rng.choice([
            {"t": "str", "v": rng.choice(["abc", "2.5", "", "1__0", "_1", "1e3", "0x10", "5 5", "--1"])},
            {"t": "none"}, {"t": "float", "v": rng.choice(["inf", "-inf", "nan"])},
            {"t": "other", "cls": "Blob", "id": rng.randint(0, 3)}])
    if ty == "float":
        if valid:
            return rng.choice([
                {"t": "float", "v": rng.choice(["0.5", "0.7", "1.0", "0.0", "-1.5", "1e-05", "inf", "nan", "0.1"])},
                {"t": "int", "v": rng.choice([0, 1, 2, -7, 2 ** 53, 12345])},
                {"t": "str", "v": rng.choice(["0.5", "1e-3", " 2 ", "inf", "nan", "-inf", "1_0.5", ".5", "5.", "+1E2", "Infinity"])},
                {"t": "bool", "v": rng.random() < 0.5}])
        return rng.choice([
            {"t": "str", "v": rng.choice(["abc", "", "1,5", "1e", "0.5.1", "1 e3"])},
            {"t": "none"}, {"t": "other", "cls": "Thing", "id": rng.randint(0, 3)}])
    if ty == "str":
        if valid and not vals:
            return {"t": "str", "v": rng.choice(["A", "lexic", "", "x y", "a:b"])}
        return rng.choice([
            {"t": "str", "v": rng.choice(["Z", "a", "lexic ", "LEAFS", "", "1"])},
            {"t": "int", "v": rng.randint(0, 3)}, {"t": "none"}, {"t": "bool", "v": True},
            {"t": "float", "v": "1.0"}])
    # exotic declared types (bool, Blob, ...)
    return rng.choice([{"t": "bool", "v": rng.random() < 0.5}, {"t": "other", "cls": "Blob", "id": rng.randint(0, 2)},
                       {"t": "str", "v": "True"}, {"t": "int", "v": 1}, {"t": "none"}])


def _syn_defs(rng):
    defs = []
    for _ in range(rng.choice([0, 1, 2, 2, 3, 3, 4])):
        name = rng.choice(SYN_NAMES)
        ty = rng.choice(["int", "int", "float", "float", "str", "str", "bool", "Blob"])
        r = rng.random()
        if r < 0.3:
            vals = None
        elif r < 0.38:
            vals = []
        elif ty == "int":
            vals = rng.choice([[V(0), V(1), V(2)], [V(1), V(2.0), V(True)], [V(10)], [V("5"), V(5)]])
        elif ty == "float":
            vals = rng.choice([[V(0.5), V(1.0)], [V(1), V(0.25)], [V(float("inf"))]])
        elif ty == "str":
            vals = rng.choice([[V("A"), V("B"), V("C")], [V("lexic"), V("random")], [V(""), V("x")], [V("1"), V(1)]])
        elif ty == "bool":
            vals = rng.choice([[V(True)], [V(0), V(1)]])
        else:
            vals = [V(Blob(0)), V(Blob(1))]
        r = rng.random()
        if vals and r < 0.75:
            default = rng.choice(vals)
        elif r < 0.8:
            default = {"t": "none"}
        elif r < 0.88:
            default = rng.choice([V("7"), V(3), V(0.5), V(True)])     # possibly ill-typed
        else:
            default = {"int": V(rng.randint(0, 9)), "float": V(rng.choice([0.5, 0.7, 2.0])), "str": V("dflt"),
                       "bool": V(False), "Blob": V(Blob(0))}[ty]
        defs.append(dict(name=name, type=ty, values=vals, default=default))
    return defs


def _params(rng, defs):
    """a random subset of the declared parameters (+ sometimes an unknown one)"""
    params = []
    names = []
    for d in defs:
        if d["name"] in names:
            continue
        if rng.random() < 0.45:
            names.append(d["name"])
            # with duplicate declarations the last one is the effective one; pick either on purpose
            cands = [e for e in defs if e["name"] == d["name"]]
            params.append([d["name"], _value_for(rng, rng.choice(cands), 0.8)])
    if rng.random() < 0.12:
        k = rng.choice(UNKNOWN)
        if k not in names:
            params.insert(rng.randint(0, len(params)), [k, rng.choice([V("x"), V(1), V(0.5)])])
    return params


def _cli_string(rng, k, v):
    x = P(v)
    s = x if isinstance(x, str) else ("%r" % x if isinstance(x, float) else str(x))
    r = rng.random()
    if r < 0.85:
        return "%s:%s" % (k, s)
    return rng.choice([k, "%s:%s:%s" % (k, s, s), ":", k + ":", ":" + s, "%s=%s" % (k, s), ""])


def _reuse_case(rng, real, algos):
    """second use in one process: ONE user dict prepared for two algorithms, then edited after an
    AlgorithmDef was built from it"""
    if rng.random() < 0.75:
        a1, a2 = rng.sample(algos, 2) if rng.random() < 0.6 else rng.choice(
            [("dsa", "adsa"), ("mgm", "dsa"), ("adsa", "dsa"), ("mgm2", "mgm"), ("dsa", "dpop"), ("dba", "syncbb"),
             ("maxsum", "amaxsum"), ("mixeddsa", "dsa")])
        if a1 not in real or a2 not in real:
            a1, a2 = algos[0], algos[-1]
        d1, d2, s1, s2 = real[a1], real[a2], None, None
    else:
        a1 = a2 = None
        s1, s2 = _syn_defs(rng), _syn_defs(rng)
        d1, d2 = s1, s2
    n2 = {d["name"] for d in d2}
    shared = [d for d in d1 if d["name"] in n2]
    pool = shared if rng.random() < 0.8 else d1
    params, names = [], []
    for d in pool:
        if d["name"] not in names and rng.random() < 0.5:
            names.append(d["name"])
            params.append([d["name"], _value_for(rng, d, 0.92)])
    edit = rng.choice(["set", "add", "del", "clear"])
    return dict(kind="reuse", algo1=a1, algo2=a2, defs1=s1, defs2=s2, params=params,
                via=rng.choice(["direct", "algodef"]), edit=edit)


def gen(rng, n, tier):
    real = _real_defs()
    algos = sorted(real)
    cases = []
    for i in range(n):
        r = rng.random()
        if rng.random() < 0.12:
            cases.append(_reuse_case(rng, real, algos))
            continue
        if r < 0.2:
            d = rng.choice(real[rng.choice(algos)] or [None]) if rng.random() < 0.5 else None
            if d is None:
                ds = _syn_defs(rng)
                if not ds:
                    ds = [dict(name="p", type="int", values=None, default=V(0))]
                d = rng.choice(ds)
            cases.append(dict(kind="check", value=_value_for(rng, d, 0.6), d=d))
        elif r < 0.6:
            if rng.random() < 0.6:
                a = rng.choice(algos)
                via = rng.choice(["direct", "algodef", "algodef_load"])
                cases.append(dict(kind="prepare", algo=a, defs=None, via=via, params=_params(rng, real[a]),
                                  params_none=rng.random() < 0.1))
            else:
                ds = _syn_defs(rng)
                cases.append(dict(kind="prepare", algo=None, defs=ds, via=rng.choice(["direct", "algodef"]),
                                  params=_params(rng, ds), params_none=False))
        elif r < 0.95:
            rr = rng.random()
            if rr < 0.6:
                a = rng.choice(algos)
                mod, ds, decl = "real", None, real[a]
            elif rr < 0.7:
                a = rng.choice(algos)
                mod, ds, decl = "none", None, []
            elif rr < 0.9:
                a, mod, ds = None, "synthetic", _syn_defs(rng)      # registered fake module, consistent
                decl = ds
            else:
                a = rng.choice(algos)
                mod, ds = "synthetic", _syn_defs(rng)               # module and name disagree
                decl = ds
            ps = _params(rng, decl)
            if mod == "none" and rng.random() < 0.4:
                ps = [["foo", V("1")]]
            cli = [_cli_string(rng, k, v) for k, v in ps]
            if rng.random() < 0.1 and cli:
                cli.append(rng.choice(cli))                          # same parameter twice
            if not cli and rng.random() < 0.5:
                cli = None
            cases.append(dict(kind="build", algo=a, mod=mod, defs=ds, cli=cli,
                              objective=rng.choice(["min", "max"])))
        else:
            cases.append(dict(kind="split", s=rng.choice(["a:b", "ab", "a:b:c", ":", "", "a:", ":b", "::",
                                                            "variant:A", "x y: z ", "a::b"])))
    return cases


# ---------------------------------------------------------------- implementation driver
_ERR = {"ValueError": "EValue", "TypeError": "EType", "OverflowError": "EOverflow", "SystemExit": "EExit"}
_fake_counter = [0]


def _mk_defs(defs):
    from pydcop.algorithms import AlgoParameterDef
    return [AlgoParameterDef(d["name"], d["type"], None if d["values"] is None else [P(x) for x in d["values"]],
                             P(d["default"])) for d in defs]


def _catch(f):
    buf = io.StringIO()
    try:
        with contextlib.redirect_stdout(buf):
            return dict(ok=f())
    except (ValueError, TypeError, OverflowError) as e:
        return dict(error=_ERR[type(e).__name__])
    except SystemExit:
        return dict(error="EExit")


def run_impl(c):
    import pydcop.algorithms as A
    if c["kind"] == "split":
        return dict(parts=c["s"].split(":"))
    if c["kind"] == "check":
        d = _mk_defs([c["d"]])[0]
        return _catch(lambda: V(A.check_param_value(P(c["value"]), d)))
    if c["kind"] == "prepare":
        if c["algo"] is not None:
            defs = A.load_algorithm_module(c["algo"]).algo_params
        else:
            defs = _mk_defs(c["defs"])
        seen = [_def_json(d) for d in defs]
        params = None if c["params_none"] else {k: P(v) for k, v in c["params"]}

        def call():
            if c["via"] == "direct":
                r = A.prepare_algo_params({} if params is None else params, defs)
            elif c["via"] == "algodef":
                ad = A.AlgorithmDef.build_with_default_param(c["algo"] or "fake", params, "max",
                                                             parameters_definitions=defs)
                r = {k: ad.param_value(k) for k in ad.param_names()}
                assert r == ad.params or any(isinstance(x, float) and x != x for x in r.values())
                assert ad.mode == "max" and ad.algo == (c["algo"] or "fake")
            else:
                ad = A.AlgorithmDef.build_with_default_param(c["algo"], params)
                r = ad.params
            return sorted([k, V(v)] for k, v in r.items())
        out = _catch(call)
        out["defs_seen"] = seen
        return out
    if c["kind"] == "reuse":
        defs1 = A.load_algorithm_module(c["algo1"]).algo_params if c["algo1"] else _mk_defs(c["defs1"])
        defs2 = A.load_algorithm_module(c["algo2"]).algo_params if c["algo2"] else _mk_defs(c["defs2"])
        user = {k: P(v) for k, v in c["params"]}          # the ONE dict the caller owns

        def prep(defs, name):
            def call():
                if c["via"] == "direct":
                    r = A.prepare_algo_params(user, defs)
                else:
                    r = A.AlgorithmDef.build_with_default_param(name or "fake", user,
                                                                parameters_definitions=defs).params
                return sorted([k, V(v)] for k, v in r.items())
            return _catch(call)
        first = prep(defs1, c["algo1"])
        second = prep(defs2, c["algo2"])

        # an AlgorithmDef must not follow later edits of the dict it was built from
        user2 = {k: P(v) for k, v in c["params"]}

        def build_then_edit():
            ad = A.AlgorithmDef.build_with_default_param(c["algo1"] or "fake", user2,
                                                         parameters_definitions=defs1)
            if c["edit"] == "set":
                for k in list(user2):
                    user2[k] = "edited"
            elif c["edit"] == "add":
                user2["added_later"] = 1
            elif c["edit"] == "del":
                for k in list(user2)[:1]:
                    del user2[k]
            else:
                user2.clear()
            return sorted([k, V(ad.param_value(k))] for k in ad.param_names())
        third = _catch(build_then_edit)
        return dict(first=first, second=second, third=third,
                    defs1_seen=[_def_json(d) for d in defs1], defs2_seen=[_def_json(d) for d in defs2])
    # build
    from pydcop.commands._utils import build_algo_def
    fake_name = None
    if c["mod"] == "real":
        module = A.load_algorithm_module(c["algo"])
        name = c["algo"]
        mod_seen = [_def_json(d) for d in module.algo_params]
    elif c["mod"] == "none":
        module = types.SimpleNamespace()
        name = c["algo"]
        mod_seen = None
    else:
        defs = _mk_defs(c["defs"])
        mod_seen = [_def_json(d) for d in defs]
        if c["algo"] is None:
            _fake_counter[0] += 1
            fake_name = "verif_fake_%d" % _fake_counter[0]
            module = types.ModuleType("pydcop.algorithms." + fake_name)
            module.algo_params = defs
            module.build_computation = lambda *a, **k: None
            sys.modules["pydcop.algorithms." + fake_name] = module
            name = fake_name
        else:
            module = types.SimpleNamespace(algo_params=defs)
            name = c["algo"]
    try:
        name_seen = [_def_json(d) for d in A.load_algorithm_module(name).algo_params]

        def call():
            ad = build_algo_def(module, name, c["objective"], c["cli"])
            assert ad.algo == name and ad.mode == c["objective"], (ad.algo, ad.mode)
            return sorted([k, V(v)] for k, v in ad.params.items())
        out = _catch(call)
    finally:
        if fake_name:
            sys.modules.pop("pydcop.algorithms." + fake_name, None)
    out["mod_seen"] = mod_seen
    out["name_seen"] = name_seen
    return out


# ---------------------------------------------------------------- independent oracle
_INT_RE = re.compile(r"^\s*[+-]?[0-9]+(_[0-9]+)*\s*$")


def _py_eq(a, b):
    """Python == between two tagged values, stated on the tags"""
    num = ("int", "float", "bool")
    if a["t"] in num and b["t"] in num:
        x, y = P(a), P(b)
        return x == y
    if a["t"] != b["t"]:
        return False
    if a["t"] == "none":
        return True
    if a["t"] == "other":
        return a["cls"] == b["cls"] and a["id"] == b["id"]
    return a["v"] == b["v"]


def _expected_value(v, d):
    """the value the property demands for user value v under definition d, or 'reject'"""
    cls = {"int": "int", "float": "float", "str": "str", "bool": "bool", "none": "NoneType"}.get(v["t"]) or v.get("cls")
    ty = d["type"]
    if cls == ty:
        out = v
    elif ty == "int":
        if v["t"] == "bool":
            out = V(1 if v["v"] else 0)
        elif v["t"] == "float":
            f = float(v["v"])
            if math.isinf(f) or math.isnan(f):
                return "reject"
            out = V(math.trunc(f))
        elif v["t"] == "str":
            if not _INT_RE.match(v["v"]):
                return "reject"
            out = V(int(v["v"].strip().replace("_", ""), 10))
        else:
            return "reject"
    elif ty == "float":
        if v["t"] in ("bool", "int"):
            out = V(float(v["v"]))
        elif v["t"] == "str":
            try:
                out = V(float(v["v"]))          # the platform's str->float conversion is the definition
            except ValueError:
                return "reject"
        else:
            return "reject"
    else:
        return "reject"
    if d["values"]:
        if not any(_py_eq(out, x) for x in d["values"]):
            return "reject"
    return out


def _effective(defs):
    eff = collections.OrderedDict()
    for d in defs:
        eff[d["name"]] = d
    return eff


def _expected_params(params, defs):
    """dict name -> tagged value demanded by the property, or 'reject'"""
    eff = _effective(defs)
    out = {}
    for k, v in params:
        if k not in eff:
            return "reject"
        e = _expected_value(v, eff[k])
        if e == "reject":
            return "reject"
        out[k] = e
    for k, d in eff.items():
        if k not in out:
            out[k] = d["default"]
    return out


def _compare(exp, o, what):
    if exp == "reject":
        if "error" not in o:
            return "%s accepted (%r) but an unknown parameter / invalid value must be rejected" % (what, o["ok"])
        return None
    if "error" in o:
        return "%s rejected (%s) although every parameter is declared and valid" % (what, o["error"])
    got = {k: v for k, v in o["ok"]}
    if sorted(got) != sorted(exp):
        return "%s: parameter names %r, declared %r" % (what, sorted(got), sorted(exp))
    for k in exp:
        if not _same(got[k], exp[k]):
            return "%s: parameter %s = %r, expected %r" % (what, k, got[k], exp[k])
    return None


def _defaults_conform(defs):
    return all(_expected_value(d["default"], d) == d["default"] for d in _effective(defs).values())


def oracle(c, o):
    if c["kind"] == "split":
        s, parts = c["s"], o["parts"]
        if ":".join(parts) != s or any(":" in p for p in parts):
            return "split(':') of %r gave %r" % (s, parts)
        return None
    if c["kind"] == "check":
        exp = _expected_value(c["value"], c["d"])
        if exp == "reject":
            return None if "error" in o else "check_param_value accepted %r for %r" % (c["value"], c["d"])
        if "error" in o:
            return "check_param_value rejected valid %r for %r (%s)" % (c["value"], c["d"], o["error"])
        return None if _same(o["ok"], exp) else "check_param_value(%r) = %r, expected %r" % (c["value"], o["ok"], exp)
    if c["kind"] == "prepare":
        defs = o["defs_seen"]
        params = [] if c["params_none"] else c["params"]
        return _compare(_expected_params(params, defs), o, "prepare(%s)" % c["via"])
    if c["kind"] == "reuse":
        # ground truth: each preparation is judged against the user's ORIGINAL settings
        m = _compare(_expected_params(c["params"], o["defs1_seen"]), o["first"], "first preparation")
        if m:
            return m
        m = _compare(_expected_params(c["params"], o["defs2_seen"]), o["second"],
                     "second preparation of the same user dict (for another algorithm)")
        if m:
            return m
        return _compare(_expected_params(c["params"], o["defs1_seen"]), o["third"],
                        "AlgorithmDef read after the caller edited (%s) the dict it was built from" % c["edit"])
    # build
    if c["mod"] == "none":
        if c["cli"]:
            return None if "error" in o else "module without algo_params accepted cli parameters"
        if "error" in o:
            return "build_algo_def raised %s for an algorithm that declares no parameter" % o["error"]
        return None if o["ok"] == [] else "parameters %r for an algorithm that declares none" % (o["ok"],)
    if o["mod_seen"] != o["name_seen"]:
        return None          # module and name disagree: no statement; the model still has to agree
    defs = o["mod_seen"]
    if not _defaults_conform(defs):
        return None          # the property is about declarations whose defaults are valid
    params = collections.OrderedDict()
    for s in c["cli"] or []:
        parts = s.split(":")
        if len(parts) != 2:
            return None if "error" in o else "malformed cli parameter %r accepted" % s
        params[parts[0]] = V(parts[1])
    return _compare(_expected_params(list(params.items()), defs), o, "build_algo_def")


def classify(c, o, msg):
    return None


# ---------------------------------------------------------------- Gallina
def _fl_term(f):
    if math.isnan(f):
        return "FNan"
    if math.isinf(f):
        return "(FInf %s)" % q.b(f < 0)
    n, d = f.as_integer_ratio()
    return "(FFin %s %d%%positive)" % (q.z(n), d)


def _v_term(j):
    t = j["t"]
    if t == "int":
        return "(VInt %s)" % q.z(j["v"])
    if t == "float":
        return "(VFloat %s)" % _fl_term(float(j["v"]))
    if t == "str":
        return "(VStr %s)" % q.s(j["v"])
    if t == "bool":
        return "(VBool %s)" % q.b(j["v"])
    if t == "none":
        return "VNone"
    return "(VOther %s %s)" % (q.s(j["cls"]), q.z(j["id"]))


def _def_term(d):
    vals = "None" if d["values"] is None else "(Some %s)" % q.lst([_v_term(x) for x in d["values"]])
    return "(mkDef %s %s %s %s)" % (q.s(d["name"]), q.s(d["type"]), vals, _v_term(d["default"]))


def _res_term(o, okf):
    if "error" in o:
        return "(Err %s)" % o["error"]
    return "(Ok %s)" % okf(o["ok"])


def _dict_term(items):
    return q.lst([q.pair(q.s(k), _v_term(v)) for k, v in items])


def _strings(c, o):
    """every str that may reach int()/float(): user values, cli values, defaults, allowed values"""
    out = []

    def add(j):
        if j and j.get("t") == "str" and j["v"] not in out:
            out.append(j["v"])
    if c["kind"] == "check":
        add(c["value"])
        defs = [c["d"]]
    elif c["kind"] == "prepare":
        for _, v in c["params"]:
            add(v)
        defs = o["defs_seen"]
    elif c["kind"] == "reuse":
        for _, v in c["params"]:
            add(v)
        defs = o["defs2_seen"]
    else:
        for s in c["cli"] or []:
            for p in s.split(":"):
                add({"t": "str", "v": p})
        defs = (o["mod_seen"] or []) + o["name_seen"]
    for d in defs:
        add(d["default"])
        for x in d["values"] or []:
            add(x)
    return out


def _tabs_term(strings):
    ints, floats = [], []
    for s in strings:
        try:
            ints.append(q.pair(q.s(s), "(Ok %s)" % q.z(int(s))))
        except ValueError:
            ints.append(q.pair(q.s(s), "(Err EValue)"))
        try:
            floats.append(q.pair(q.s(s), "(Ok %s)" % _fl_term(float(s))))
        except ValueError:
            floats.append(q.pair(q.s(s), "(Err EValue)"))
    return "(mkTabs %s %s)" % (q.lst(ints), q.lst(floats))


def coq_case(c, o):
    if c["kind"] == "split":
        return "CSplit %s %s" % (q.s(c["s"]), q.slist(o["parts"]))
    tabs = _tabs_term(_strings(c, o))
    if c["kind"] == "check":
        return "CCheck %s %s %s %s" % (tabs, _v_term(c["value"]), _def_term(c["d"]), _res_term(o, _v_term))
    if c["kind"] == "prepare":
        params = [] if c["params_none"] else c["params"]
        return "CPrepare %s %s %s %s" % (tabs, _dict_term(params), q.lst([_def_term(d) for d in o["defs_seen"]]),
                                         _res_term(o, _dict_term))
    if c["kind"] == "reuse":
        return "CPrepare %s %s %s %s" % (tabs, _dict_term(c["params"]),
                                         q.lst([_def_term(d) for d in o["defs2_seen"]]),
                                         _res_term(o["second"], _dict_term))
    md = "None" if o["mod_seen"] is None else "(Some %s)" % q.lst([_def_term(d) for d in o["mod_seen"]])
    cli = "None" if c["cli"] is None else "(Some %s)" % q.slist(c["cli"])
    return "CBuild %s %s %s %s %s" % (tabs, md, q.lst([_def_term(d) for d in o["name_seen"]]), cli,
                                      _res_term(o, _dict_term))


def nontrivial(c, o):
    if c["kind"] == "check":
        return True
    if c["kind"] == "prepare":
        return bool(c["params"]) or bool(o.get("defs_seen"))
    if c["kind"] == "build":
        return bool(c["cli"]) or bool(o.get("mod_seen"))
    if c["kind"] == "reuse":
        return True
    return ":" in c["s"]


def histogram(cases, obs):
    h = collections.Counter()
    for c, o in zip(cases, obs):
        k = c["kind"]
        if k == "prepare":
            k += "/" + c["via"] + ("/real" if c["algo"] else "/synthetic")
        if k == "build":
            k += "/" + c["mod"] + ("" if c["algo"] or c["mod"] != "synthetic" else "-registered")
        h[k] += 1
        if c["kind"] == "reuse":
            h["result:" + (o["second"].get("error") or "ok")] += 1
            continue
        h["result:" + (o.get("error") or "ok")] += 1
        if c.get("algo"):
            h["algo:" + c["algo"]] += 1
    return dict(h)


def shrink_candidates(c):
    if c["kind"] == "prepare":
        for i in range(len(c["params"])):
            yield dict(c, params=c["params"][:i] + c["params"][i + 1:])
        if c["defs"]:
            for i in range(len(c["defs"])):
                yield dict(c, defs=c["defs"][:i] + c["defs"][i + 1:])
    if c["kind"] == "build" and c["cli"]:
        for i in range(len(c["cli"])):
            yield dict(c, cli=c["cli"][:i] + c["cli"][i + 1:])
